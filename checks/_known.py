"""Known findings (committed, never written at run time)."""
import json
import os

VERIF = os.path.dirname(os.path.dirname(os.path.abspath(__file__)))


def load(prop):
    out = []
    p = os.path.join(VERIF, "known_findings.jsonl")
    if os.path.exists(p):
        for line in open(p):
            line = line.strip()
            if not line or line.startswith("#") or line.startswith("fixed:"):
                continue
            d = json.loads(line)
            if d.get("property") == prop:
                out.append(d)
    return out
