"""Make the tree under verification (BUMPVER_SRC, default /repo/src) the first import location."""
import os
import sys

SRC_ROOT = os.environ.get("BUMPVER_SRC", "/repo/src")


def ensure_src():
    while SRC_ROOT in sys.path:
        sys.path.remove(SRC_ROOT)
    sys.path.insert(0, SRC_ROOT)
    for m in [m for m in sys.modules if m == "bumpver" or m.startswith("bumpver.")]:
        f = getattr(sys.modules[m], "__file__", "") or ""
        if not os.path.abspath(f).startswith(os.path.abspath(SRC_ROOT)):
            del sys.modules[m]
    return SRC_ROOT


ensure_src()
