"""C01 bounded layers (never counted as proved):
  B  the generated-project shadow (shadows/project.py);
  B  the gate on directed `--set-version` targets through the real CLI: a target is accepted (exit 0) only if it
     matches the pattern in full and is strictly greater under PEP 440 than the current version (reference:
     packaging) - equal versions in another spelling, smaller versions and malformed texts are rejected and
     nothing is written."""
import re

from shadows.project import run_shadow, FAMILIES

# (pattern, current, target)
GATE_CASES = [
    ("MAJOR.MINOR.PATCH", "1.2.3", "1.2.4"),
    ("MAJOR.MINOR.PATCH", "1.2.3", "1.2.3"),
    ("MAJOR.MINOR.PATCH", "1.2.3", "1.02.3"),
    ("MAJOR.MINOR.PATCH", "1.2.3", "01.2.3"),
    ("MAJOR.MINOR.PATCH", "1.2.3", "1.2.2"),
    ("MAJOR.MINOR.PATCH", "1.9.0", "1.10.0"),
    ("MAJOR.MINOR.PATCH", "1.10.0", "1.9.9"),
    ("MAJOR.MINOR.PATCH", "1.2.3", "1.2"),
    ("MAJOR.MINOR.PATCH", "1.2.3", "1.2.4.5"),
    ("MAJOR.MINOR.PATCH", "1.2.3", "v1.2.4"),
    ("vMAJOR.MINOR.PATCH[-TAG]", "v1.2.3", "v1.2.3-final"),
    ("vMAJOR.MINOR.PATCH[-TAG]", "v1.2.3-beta", "v1.2.3-alpha"),
    ("vMAJOR.MINOR.PATCH[-TAG]", "v1.2.3-beta", "v1.2.3-rc"),
    ("vMAJOR.MINOR.PATCH[-TAG]", "v1.2.3-rc", "v1.2.3"),
    ("vMAJOR.MINOR.PATCH[-TAG]", "v1.2.3", "v1.2.3-post"),
    ("vMAJOR.MINOR.PATCH[-TAG]", "v1.2.3", "v1.2.3-dev"),
    ("vMAJOR.MINOR.PATCH[-TAG]", "v1.2.3-rc", "v1.2.3-dev"),
    ("vMAJOR.MINOR.PATCH[-TAG]", "v1.2.3-alpha", "v1.2.3-dev"),
    ("vMAJOR.MINOR.PATCH[-TAG]", "v1.2.3-dev", "v1.2.3-alpha"),
    ("vMAJOR.MINOR.PATCH[-TAG]", "v1.2.3-post", "v1.2.3"),
    ("vMAJOR.MINOR.PATCH[-TAG]", "v1.2.3", "v1.02.3"),
    ("YYYY.BUILD[-TAG]", "2020.1009", "2020.1009"),
    ("YYYY.BUILD[-TAG]", "2020.1009", "2020.1010"),
    ("YYYY.BUILD[-TAG]", "2020.1009", "2019.1099"),
    ("YYYY.BUILD[-TAG]", "2020.1009", "2020.1009-beta"),
    ("{semver}", "1.2.3", "1.2.3"),
    ("{semver}", "1.2.3", "1.02.3"),
    ("{semver}", "1.2.3", "1.3.0"),
]


def gate_case(pattern, current, target):
    import packaging.version as pv
    from checks.c03 import run_set_version

    r = run_set_version(pattern, current, target)
    ok_shape = re.fullmatch(FAMILIES[pattern]["rx"], target) is not None
    greater = ok_shape and pv.Version(target) > pv.Version(current)
    if r["rc"] == 0 and not greater:
        why = "does not match the pattern in full" if not ok_shape else f"is not greater than {current!r} under PEP 440"
        return f"update --set-version {target!r} ({pattern}, from {current!r}) exited 0 although the target {why}; announced {r['announced']!r}, written {r['written']!r}"
    if r["rc"] != 0 and r["changed"]:
        return f"rejected --set-version {target!r} (exit {r['rc']}) changed files"
    if r["rc"] != 0 and greater:
        return f"update --set-version {target!r} ({pattern}, from {current!r}) was rejected (exit {r['rc']}) although it matches and is greater: {r['stderr']!r}"
    return None


def replay_gate(pattern, current, target):
    return gate_case(pattern, current, target) is None


# (config version, tags): version order and string order of tag and config disagree (digit-count carries, pre-release vs final)
START_CASES = [
    ("2.0.10", ["2.0.9"]),
    ("2.0.9", ["2.0.10"]),
    ("1.10.0", ["1.9.9", "1.9.10"]),
    ("1.9.0", ["1.10.0"]),
    ("0.1.9", ["0.1.10", "0.1.2"]),
    ("10.0.0", ["9.9.9"]),
]


def start_case(current, tags):
    """Directed (default scope): the bump starts from the greater of config and newest tag and ends strictly above it."""
    from shadows.project import plain_scenario, check_scenario

    r = check_scenario(0, sc=plain_scenario(current=current, tags=list(tags) + ["junk", "also-junk"], tag=False))
    bad = {k: v for k, v in r.items() if k in ("C01", "C09", "_error")}
    if not bad and r.get("_rc") != 0:
        bad = {"C01": f"update failed (exit {r.get('_rc')}) on a consistent project"}
    return f"config {current}, tags {tags}: {bad}" if bad else None


def replay_start(current, tags):
    return start_case(current, tags) is None


def run(tier="quick", seed=0):
    out = [run_shadow("C01", tier, seed)]
    bad_s = []
    for case in START_CASES:
        try:
            r = start_case(*case)
        except Exception as e:  # noqa
            r = f"exception {type(e).__name__}: {e}"
        if r is not None:
            bad_s.append((case, r))
    out.append(
        dict(
            name="C01.start_version.bump_ends_strictly_above_the_greater_of_config_and_newest_tag",
            kind="B",
            verdict="held" if not bad_s else "refuted",
            cases=len(START_CASES),
            distinct=len(START_CASES),
            bound=f"{len(START_CASES)} directed projects whose config version and newest tag order differently as strings and as versions; real CLI, fake git",
            witness=[dict(case=list(c), problem=r) for c, r in bad_s[:3]],
            observed=bad_s[0][1] if bad_s else None,
            sample=[list(c) for c in START_CASES[:2]],
            python_replay=(dict(module="checks.c01", function="replay_start", args=list(bad_s[0][0])) if bad_s else None),
        )
    )
    bad = []
    for case in GATE_CASES:
        try:
            r = gate_case(*case)
        except Exception as e:  # noqa
            r = f"exception {type(e).__name__}: {e}"
        if r is not None:
            bad.append((case, r))
    out.append(
        dict(
            name="C01.set_version_gate.accepted_only_if_full_match_and_strictly_greater",
            kind="B",
            verdict="held" if not bad else "refuted",
            cases=len(GATE_CASES),
            distinct=len(GATE_CASES),
            bound=f"{len(GATE_CASES)} directed --set-version targets (equal, equal in another spelling, smaller, greater, 9->10 carries, tag order, malformed) x 4 pattern families, real CLI in a subprocess, reference order: packaging",
            witness=[dict(case=list(c), problem=r) for c, r in bad[:3]],
            observed=bad[0][1] if bad else None,
            sample=[list(c) for c in GATE_CASES[:3]],
            python_replay=(dict(module="checks.c01", function="replay_gate", args=list(bad[0][0])) if bad else None),
        )
    )
    return out
