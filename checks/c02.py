"""C02: rendered versions are accepted by their own pattern and read back unchanged.
  X  part layer: for every part and every value of its domain (image of the real cal_info over every
     date 1000-01-01..9999-12-31, every tag) the rendered text is matched in full by the part regex
     under Python's priority semantics and decodes to the same value;
  P  numeric parts (unbounded values): contracts/parts.py (decimal numerals, A-dec);
  B  composition: round trip on patterns generated from the documented grammar (bounded)."""
import datetime as dt
import random
import re

from checks._src import SRC_ROOT, ensure_src
from checks import calendar_x as CX
from checks import grammar, _known


def part_accepts(part, value):
    ensure_src()
    from bumpver import v2patterns, v2version

    text = v2patterns.PART_FORMATS[part](value)
    m = re.match(v2patterns.PART_PATTERNS[part], text)
    if not m or m.group(0) != text:
        return False, f"{part}: rendered {text!r} for {value!r} is matched as {m.group(0)!r}" if m else f"{part}: rendered {text!r} for {value!r} is not matched"
    field = v2patterns.PATTERN_PART_FIELDS[part]
    if field in CX.CAL_FIELDS:
        # read back in the context of a year (a calendar part never stands alone in a pattern);
        # 2024 is a leap year, so every day of year exists
        ctx = {} if field in ("year_y", "year_g") else ({"year_g": "2024"} if field == "week_v" else {"year_y": "2024"})
        ci = v2version.parse_field_values_to_cinfo(dict(ctx, **{field: text}))
        got = getattr(ci, field)
    else:
        vi = v2version.parse_field_values_to_vinfo({field: text})
        got = getattr(vi, field)
    want = value
    if got != want:
        return False, f"{part}: {text!r} reads back as {got!r}, rendered from {want!r}"
    return True, None


def classify(part_or_pattern, value_or_vals):
    """Witness class for the known-findings file."""
    import datetime as _dt

    if part_or_pattern in ("WW", "0W", "UU", "0U") and value_or_vals == 53:
        return "week_53"
    if isinstance(value_or_vals, dict):
        d = value_or_vals["date"]
        d = _dt.date.fromisoformat(d) if isinstance(d, str) else d
        if (("WW" in part_or_pattern or "0W" in part_or_pattern) and d.strftime("%W") == "53") or (("UU" in part_or_pattern or "0U" in part_or_pattern) and d.strftime("%U") == "53"):
            return "week_53"
    return "other"


def replay_part(part, value):
    return part_accepts(part, value)[0]


def roundtrip(pattern, order, vals):
    """render -> accepted in full -> same parts -> same text."""
    ensure_src()
    from bumpver import v2version, v2patterns, version

    if "TAG" not in order and "PYTAG" not in order:
        vals = dict(vals, tag="final", num=0)  # reachable states: a pattern without a tag part only ever holds final releases
    base = v2version.parse_field_values_to_vinfo({"major": str(vals["major"]), "minor": str(vals["minor"]), "patch": str(vals["patch"]), "num": str(vals["num"]), "inc0": str(vals["inc0"]), "inc1": str(vals["inc1"]), "bid": vals["bid"], "tag": vals["tag"]})
    vinfo = base._replace(**v2version.cal_info(vals["date"])._asdict())
    if not v2version.is_valid_week_pattern(pattern):
        return True, None
    text = v2version.format_version(vinfo, pattern)
    if text == "":
        return True, None
    try:
        back = v2version.parse_version_info(text, pattern)
    except version.PatternError as e:
        return False, f"rendered {text!r} is not accepted by its own pattern: {e}"
    fields_in_pattern = {grammar.FIELD[p] for p in order}
    for p in order:
        f = grammar.FIELD[p]
        a, b = getattr(vinfo, f), getattr(back, f)
        if p in ("YY", "0Y", "GG", "0G"):
            a = a % 100 + 2000
        if p == "BLD":
            a, b = str(int(a)), str(int(b))
        if p == "PYTAG" or p == "TAG":
            # an omitted optional tag reads back as final / ''
            pass
        if f == "num" and not ({"tag", "pytag"} & fields_in_pattern):
            pass
        if a != b:
            # parts inside an omitted optional group read back as their zero value
            zero = {"major": 0, "minor": 0, "patch": 0, "num": 0, "inc0": 0, "tag": "final", "pytag": ""}
            if f in zero and b == zero[f] and str(a) not in text:
                continue
            return False, f"part {p}: rendered from {a!r}, read back {b!r} (text {text!r})"
    again = v2version.format_version(back, pattern)
    if again != text:
        return False, f"re-rendering what was read back gives {again!r}, not {text!r}"
    return True, None


def replay_roundtrip(pattern, order, vals):
    vals = dict(vals)
    if isinstance(vals["date"], str):
        vals["date"] = dt.date.fromisoformat(vals["date"])
    return roundtrip(pattern, order, vals)[0]


def fields_in_order(pattern, order):
    ensure_src()
    from bumpver import v2version

    got = v2version._parse_pattern_fields(pattern)
    want = [grammar.FIELD[p] for p in order]
    return got == want, f"_parse_pattern_fields({pattern!r}) = {got}, expected {want}"


def run(tier="quick", seed=0, props=("C02",)):
    ensure_src()
    from bumpver import v2patterns, version

    out = []
    if "C02" in props:
        en = CX.enumerate_dates(dt.date(1000, 1, 1).toordinal(), CX.MAX_ORD)
        domains = {}
        for part, field in v2patterns.PATTERN_PART_FIELDS.items():
            if field in CX.CAL_FIELDS:
                vals = sorted(en["values"][field])
                if part in ("YY", "0Y", "GG", "0G"):
                    vals = [v for v in vals if 2001 <= v <= 2099]  # the property's range for two-digit-year parts
                domains[part] = vals
        domains["TAG"] = sorted(set(version.TAG_BY_PEP440_TAG.values()) | {"preview"})
        # the empty PYTAG (final release) is never rendered on its own: its optional group is omitted (layer B covers that)
        domains["PYTAG"] = sorted(k for k in version.TAG_BY_PEP440_TAG.keys() if k)
        known = {k["witness_class"]: k for k in _known.load("C02")}
        bad = []
        n = 0
        for part, vals in domains.items():
            for v in vals:
                n += 1
                ok, why = part_accepts(part, v)
                if not ok:
                    bad.append((part, v, why))
        new = [b for b in bad if classify(b[0], b[1]) not in known]
        kf = ",".join(sorted({known[classify(b[0], b[1])]["id"] for b in bad if classify(b[0], b[1]) in known})) if bad and not new else None
        bad = new or bad
        out.append(
            dict(
                name="C02.part_layer.rendered_part_is_matched_in_full_and_decodes_to_the_same_value",
                kind="X",
                known_finding=kf,
                verdict="held" if not bad else "refuted",
                cases=n,
                distinct=n,
                domain=f"every calendar part x every value in the image of cal_info over all {en['n']} dates 1000-01-01..9999-12-31 (two-digit years on 2000..2099), every tag; real re.match priority semantics",
                witness=[dict(part=p, value=v, problem=w) for p, v, w in bad[:4]],
                observed=bad[0][2] if bad else None,
                python_replay=(dict(module="checks.c02", function="replay_part", args=[bad[0][0], bad[0][1]]) if bad else None),
            )
        )
    # ---- B: composition round trip and field order
    rng = random.Random(seed)
    n = 3000 if tier == "quick" else 300000
    bad_rt, bad_fo = None, None
    known_c = {k["witness_class"]: k for k in _known.load("C02")}
    known_rt = None
    cnt = 0
    pats = set()
    for _ in range(n):
        pattern, order = grammar.gen_pattern(rng)
        vals = grammar.gen_values(rng)
        pats.add(pattern)
        cnt += 1
        try:
            if "C02" in props and bad_rt is None:
                ok, why = roundtrip(pattern, order, vals)
                if not ok:
                    rec = (pattern, order, dict(vals, date=vals["date"].isoformat()), why)
                    if classify(pattern, vals) in known_c:
                        known_rt = known_rt or rec
                    else:
                        bad_rt = rec
            if bad_fo is None:
                ok, why = fields_in_order(pattern, order)
                if not ok:
                    bad_fo = (pattern, order, why)
        except Exception as e:  # noqa
            if bad_rt is None:
                bad_rt = (pattern, order, dict(vals, date=vals["date"].isoformat()), f"exception {type(e).__name__}: {e}")
    if "C02" in props:
        out.append(
            dict(
                name="C02.composition.render_accept_read_back_render_again",
                kind="B",
                verdict="held" if bad_rt is None and known_rt is None else "refuted",
                known_finding=(known_c[classify(known_rt[0], known_rt[2])]["id"] if bad_rt is None and known_rt is not None else None),
                cases=cnt,
                distinct=len(pats),
                bound=f"{cnt} seeded (pattern, value) pairs, {len(pats)} distinct grammar patterns (<= 6 parts, nested optional groups <= 3, literal prefix/suffix), boundary values and dates 2001..2099 incl. week 53 / New Year days",
                witness=[dict(pattern=b[0], values=b[2], problem=b[3]) for b in [bad_rt or known_rt] if b],
                observed=(bad_rt or known_rt)[3] if (bad_rt or known_rt) else None,
                sample=sorted(pats)[:6],
                python_replay=(dict(module="checks.c02", function="replay_roundtrip", args=[bad_rt[0], bad_rt[1], bad_rt[2]]) if bad_rt else None),
            )
        )
    if "C05" in props:
        out.append(
            dict(
                name="C05._parse_pattern_fields.fields_in_left_to_right_order_of_the_parts",
                kind="B",
                verdict="held" if bad_fo is None else "refuted",
                cases=cnt,
                distinct=len(pats),
                bound=f"{len(pats)} distinct grammar patterns (seed {seed})",
                witness=[dict(pattern=bad_fo[0], problem=bad_fo[2])] if bad_fo else [],
                observed=bad_fo[2] if bad_fo else None,
            )
        )
    return out
