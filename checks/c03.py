"""C03 bounded layers (never counted as proved):
  B  the generated-project shadow (shadows/project.py);
  B  `--set-version` targets through the real CLI: the announced version, the rewritten occurrences and the
     config's current_version must be the same text (spellings the pattern's regex accepts: canonical, leading
     zeros, explicit `-final`)."""
import os
import shutil
import subprocess
import sys
import tempfile

from checks import _known
from checks._src import SRC_ROOT, ensure_src
from shadows.project import run_shadow

# (pattern, current version, --set-version argument)
SET_VERSION_CASES = [
    ("vMAJOR.MINOR.PATCH[-TAG]", "v0.9.1-beta", "v0.9.1"),
    ("vMAJOR.MINOR.PATCH[-TAG]", "v0.9.1-beta", "v0.09.1"),
    ("vMAJOR.MINOR.PATCH[-TAG]", "v0.9.1-beta", "v0.10.0-rc"),
    ("MAJOR.MINOR.PATCH", "1.2.3", "1.2.4"),
    ("MAJOR.MINOR.PATCH", "1.2.3", "1.02.4"),
    ("MAJOR.MINOR.PATCH", "1.2.3", "01.3.0"),
    ("YYYY.BUILD[-TAG]", "2020.1009-beta", "2020.1009"),
    ("YYYY.BUILD[-TAG]", "2020.1009-beta", "2021.1010-rc"),
    ("{semver}", "1.2.3", "1.2.4"),
    ("{semver}", "1.2.3", "1.02.4"),
]


def run_set_version(pattern, current, target):
    """Run `update --set-version target` on a two-file project; returns what happened."""
    import re

    ensure_src()
    d = tempfile.mkdtemp(prefix="c03sv_")
    try:
        cfg = (
            f'[bumpver]\ncurrent_version = "{current}"\nversion_pattern = "{pattern}"\ncommit = false\ntag = false\npush = false\n\n'
            '[bumpver.file_patterns]\n"bumpver.toml" = [\'current_version = "{version}"\']\n"mod.py" = [\'__version__ = "{version}"\']\n'
        )
        open(os.path.join(d, "bumpver.toml"), "w").write(cfg)
        open(os.path.join(d, "mod.py"), "w").write(f'# module\n__version__ = "{current}"\n')
        env = dict(os.environ, PYTHONPATH=SRC_ROOT)
        p = subprocess.run([sys.executable, "-m", "bumpver", "update", "--set-version", target], cwd=d, env=env, capture_output=True, text=True)
        mod = open(os.path.join(d, "mod.py")).read()
        cfg_after = open(os.path.join(d, "bumpver.toml")).read()
        m = re.search(r"New Version: (\S+)", p.stderr + p.stdout)
        return dict(
            rc=p.returncode,
            announced=m.group(1) if m else None,
            written=re.search(r'__version__ = "([^"]*)"', mod).group(1),
            in_cfg=re.search(r'current_version = "([^"]*)"', cfg_after).group(1),
            changed=(mod != f'# module\n__version__ = "{current}"\n' or cfg_after != cfg),
            stderr=p.stderr[-300:],
        )
    finally:
        shutil.rmtree(d, ignore_errors=True)


def set_version_case(pattern, current, target):
    """None, or what disagrees. A rejected --set-version (exit 1, nothing written) is fine."""
    ensure_src()
    d = tempfile.mkdtemp(prefix="c03sv_")
    try:
        cfg = (
            f'[bumpver]\ncurrent_version = "{current}"\nversion_pattern = "{pattern}"\ncommit = false\ntag = false\npush = false\n\n'
            '[bumpver.file_patterns]\n"bumpver.toml" = [\'current_version = "{version}"\']\n"mod.py" = [\'__version__ = "{version}"\']\n'
        )
        open(os.path.join(d, "bumpver.toml"), "w").write(cfg)
        open(os.path.join(d, "mod.py"), "w").write(f'# module\n__version__ = "{current}"\n')
        env = dict(os.environ, PYTHONPATH=SRC_ROOT)
        p = subprocess.run([sys.executable, "-m", "bumpver", "update", "--set-version", target], cwd=d, env=env, capture_output=True, text=True)
        mod = open(os.path.join(d, "mod.py")).read()
        cfg_after = open(os.path.join(d, "bumpver.toml")).read()
        if p.returncode != 0:
            if mod != f'# module\n__version__ = "{current}"\n' or cfg_after != cfg:
                return f"rejected --set-version {target!r} (exit {p.returncode}) changed files"
            return None
        import re

        m = re.search(r"New Version: (\S+)", p.stderr + p.stdout)
        announced = m.group(1) if m else None
        written = re.search(r'__version__ = "([^"]*)"', mod).group(1)
        in_cfg = re.search(r'current_version = "([^"]*)"', cfg_after).group(1)
        if not (announced == written == in_cfg):
            cls = "[set_version_noncanonical] " if written == in_cfg and announced == target and written != target else ""
            return f"{cls}update --set-version {target!r} ({pattern}, from {current!r}): announced {announced!r}, occurrence written as {written!r}, config current_version {in_cfg!r}"
        return None
    finally:
        shutil.rmtree(d, ignore_errors=True)


def replay_set_version(pattern, current, target):
    return set_version_case(pattern, current, target) is None


SELF_PATTERN_CASES = [(f, i, p, c) for f in (True, False) for i in (True, False) for (p, c) in (("MAJOR.MINOR.PATCH", "0.1.9"), ("YYYY.BUILD[-TAG]", "2020.1009-beta"), ("{semver}", "0.1.9"))]


def self_pattern_case(foreign, implicit, pattern, current):
    """Directed: the config file's own current_version line is updated (listed explicitly or through the implicit
    default pattern), also when a section of another tool with a current_version line of its own precedes [bumpver]."""
    from shadows.project import plain_scenario, check_scenario

    flags = ["--patch"] if "MAJOR" in pattern or "semver" in pattern else []
    r = check_scenario(0, sc=plain_scenario(foreign_section=foreign, implicit_self_pattern=implicit, pattern=pattern, current=current, flags=flags))
    bad = {k: v for k, v in r.items() if k in ("C03", "C04", "_error")}
    if not bad and r.get("_rc") != 0:
        bad = {"C03": f"update failed (exit {r.get('_rc')}) on a consistent project"}
    return f"foreign section={foreign}, implicit self pattern={implicit}, {pattern}: {bad}" if bad else None


SAME_LINE_CASES = [
    # (pattern, current, flags, the line with two occurrences, patterns in config order)
    ("MAJOR.MINOR.PATCH", "0.1.9", ["--patch"], 'ver="\x01" pep="\x02" tail', ['ver="{version}"', 'pep="{pep440_version}"']),
    ("MAJOR.MINOR.PATCH", "0.1.9", ["--patch"], 'pep="\x02" ver="\x01" tail', ['ver="{version}"', 'pep="{pep440_version}"']),
    ("MAJOR.MINOR.PATCH", "0.9.9", ["--minor"], 'ver="\x01" pep="\x02"', ['pep="{pep440_version}"', 'ver="{version}"']),
    ("vMAJOR.MINOR.PATCH[-TAG]", "v1.2.3-rc", ["--tag", "final"], 'ver="\x01" pep="\x02" end', ['ver="{version}"', 'pep="{pep440_version}"']),
    ("YYYY.BUILD[-TAG]", "2020.9998-beta", [], 'ver="\x01" pep="\x02" end', ['ver="{version}"', 'pep="{pep440_version}"']),
    ("{semver}", "0.1.9", ["--patch"], 'ver="\x01" pep="\x02" tail', ['ver="{version}"', 'pep="{pep440_version}"']),
]


def same_line_case(i):
    """Directed: two different patterns match on one line and the new version has a different length."""
    from shadows.project import plain_scenario, check_scenario

    pattern, current, flags, line, pats = SAME_LINE_CASES[i]
    kinds = ["version" if "{version}" in p else "pep440" for p in pats]
    sc = plain_scenario(pattern=pattern, current=current, flags=flags, files={"src/mod.py": ["# module", line, "last line"]}, occ={"src/mod.py": [(1, k) for k in kinds]}, file_patterns={"src/mod.py": pats}, nfiles=1)
    r = check_scenario(0, sc=sc)
    bad = {k: v for k, v in r.items() if k in ("C03", "C04", "_error")}
    if not bad and r.get("_rc") != 0:
        bad = {"C03": f"update failed (exit {r.get('_rc')}) on a consistent project"}
    return f"{pattern} {current} {flags} line {line!r}: {bad}" if bad else None


def replay_same_line(i):
    return same_line_case(i) is None


def replay_self_pattern(foreign, implicit, pattern, current):
    return self_pattern_case(foreign, implicit, pattern, current) is None


def run(tier="quick", seed=0):
    out = [run_shadow("C03", tier, seed)]
    bad_sp = []
    for case in SELF_PATTERN_CASES:
        try:
            r = self_pattern_case(*case)
        except Exception as e:  # noqa
            r = f"exception {type(e).__name__}: {e}"
        if r is not None:
            bad_sp.append((case, r))
    bad_sl = []
    for i in range(len(SAME_LINE_CASES)):
        try:
            r = same_line_case(i)
        except Exception as e:  # noqa
            r = f"exception {type(e).__name__}: {e}"
        if r is not None:
            bad_sl.append((i, r))
    out.append(
        dict(
            name="C03.same_line.two_patterns_on_one_line_with_a_length_change_are_both_rewritten",
            kind="B",
            verdict="held" if not bad_sl else "refuted",
            cases=len(SAME_LINE_CASES),
            distinct=len(SAME_LINE_CASES),
            bound=f"{len(SAME_LINE_CASES)} directed projects: {{version}} and {{pep440_version}} on one line in both orders, new version longer / shorter than the old one, v2 and legacy patterns; real CLI, fake git",
            witness=[dict(case=i, problem=r) for i, r in bad_sl[:3]],
            observed=bad_sl[0][1] if bad_sl else None,
            sample=[list(SAME_LINE_CASES[0][:3])],
            python_replay=(dict(module="checks.c03", function="replay_same_line", args=[bad_sl[0][0]]) if bad_sl else None),
        )
    )
    out.append(
        dict(
            name="C03.self_pattern.config_files_own_current_version_line_is_updated",
            kind="B",
            verdict="held" if not bad_sp else "refuted",
            cases=len(SELF_PATTERN_CASES),
            distinct=len(SELF_PATTERN_CASES),
            bound=f"{len(SELF_PATTERN_CASES)} directed projects: explicit / implicit self pattern x with / without a foreign [bumpversion] section in front x 3 pattern families; real CLI, fake git",
            witness=[dict(case=list(c), problem=r) for c, r in bad_sp[:3]],
            observed=bad_sp[0][1] if bad_sp else None,
            sample=[list(c) for c in SELF_PATTERN_CASES[:3]],
            python_replay=(dict(module="checks.c03", function="replay_self_pattern", args=list(bad_sp[0][0])) if bad_sp else None),
        )
    )
    known = {k["witness_class"]: k for k in _known.load("C03")}
    bad, hits = [], []
    for case in SET_VERSION_CASES:
        try:
            r = set_version_case(*case)
        except Exception as e:  # noqa
            r = f"exception {type(e).__name__}: {e}"
        if r is None:
            continue
        cls = r[1 : r.index("]")] if r.startswith("[") else "other"
        (hits if cls in known else bad).append((case, r, cls))
    res = dict(
        name="C03.set_version.announced_written_and_config_text_are_the_same",
        kind="B",
        verdict="held" if not bad and not hits else "refuted",
        cases=len(SET_VERSION_CASES),
        distinct=len(SET_VERSION_CASES),
        bound=f"{len(SET_VERSION_CASES)} directed --set-version targets (canonical, leading zeros, tag changes) x 4 pattern families, real CLI in a subprocess",
        witness=[dict(case=list(c), problem=r) for c, r, _ in (bad or hits)[:3]],
        observed=(bad or hits)[0][1] if (bad or hits) else None,
        sample=[list(c) for c in SET_VERSION_CASES[:3]],
        python_replay=(dict(module="checks.c03", function="replay_set_version", args=list(bad[0][0])) if bad else None),
    )
    if hits and not bad:
        res["known_finding"] = ",".join(sorted({known[c]["id"] for _, _, c in hits}))
    out.append(res)
    return out
