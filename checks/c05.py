"""C05 bounded layer (never counted as proved): the README's bump rules on directed examples through the real
v2version.incr - the expected texts are written out by hand from the README's rules, not computed."""
import datetime as dt

from checks._src import ensure_src

D = dt.date
# (pattern, old version, keyword arguments of incr, expected new version)
CASES = [
    ("vMAJOR.MINOR.PATCH[-TAGNUM]", "v1.2.3", dict(patch=True), "v1.2.4"),
    ("vMAJOR.MINOR.PATCH[-TAGNUM]", "v1.2.3", dict(minor=True), "v1.3.0"),
    ("vMAJOR.MINOR.PATCH[-TAGNUM]", "v1.2.3", dict(major=True), "v2.0.0"),
    ("vMAJOR.MINOR.PATCH[-TAGNUM]", "v1.2.3-beta1", dict(tag_num=True), "v1.2.3-beta2"),
    ("vMAJOR.MINOR.PATCH[-TAGNUM]", "v1.2.3-beta1", dict(tag="beta", tag_num=True), "v1.2.3-beta2"),  # same tag: NUM keeps counting
    ("vMAJOR.MINOR.PATCH[-TAGNUM]", "v1.2.3-beta1", dict(tag="rc"), "v1.2.3-rc0"),  # tag changes: NUM reset
    ("vMAJOR.MINOR.PATCH[-TAGNUM]", "v1.2.3-beta1", dict(tag="final"), "v1.2.3"),
    ("vMAJOR.MINOR.PATCH[-TAGNUM]", "v1.2.3-beta1", dict(patch=True), "v1.2.4-beta0"),  # part to the left changed: NUM reset
    ("vMAJOR.MINOR.PATCH[-TAGNUM]", "v1.2.3-rc4", dict(minor=True, tag="alpha"), "v1.3.0-alpha0"),
    ("MAJOR.MINOR[.PATCH]", "1.2.3", dict(minor=True), "1.3"),
    ("YYYY.BUILD[-TAG]", "2020.1009-beta", dict(maybe_date=D(2021, 5, 5)), "2021.1010-beta"),
    ("YYYY.BUILD[-TAG]", "2020.1009-beta", dict(maybe_date=D(2021, 5, 5), pin_date=True), "2020.1010-beta"),
    ("YYYY.BUILD[-TAG]", "2020.1009-beta", dict(maybe_date=D(2019, 5, 5)), "2020.1010-beta"),  # version from the future: date ignored
    ("YYYY.BUILD[-TAG]", "2020.1999", dict(maybe_date=D(2020, 5, 5)), "2020.22000"),
    ("YYYY.BUILD[-TAG]", "2020.1998", dict(maybe_date=D(2020, 5, 5)), "2020.1999"),
    ("YYYY.MM.INC0", "2020.5.3", dict(maybe_date=D(2020, 5, 10)), "2020.5.4"),
    ("YYYY.MM.INC0", "2020.5.3", dict(maybe_date=D(2020, 6, 1)), "2020.6.0"),  # month rolled over: INC0 reset to 0
    ("YYYY.MM.INC1", "2020.5.3", dict(maybe_date=D(2020, 6, 1)), "2020.6.1"),  # INC1 reset to 1
    ("YYYY.MM.INC0", "2020.5.3", dict(maybe_date=D(2020, 6, 1), pin_increments=True), "2020.6.0"),
    ("YYYY.WW.PATCH", "2021.0.5", dict(maybe_date=D(2021, 3, 1), pin_date=True, patch=True), "2021.0.6"),  # week 0 is a value, not "missing"
    ("YYYY.0M.0D", "2020.05.03", dict(maybe_date=D(2020, 5, 3)), None),  # nothing changes: no new version
    ("vYYYY0M.BUILD[-TAG]", "v202005.1001-alpha", dict(maybe_date=D(2020, 5, 9), tag="beta"), "v202005.1002-beta"),
]


def case(pattern, old, kw, want):
    ensure_src()
    from bumpver import v2version

    got = v2version.incr(old, raw_pattern=pattern, **kw)
    if got != want:
        shown = {k: (v.isoformat() if isinstance(v, dt.date) else v) for k, v in kw.items()}
        return f"incr({old!r}, {pattern!r}, {shown}) = {got!r}, the README's rules give {want!r}"
    return None


def replay_case(i):
    return case(*CASES[i]) is None


def run(tier="quick", seed=0):
    bad = []
    for i, c in enumerate(CASES):
        try:
            r = case(*c)
        except Exception as e:  # noqa
            r = f"exception {type(e).__name__}: {e} on {c[:2]}"
        if r is not None:
            bad.append((i, r))
    return [
        dict(
            name="C05.readme_rules.directed_examples_through_the_real_incr",
            kind="B",
            verdict="held" if not bad else "refuted",
            cases=len(CASES),
            distinct=len(CASES),
            bound=f"{len(CASES)} hand-written examples of the README's rules (flags, tag/NUM, roll-over resets, INC0/INC1, pinned date, version from the future, BUILD padding)",
            witness=[dict(case=i, problem=r) for i, r in bad[:3]],
            observed=bad[0][1] if bad else None,
            sample=[[c[0], c[1], c[3]] for c in CASES[:3]],
            python_replay=(dict(module="checks.c05", function="replay_case", args=[bad[0][0]]) if bad else None),
        )
    ]
