"""C06 bounded layers (never counted as proved):
  B  the generated-project shadow (shadows/project.py);
  B  directed fault cases through the real CLI (fake git): a pattern that matches nowhere while its sibling matches
     twice, a later file without a match, a later file missing - v2 and legacy patterns, commit on and off: the
     update must fail and leave every file and the repository untouched."""
from shadows.project import run_shadow, plain_scenario, check_scenario

TWICE = dict(
    files={"src/mod.py": ["# module", '__version__ = "\x01"', "tail"], "notes.txt": ["notes", "release \x01 here", "occurrence removed", "release \x01 here (again)"]},
    occ={"src/mod.py": [(1, "quoted")], "notes.txt": [(1, "version"), (3, "version")]},
)
CASES = []
for _pattern in ("MAJOR.MINOR.PATCH", "{semver}"):
    for _commit in (True, False):
        base = dict(pattern=_pattern, commit=_commit, tag=_commit)
        CASES.append(("one pattern matches twice, its sibling nowhere", dict(base, fault="nomatch_one", fault_file="notes.txt", **TWICE)))
        CASES.append(("second file has no match", dict(base, fault="nomatch", fault_file="notes.txt")))
        CASES.append(("second file is missing", dict(base, fault="missing", fault_file="notes.txt")))
        CASES.append(("first file has no match", dict(base, fault="nomatch", fault_file="src/mod.py")))


def fault_case(i):
    name, over = CASES[i]
    r = check_scenario(0, sc=plain_scenario(**over))
    bad = {k: v for k, v in r.items() if k in ("C06", "C13") or k == "_error"}
    if not bad and r.get("_rc") == 0:
        bad = {"C06": "update exited 0 although a configured pattern has no occurrence / a configured file is missing"}
    return f"{name} ({over['pattern']}, commit={over['commit']}): {bad}" if bad else None


def replay_fault(i):
    return fault_case(i) is None


def run(tier="quick", seed=0):
    out = [run_shadow("C06", tier, seed)]
    bad = []
    for i in range(len(CASES)):
        try:
            r = fault_case(i)
        except Exception as e:  # noqa
            r = f"exception {type(e).__name__}: {e}"
        if r is not None:
            bad.append((i, r))
    out.append(
        dict(
            name="C06.directed_faults.failed_update_leaves_files_and_repository_untouched",
            kind="B",
            verdict="held" if not bad else "refuted",
            cases=len(CASES),
            distinct=len(CASES),
            bound=f"{len(CASES)} directed fault cases (sibling pattern unmatched while another matches twice; later/first file without match; later file missing) x v2/legacy pattern x commit on/off; real CLI, fake git",
            witness=[dict(case=CASES[i][0], problem=r) for i, r in bad[:3]],
            observed=bad[0][1] if bad else None,
            sample=[c[0] for c in CASES[:3]],
            python_replay=(dict(module="checks.c06", function="replay_fault", args=[bad[0][0]]) if bad else None),
        )
    )
    return out
