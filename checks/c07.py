"""C07: literal pattern text matches only itself.
  X  escape table: for every admissible character c (printable ASCII, no upper-case letter, no bare
     bracket) and every pair c d, the regex that the real _compile_pattern_re (v2 and v1) produces
     parses to exactly the literals (sre parse tree); complete for the stated alphabet.
  X  facts the homomorphism argument needs about patterns.RE_PATTERN_ESCAPES (single-character,
     distinct needles; backslash first).
  B  end to end: generated literals alone and wrapped around real parts, through compile_pattern and
     regexp.search on lines that do / do not contain the text."""
import itertools
import random
import re

from checks._src import SRC_ROOT, ensure_src
from checks import _known

try:
    import re._parser as sre_parse
except ImportError:  # pragma: no cover
    import sre_parse

CHARS = [c for c in map(chr, range(32, 127)) if not c.isupper() and c not in "[]"]


def _nodes(rx):
    return [(str(op), av) for op, av in sre_parse.parse(rx)]


def literal_ok(engine, text):
    """The compiled regex of `text` consists of the literal characters of `text` only.
    ('^' first / '$' last are the documented anchors.)"""
    ensure_src()
    from bumpver import v2patterns, v1patterns

    comp = v2patterns._compile_pattern_re if engine == "v2" else v1patterns._compile_pattern_re
    try:
        rx = comp(text).pattern
        nodes = _nodes(rx)
    except Exception as e:  # noqa
        return False, f"{type(e).__name__}: {e}"
    want = []
    for i, ch in enumerate(text):
        if (ch == "^" and i == 0) or (ch == "$" and i == len(text) - 1):
            want.append(("AT", None))
        else:
            want.append(("LITERAL", ord(ch)))
    got = [(op, av if op == "LITERAL" else None) for op, av in nodes]
    return got == want, [op for op, _ in nodes]


SPECIAL = set(getattr(sre_parse, "SPECIAL_CHARS", ".\\[{()*+?^$|")) | set(".\\[{()*+?^$|")
CONSTRUCTS = ["x{2}y", "x{2,3}y", "x{,}y", "x{2,}y", "{2}", "pad{,3}end", "(?:x)", "(?i)x", "(?P<a>x)", "(?#c)x", "x*?y", "x+?y", "x??y", "a|b", "(a|b)", "x.y", "x.*y", "a.+", "x(y)z", "(x)+", "1.2.3+b(4)", "v1.0*", "c++", "what?", "$(x)", "${y}", "a{b}c", "#x", " x ", "x\ty"]
CONSTRUCTS = [t for t in CONSTRUCTS if "\t" not in t]


def comp_image(engine, c):
    """What the compiler turns the single character c into (between two inert characters)."""
    ensure_src()
    from bumpver import v2patterns, v1patterns

    comp = v2patterns._compile_pattern_re if engine == "v2" else v1patterns._compile_pattern_re
    rx = comp("x" + c + "y").pattern
    if not (rx.startswith("x") and rx.endswith("y")):
        raise ValueError(f"x{c}y compiled to {rx!r}")
    return rx[1:-1]


def replay_literal(engine, text):
    return literal_ok(engine, text)[0]


def classify(engine, text):
    """Witness class of a failing literal (for the known-findings file)."""
    if "\\" in text and engine == "v2":
        return "backslash_v2"
    if "^" in text[1:] or "$" in text[:-1]:
        return "inner_anchor"
    if "|" in text:
        return "pipe"
    return "other"


def search_ok(engine, lit, wrap):
    """compile_pattern(lit [+ part]) finds exactly the lines that contain the text."""
    ensure_src()
    from bumpver import v2patterns, v1patterns

    if engine == "v2":
        pat = lit + ("MAJOR" if wrap else "")
        shown = lit.replace("\\[", "[").replace("\\]", "]")
        pattern = v2patterns.compile_pattern(pat)
    else:
        pat = lit + ("{MAJOR}" if wrap else "")
        shown = lit
        pattern = v1patterns.compile_pattern(pat)
    text = shown + ("7" if wrap else "")
    hit = pattern.regexp.search("xx " + text + " yy")
    if not hit or hit.group(0) != text:
        return False, f"does not find its own text {text!r}"
    # the line scanner used by grep/update (parse.iter_matches) must report that line too
    from bumpver import parse

    filler = next(c for c in "qzjkw0123456789_~#@" if c not in text and c not in "xy ") * 5  # a line that cannot contain the text
    ms = list(parse.iter_matches([filler, "xx " + text + " yy"], [pattern]))
    if [(m.lineno, m.match) for m in ms] != [(1, text)]:
        return False, f"parse.iter_matches reports {[(m.lineno, m.match) for m in ms]} for the line containing {text!r}"
    for other in [m + ("7" if wrap else "") for m in mutations(shown)]:
        if text in other:
            continue
        m = pattern.regexp.search(other)
        if m and m.group(0):
            return False, f"also matches {other!r} (as {m.group(0)!r})"
    return True, None


def mutations(text):
    out = []
    for i in range(len(text)):
        for r in ("a", "5", " ", ""):
            out.append(text[:i] + r + text[i + 1 :])
    return out


def replay_search(engine, lit, wrap):
    return search_ok(engine, lit, wrap)[0]


def run(tier="quick", seed=0):
    ensure_src()
    from bumpver import patterns

    out = []
    known = _known.load("C07")
    known_classes = {k["witness_class"]: k for k in known}
    # ---- X: escape table, single characters embedded and all pairs
    for engine in ("v2", "v1"):
        bad = []
        n = 0
        for c in CHARS:
            n += 1
            ok, why = literal_ok(engine, "x" + c + "y")
            if not ok:
                bad.append(("x" + c + "y", why))
        for c, d in itertools.product(CHARS, repeat=2):
            if c == "^" or d == "$":
                continue  # leading ^ / trailing $ are the documented anchors (checked with x..y above)
            n += 1
            ok, why = literal_ok(engine, c + d)
            if not ok:
                bad.append((c + d, why))
        # multi-character regex constructs (quantifier braces, groups, lazy quantifiers, inline flags, alternation)
        for t in CONSTRUCTS:
            if engine == "v1" and ("{" in t or "}" in t):
                continue  # braces delimit parts in legacy patterns
            n += 1
            ok, why = literal_ok(engine, t)
            if not ok:
                bad.append((t, why))
        # the all-lengths argument: the compiler is a character map (facts below), so a text compiles to literals only
        # if every character the regex parser treats as special is mapped to its escaped form
        for c in CHARS:
            if engine == "v1" and c in "{}":
                continue
            n += 1
            try:
                image = comp_image(engine, c)
            except Exception as e:  # noqa
                bad.append(("x" + c + "y", f"{type(e).__name__}: {e}"))
                continue
            if (c in SPECIAL and image != "\\" + c) or (c not in SPECIAL and image not in (c, "\\" + c)):
                bad.append(("x" + c + "y", f"character {c!r} is compiled to {image!r}"))
        new = [(t, w) for t, w in bad if classify(engine, t) not in known_classes]
        hit_known = sorted({classify(engine, t) for t, w in bad if classify(engine, t) in known_classes})
        res = dict(
            name=f"C07.escape_table.{engine}.every_literal_character_compiles_to_a_literal",
            kind="X",
            verdict="held" if not bad else "refuted",
            cases=n,
            distinct=n,
            domain=f"{len(CHARS)} admissible characters embedded as x?y, all ordered pairs and {len(CONSTRUCTS)} multi-character regex constructs ({engine} compiler): regex parse tree must be literals only; every character of re's SPECIAL_CHARS must be compiled to its escaped form (all-lengths argument with the character-map facts)",
            witness=[dict(text=t, parse=w, witness_class=classify(engine, t)) for t, w in (new or bad)[:5]],
            observed=str((new or bad)[0]) if bad else None,
            python_replay=(dict(module="checks.c07", function="replay_literal", args=[engine, (new or bad)[0][0]]) if bad else None),
        )
        if bad and not new:
            res["known_finding"] = ",".join(known_classes[c]["id"] for c in hit_known)
        out.append(res)
    # ---- X: facts of the table used by the homomorphism argument
    esc = patterns.RE_PATTERN_ESCAPES
    probs = []
    if any(len(a) != 1 for a, _ in esc):
        probs.append("needle longer than one character")
    if len({a for a, _ in esc}) != len(esc):
        probs.append("duplicate needle")
    if esc[0][0] != "\\":
        probs.append("backslash is not processed first (its replacements would be escaped again)")
    if any(b != "\\" + a for a, b in esc):
        probs.append("replacement is not backslash + character")
    out.append(dict(name="C07.escape_table.sequential_replace_is_a_character_map", kind="X", verdict="held" if not probs else "refuted", cases=len(esc), distinct=len(esc), domain="every entry of patterns.RE_PATTERN_ESCAPES", witness=probs))
    # ---- B: end to end search
    rng = random.Random(seed)
    lits = []
    maxlen = 2 if tier == "quick" else 3
    alpha = [c for c in CHARS if c not in "^$"]
    for k in range(1, maxlen + 1):
        for combo in itertools.product(alpha, repeat=k):
            lits.append("".join(combo))
    if tier == "quick":
        lits = rng.sample(lits, 1500)
    lits += ["".join(rng.choice(alpha) for _ in range(rng.randint(4, 40))) for _ in range(300 if tier == "quick" else 5000)]
    lits += ["\\[" + x + "\\]" for x in ("a", "-beta", "1.2")]
    # always: every one-character literal and literals with a blank at either end (seeded generation reaches them only by chance)
    lits += [c for c in alpha] + [" x", "x ", " rev 7 ", " v", "= "]
    lits = list(dict.fromkeys(lits))
    bad = []
    n = 0
    for lit in lits:
        for engine in ("v2", "v1"):
            if engine == "v1" and ("{" in lit or "}" in lit or "\\[" in lit):
                continue
            if engine == "v2" and any(p in lit.upper() and False for p in ()):
                continue
            for wrap in (False, True):
                n += 1
                try:
                    ok, why = search_ok(engine, lit, wrap)
                except Exception as e:  # noqa
                    ok, why = False, f"{type(e).__name__}: {e}"
                if not ok:
                    bad.append((engine, lit, wrap, why))
    new = [b for b in bad if classify(b[0], b[1]) not in known_classes]
    res = dict(
        name="C07.literal_text_finds_exactly_the_lines_containing_it",
        kind="B",
        verdict="held" if not bad else "refuted",
        cases=n,
        distinct=len(lits),
        bound=f"{len(lits)} literals (all up to length {maxlen}{' sampled' if tier == 'quick' else ''} + seeded up to length 40, seed {seed}) alone and followed by a real part, v2 and v1; each against its own text and single-character mutations",
        witness=[dict(engine=e, literal=l, wrapped=w, problem=y, witness_class=classify(e, l)) for e, l, w, y in (new or bad)[:5]],
        observed=str((new or bad)[0]) if bad else None,
        python_replay=(dict(module="checks.c07", function="replay_search", args=list((new or bad)[0][:3])) if bad else None),
    )
    if bad and not new:
        res["known_finding"] = ",".join(sorted({known_classes[classify(b[0], b[1])]["id"] for b in bad}))
    out.append(res)
    return out
