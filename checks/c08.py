"""C08: any sequence of updates keeps files, config and tags in agreement.
  P  the step contract of `update` is assembled from obligations proved elsewhere and tagged C08
     (gate C01, start version C09, rewrite C03/C06, staging + commit + tag order C10/C12) - they run
     in this check through the contracts' property tags;
  P-lemma  history induction: invariant + step contract => invariant after every step (z3);
  B  real git: seeded histories of 1..6 invocations on temporary repositories (what git *stores* is
     outside any contract on bumpver's code - bounded evidence only, never counted as proved)."""
import os
import random
import re
import shutil
import subprocess
import sys
import tempfile

import z3

from checks._src import SRC_ROOT, ensure_src
from shadows.project import ref_key


def _lemma():
    """consistent(S0, v0) and, for every step i: success_i => consistent(S_{i+1}, v_{i+1}) and key(v_{i+1}) > key(v_i);
    failure_i => S_{i+1} = S_i and v_{i+1} = v_i.  Then consistent(S_n, v_n) for every n and versions never decrease.
    Encoded as the inductive step (one query), with uninterpreted state/versions."""
    S = z3.DeclareSort("ProjectState")
    Ver = z3.StringSort()
    consistent = z3.Function("consistent", S, Ver, z3.BoolSort())
    key_lt = z3.Function("key_lt", Ver, Ver, z3.BoolSort())
    s, s2 = z3.Consts("s s2", S)
    v, v2, v0 = z3.Strings("v v2 v0")
    ok = z3.Bool("step_succeeds")
    step = z3.And(z3.Implies(ok, z3.And(consistent(s2, v2), key_lt(v, v2))), z3.Implies(z3.Not(ok), z3.And(s2 == s, v2 == v)))
    trans = z3.ForAll([v, v2, v0], z3.Implies(z3.And(key_lt(v0, v), key_lt(v, v2)), key_lt(v0, v2)))
    inv = lambda st, ver: z3.And(consistent(st, ver), z3.Or(ver == v0, key_lt(v0, ver)))
    goal = z3.Implies(z3.And(trans, inv(s, v), step), inv(s2, v2))
    sol = z3.Solver()
    sol.add(z3.Not(goal))
    r = sol.check()
    return dict(name="C08.history.invariant_preserved_by_every_step_contract", kind="P", verdict="held" if r == z3.unsat else ("refuted" if r == z3.sat else "error"), cases=1, distinct=1, detail=str(r))


def _git(d, *args, check=True):
    env = dict(os.environ, GIT_AUTHOR_NAME="t", GIT_AUTHOR_EMAIL="t@example.invalid", GIT_COMMITTER_NAME="t", GIT_COMMITTER_EMAIL="t@example.invalid", GIT_CONFIG_GLOBAL="/dev/null", GIT_CONFIG_SYSTEM="/dev/null")
    p = subprocess.run(["git"] + list(args), cwd=d, env=env, capture_output=True, text=True)
    if check and p.returncode != 0:
        raise RuntimeError(f"git {args}: {p.stderr}")
    return p.stdout


def _bumpver(d, *args):
    env = dict(os.environ, PYTHONPATH=SRC_ROOT, GIT_AUTHOR_NAME="t", GIT_AUTHOR_EMAIL="t@example.invalid", GIT_COMMITTER_NAME="t", GIT_COMMITTER_EMAIL="t@example.invalid", GIT_CONFIG_GLOBAL="/dev/null", GIT_CONFIG_SYSTEM="/dev/null")
    p = subprocess.run([sys.executable, "-m", "bumpver"] + list(args), cwd=d, env=env, capture_output=True, text=True)
    return p.returncode, p.stdout, p.stderr


def _render(template, ver):
    """Expected text of an occurrence line: the version and its PEP 440 normal form (reference: packaging)."""
    import packaging.version as pv

    return template.replace("{version}", ver).replace("{pep440_version}", str(pv.Version(ver)))


def _both_ok(template, text, ver):
    """first / <template with the version and a PEP 440 spelling of the same version> / last."""
    import packaging.version as pv

    pre, post = template.split("{pep440_version}")
    rx = re.escape("first\n" + pre.replace("{version}", ver)) + r"([^\"]*)" + re.escape(post + "\nlast\n")
    m = re.fullmatch(rx, text)
    if not m:
        return False
    try:
        return pv.Version(m.group(1)) == pv.Version(ver) and not m.group(1).startswith("v")
    except pv.InvalidVersion:
        return False


def history_case(seed):
    rng = random.Random(seed)
    d = tempfile.mkdtemp(prefix="c08_")
    try:
        pattern = rng.choice(["MAJOR.MINOR.PATCH", "vMAJOR.MINOR.PATCH[-TAG]", "YYYY.BUILD[-TAG]"])
        cur = {"MAJOR.MINOR.PATCH": "1.9.9", "vMAJOR.MINOR.PATCH[-TAG]": "v0.9.10-beta", "YYYY.BUILD[-TAG]": "2020.1009-beta"}[pattern]
        tagging = rng.random() < 0.7
        files = {"src/mod.py": '__version__ = "{version}"', "README.md": "release {version} of the thing", "notes.txt": "{version}"}
        # one line with two occurrences found by two different patterns (the version and its PEP 440 form)
        both = ("both.cfg", ['ver="{version}"', 'pep="{pep440_version}"'], 'ver="{version}" # pep="{pep440_version}" # trailing text')
        cfg = f'[bumpver]\ncurrent_version = "{cur}"\nversion_pattern = "{pattern}"\ncommit = true\ntag = {"true" if tagging else "false"}\npush = false\n\n[bumpver.file_patterns]\n"bumpver.toml" = [\'current_version = "{{version}}"\']\n'
        for fn, pat in files.items():
            os.makedirs(os.path.dirname(os.path.join(d, fn)) or d, exist_ok=True)
            open(os.path.join(d, fn), "w").write("line one\n" + pat.replace("{version}", cur) + "\nline three\n")
            cfg += f'"{fn}" = [\'{pat}\']\n'
        cfg += f'"{both[0]}" = [\'{both[1][0]}\', \'{both[1][1]}\']\n'
        open(os.path.join(d, both[0]), "w").write("first\n" + _render(both[2], cur) + "\nlast\n")
        open(os.path.join(d, "bumpver.toml"), "w").write(cfg)
        open(os.path.join(d, "other.txt"), "w").write("unrelated\n")
        _git(d, "init", "-q", ".")
        _git(d, "add", "-A")
        _git(d, "commit", "-q", "-m", "init")
        configured = sorted(list(files) + ["bumpver.toml", both[0]])
        prev = cur
        # directed family (a third of the histories): the config runs ahead of the tags across a 9 -> 10 carry
        # (untagged --minor from x.9.y), so that version order and string order of tag and config disagree
        directed = tagging and "MAJOR" in pattern and rng.random() < 0.5
        nsteps = rng.randint(3, 6) if directed else rng.randint(1, 6)
        for step in range(nsteps):
            kind = rng.choice(["update", "update", "update", "fail", "unrelated", "notag", "dirty"])
            if directed and step in (0, 2):
                kind = "update"  # a tag at x.9.z first; after the untagged carry a plain update
            if directed and step == 1:
                kind = "notag"
            head_before = _git(d, "rev-parse", "HEAD").strip()
            if kind == "unrelated":
                open(os.path.join(d, "other.txt"), "a").write(f"more {step}\n")
                _git(d, "add", "-A")
                _git(d, "commit", "-q", "-m", f"unrelated {step}")
                continue
            flags = ["--patch"] if "MAJOR" in pattern else []
            if "MAJOR" in pattern and rng.random() < 0.3:
                flags = [rng.choice(["--minor", "--major"])]
            if directed and step == 0:
                flags = ["--patch"]
            if directed and step == 1:
                flags = ["--minor"]
            if "TAG" in pattern and kind != "fail" and rng.random() < 0.5:
                flags = flags + ["--tag", rng.choice(["rc", "final", "beta", "post"])]
            if kind == "fail":
                flags = ["--set-version", "0.0.1" if "MAJOR" in pattern and not pattern.startswith("v") else "v0.0.1" if pattern.startswith("v") else "2001.1001"]
            if kind == "notag":
                flags = flags + ["--no-tag-commit"]
            if kind == "dirty":
                # an unrelated tracked file has unstaged edits and the user allows that: it must stay out of the bump commit
                open(os.path.join(d, "other.txt"), "a").write(f"local edit {step}\n")
                flags = flags + ["--allow-dirty"]
            rc, out, err = _bumpver(d, "update", "--no-fetch", *flags)
            head_after = _git(d, "rev-parse", "HEAD").strip()
            if kind == "fail":
                if rc == 0 or head_after != head_before or _git(d, "status", "--porcelain").strip():
                    return f"step {step}: rejected --set-version changed the project (exit {rc})"
                continue
            if rc != 0:
                return f"step {step} ({kind} {flags}): update failed from a consistent project: {err[-300:]}"
            m = re.search(r"New Version: (\S+)", err + out)
            new = m.group(1)
            if not (ref_key(new) > ref_key(prev)):
                return f"step {step}: {new!r} is not greater than {prev!r}"
            # config, every occurrence and `show` agree
            for fn, pat in files.items():
                text = open(os.path.join(d, fn)).read()
                if text != "line one\n" + pat.replace("{version}", new) + "\nline three\n":
                    return f"step {step}: {fn} does not show {new!r}: {text!r}"
            text = open(os.path.join(d, both[0])).read()
            if not _both_ok(both[2], text, new):
                return f"step {step}: {both[0]} (two occurrences on one line) does not show {new!r}: {text!r}"
            if f'current_version = "{new}"' not in open(os.path.join(d, "bumpver.toml")).read():
                return f"step {step}: config current_version is not {new!r}"
            rc2, out2, err2 = _bumpver(d, "show", "--no-fetch")
            if f"Current Version: {new}" not in out2:
                return f"step {step}: show reports {out2!r}, expected {new!r}"
            # exactly one commit on top, containing only the configured files
            parents = _git(d, "rev-list", "--parents", "-n", "1", "HEAD").split()
            if parents[1:] != [head_before]:
                return f"step {step}: not exactly one new commit"
            changed = sorted(x for x in _git(d, "show", "--name-only", "--format=", "HEAD").split("\n") if x)
            if changed != configured:
                return f"step {step}: commit contains {changed}, expected {configured}"
            left = _git(d, "status", "--porcelain").rstrip("\n")
            if kind == "dirty":
                if left != " M other.txt":
                    return f"step {step}: after update --allow-dirty the unrelated local edit is no longer an unstaged change (git status: {left!r})"
                _git(d, "checkout", "--", "other.txt")
            elif left.strip():
                return f"step {step}: working tree not clean after update"
            tags_here = _git(d, "tag", "--points-at", "HEAD").split()
            if tagging and kind != "notag":
                if tags_here != [new]:
                    return f"step {step}: tags on the new commit {tags_here}, expected [{new!r}]"
                alltags = _git(d, "tag", "--list").split()
                if max(alltags, key=ref_key) != new:
                    return f"step {step}: newest tag is not {new!r}"
            elif tags_here:
                return f"step {step}: unexpected tag {tags_here}"
            prev = new
        return None
    except Exception as e:  # noqa
        return f"exception {type(e).__name__}: {e}"
    finally:
        shutil.rmtree(d, ignore_errors=True)


def replay_history(seed):
    return history_case(seed) is None


def run(tier="quick", seed=0):
    import multiprocessing as mp

    ensure_src()
    out = [_lemma()]
    n = 48 if tier == "quick" else 1500
    seeds = [seed * 104729 + i for i in range(n)]
    with mp.get_context("fork").Pool(16) as pool:
        res = pool.map(history_case, seeds, chunksize=2)
    bad = [(s, r) for s, r in zip(seeds, res) if r is not None]
    out.append(
        dict(
            name="C08.real_git_histories.files_config_show_and_tags_agree_after_every_update",
            kind="B",
            verdict="held" if not bad else "refuted",
            cases=n,
            distinct=n,
            bound=f"{n} seeded histories of 1..6 invocations (updates with flags, rejected --set-version, --no-tag-commit, unrelated commits) on temporary real git repositories, 3 patterns",
            witness=[dict(seed=s, problem=r) for s, r in bad[:3]],
            observed=bad[0][1] if bad else None,
            python_replay=(dict(module="checks.c08", function="replay_history", args=[bad[0][0]]) if bad else None),
        )
    )
    return out
