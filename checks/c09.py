"""C09 B layers (bounded, never counted as proved):
  1. the generated-project shadow (real CLI, fake git);
  2. in-process: the real _update_cfg_from_vcs / get_latest_vcs_version_tag / _is_valid_version with
     vcs.get_tags stubbed by seeded tag sets, against an independent oracle (packaging.version)."""
import random
import re

from checks._src import SRC_ROOT, ensure_src
from shadows.project import run_shadow, ref_key

RX = re.compile(r"(\d+)\.(\d+)\.(\d+)")


def gen_case(rng):
    def ver():
        return f"{rng.choice([0, 1, 2, 9, 10])}.{rng.choice([0, 1, 9, 10, 11, 99, 100])}.{rng.choice([0, 1, 9, 10])}"

    tags_all = [ver() for _ in range(rng.randint(0, 8))] + rng.sample(["junk", "v1.2", "1.2", "2023.02.30", "1.2.3.4", "1.02.3", " 1.2.3", "1.2.3-rc"], rng.randint(0, 4))
    rng.shuffle(tags_all)
    tags_branch = [t for t in tags_all if rng.random() < 0.6]
    return dict(current=ver(), scope=rng.choice(["default", "global", "branch"]), tags_all=tags_all, tags_branch=tags_branch)


def scope_case(cfg_scope, cli_scope):
    """Directed: config tag_scope and --tag-scope (dis)agree; the newest tag is 0.2.0 on another branch, 0.1.9 on this one."""
    from shadows.project import plain_scenario, check_scenario

    # fake git: `tag --list` prints all of sc.tags, `tag --list --merged` all but the last two
    sc = plain_scenario(scope=cfg_scope, cli_scope=cli_scope, tags=["0.1.9", "junk", "0.2.0", "0.1.10"], current="0.1.9")
    r = check_scenario(0, sc=sc)
    bad = {k: v for k, v in r.items() if k in ("C09", "C01") or k == "_error"}
    return f"config tag_scope={cfg_scope}, --tag-scope {cli_scope}: {bad}" if bad else None


def replay_scope_case(cfg_scope, cli_scope):
    return scope_case(cfg_scope, cli_scope) is None


def check_case(case):
    ensure_src()
    import logging

    logging.disable(logging.CRITICAL)
    from bumpver import cli, config, vcs, version

    cfg = config.Config(
        current_version=case["current"], version_pattern="MAJOR.MINOR.PATCH", pep440_version=version.to_pep440(case["current"]), commit_message="", tag_message="",
        tag_scope=config.TagScope(case["scope"]), pre_commit_hook="", post_commit_hook="", commit=True, tag=True, push=False, is_new_pattern=True, file_patterns={},
    )
    saved = vcs.get_tags

    def fake(fetch, scope):
        return list(case["tags_branch"] if scope == config.TagScope.BRANCH else case["tags_all"])

    vcs.get_tags = fake
    try:
        try:
            res = cli._update_cfg_from_vcs(cfg, fetch=False)
        except Exception as e:  # noqa
            return f"_update_cfg_from_vcs raised {type(e).__name__}: {e}"
        listing = case["tags_branch"] if case["scope"] == "branch" else case["tags_all"]
        valid = [t for t in listing if RX.fullmatch(t)]
        if not valid:
            want = case["current"]
        else:
            best = max(valid, key=ref_key)
            if case["scope"] == "default":
                want = best if ref_key(best) > ref_key(case["current"]) else case["current"]
            else:
                want = best
        if ref_key(res.current_version) != ref_key(want) or (res.current_version not in valid and res.current_version != case["current"]):
            return f"start version {res.current_version!r}, expected {want!r}"
        # uniqueness gate: a new version equal to an existing tag is rejected when unique=True
        for t in [x for x in case["tags_all"] if RX.fullmatch(x)][:2]:
            if cli._is_valid_version("MAJOR.MINOR.PATCH", "0.0.0", t, unique=True):
                return f"_is_valid_version accepts {t!r} although it is an existing tag"
        return None
    finally:
        vcs.get_tags = saved


def replay_case(case):
    return check_case(case) is None


def run(tier="quick", seed=0):
    out = [run_shadow("C09", tier, seed)]
    rng = random.Random(seed)
    n = 3000 if tier == "quick" else 200000
    bad = None
    for _ in range(n):
        case = gen_case(rng)
        r = check_case(case)
        if r is not None:
            bad = (case, r)
            break
    out.append(
        dict(
            name="C09.start_version_and_uniqueness_against_independent_oracle",
            kind="B",
            verdict="held" if bad is None else "refuted",
            cases=n,
            distinct=n,
            bound=f"{n} seeded tag sets (0..12 tags: versions with differing digit counts, PEP 440-equal spellings, junk, calendar-impossible dates) x scope x config version; oracle = max over fully matching tags by packaging.version",
            witness=[dict(case=bad[0], problem=bad[1])] if bad else [],
            observed=bad[1] if bad else None,
            python_replay=(dict(module="checks.c09", function="replay_case", args=[bad[0]]) if bad else None),
        )
    )
    pairs = [(c, k) for c in ("default", "global", "branch") for k in (None, "default", "global", "branch")]
    bad2 = []
    for c, k in pairs:
        try:
            r = scope_case(c, k)
        except Exception as e:  # noqa
            r = f"exception {type(e).__name__}: {e}"
        if r is not None:
            bad2.append(((c, k), r))
    out.append(
        dict(
            name="C09.tag_scope.command_line_scope_overrides_config_scope_before_tags_are_consulted",
            kind="B",
            verdict="held" if not bad2 else "refuted",
            cases=len(pairs),
            distinct=len(pairs),
            bound=f"{len(pairs)} directed projects: config tag_scope x --tag-scope (absent or given), newest tag on another branch; real CLI, fake git",
            witness=[dict(case=list(c), problem=r) for c, r in bad2[:3]],
            observed=bad2[0][1] if bad2 else None,
            sample=[list(p) for p in pairs[:3]],
            python_replay=(dict(module="checks.c09", function="replay_scope_case", args=list(bad2[0][0])) if bad2 else None),
        )
    )
    return out
