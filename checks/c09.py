"""C09 B layer: the generated-project shadow (shadows/project.py) - bounded, never counted as proved."""
from shadows.project import run_shadow


def run(tier="quick", seed=0):
    return [run_shadow("C09", tier, seed)]
