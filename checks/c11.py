"""C11: the dirty-tree guard, with status text produced by a real git.
  P  VCSAPI.status (porcelain columns, every XY pair), assert_not_dirty and the order of the guard before
     any write: contracts/vcs.py, contracts/cli.py;
  B  the property's own matrix on temporary real git repositories, through the real CLI:
     {clean, modified-unstaged, modified-staged, both, added, deleted, renamed, untracked} x
     {pattern file, unrelated file} x --allow-dirty on/off x the spellings a config may use for the
     pattern file (plain, ./prefixed, glob, ./glob, doubled slash) - what git prints for a path and what
     the config loader makes of a spelling are outside any contract on bumpver's code (bounded)."""
import itertools
import os
import shutil
import tempfile

from checks._src import ensure_src
from checks.c08 import _git, _bumpver

STATES = ["clean", "modified_unstaged", "modified_staged", "both", "added", "deleted", "renamed", "untracked"]
SPELLINGS = {"plain": "src/ver.txt", "dot": "./src/ver.txt", "glob": "src/*.txt", "dotglob": "./src/*.txt", "dslash": "src//ver.txt"}


def _put(d, rel, text):
    os.makedirs(os.path.dirname(os.path.join(d, rel)), exist_ok=True)
    with open(os.path.join(d, rel), "w") as fh:
        fh.write(text)


def _apply_state(d, rel, state, content):
    """Bring the file `rel` (committed with `content`) into the given git state. Returns the path that now holds the content."""
    if state == "clean":
        return rel
    if state == "modified_unstaged":
        _put(d, rel, content + "edited by the user\n")
    elif state == "modified_staged":
        _put(d, rel, content + "edited by the user\n")
        _git(d, "add", rel)
    elif state == "both":
        _put(d, rel, content + "staged edit\n")
        _git(d, "add", rel)
        _put(d, rel, content + "staged edit\nunstaged edit\n")
    elif state == "deleted":
        os.remove(os.path.join(d, rel))
    elif state == "renamed":
        new = rel.replace(".txt", "_moved.txt")
        _git(d, "mv", rel, new)
        return new
    return rel


def case(spelling, who, state, allow_dirty):
    """One cell of the matrix. Returns None or a description of the disagreement with the statement."""
    ensure_src()
    d = tempfile.mkdtemp(prefix="c11_")
    try:
        pat_rel, other_rel = "src/ver.txt", "docs/other.txt"
        pat_text = "line one\nversion = 1.2.3\nline three\n"
        other_text = "nothing to see\n"
        cfg = (
            '[bumpver]\ncurrent_version = "1.2.3"\nversion_pattern = "MAJOR.MINOR.PATCH"\ncommit = true\ntag = false\npush = false\n\n'
            '[bumpver.file_patterns]\n"bumpver.toml" = [\'current_version = "{version}"\']\n' + f'"{SPELLINGS[spelling]}" = [\'version = {{version}}\']\n'
        )
        _put(d, "bumpver.toml", cfg)
        _git(d, "init", "-q", ".")
        target, text = (pat_rel, pat_text) if who == "pattern" else (other_rel, other_text)
        late = state in ("added", "untracked")  # the file does not exist in HEAD
        _put(d, pat_rel, pat_text)
        _put(d, other_rel, other_text)
        _put(d, "keep.md", "k\n")
        if late:
            os.remove(os.path.join(d, target))
        _git(d, "add", "-A")
        _git(d, "commit", "-q", "-m", "init")
        if late:
            _put(d, target, text)
            if state == "added":
                _git(d, "add", target)
        else:
            _apply_state(d, target, state, text)
        head0 = _git(d, "rev-parse", "HEAD").strip()
        porcelain = _git(d, "status", "--porcelain")
        before = {}
        for root, _, fns in os.walk(d):
            if ".git" in root.split(os.sep):
                continue
            for fn in fns:
                p = os.path.join(root, fn)
                before[os.path.relpath(p, d)] = open(p).read()
        rc, out, err = _bumpver(d, "update", "--patch", "--no-fetch", *(["--allow-dirty"] if allow_dirty else []))
        head1 = _git(d, "rev-parse", "HEAD").strip()
        after = {}
        for root, _, fns in os.walk(d):
            if ".git" in root.split(os.sep):
                continue
            for fn in fns:
                p = os.path.join(root, fn)
                after[os.path.relpath(p, d)] = open(p).read()
        dirty = state != "clean"
        if who == "pattern":
            must_abort = dirty
        else:
            must_abort = dirty and state != "untracked" and not allow_dirty
        ctx = f"[{spelling} spelling {SPELLINGS[spelling]!r}; {who} file {state}; allow_dirty={allow_dirty}; git status --porcelain: {porcelain!r}]"
        if must_abort:
            if rc == 0:
                return f"update exited 0 although the {who} file is {state} {ctx}"
            if head1 != head0:
                return f"aborted update created a commit {ctx}"
            if after != before:
                changed = sorted(k for k in set(before) | set(after) if before.get(k) != after.get(k))
                return f"aborted update (exit {rc}) modified {changed} {ctx}"
        else:
            if rc != 0:
                return f"update was blocked (exit {rc}: {err.strip().splitlines()[-1] if err.strip() else ''}) although nothing that the statement names is dirty {ctx}"
            if head1 == head0:
                return f"update exited 0 without a commit {ctx}"
        return None
    except Exception as e:  # noqa
        return f"exception {type(e).__name__}: {e}"
    finally:
        shutil.rmtree(d, ignore_errors=True)


def combo_case(pat_state, other_state, other_rel, allow_dirty):
    """Two dirty files at once: the pattern file and an unrelated file whose name sorts before / after it.
    Aborts are required whenever the pattern file is dirty, and whenever a tracked unrelated change is not allowed."""
    ensure_src()
    d = tempfile.mkdtemp(prefix="c11c_")
    try:
        pat_rel = "src/ver.txt"
        pat_text = "line one\nversion = 1.2.3\nline three\n"
        other_text = "nothing to see\n"
        cfg = (
            '[bumpver]\ncurrent_version = "1.2.3"\nversion_pattern = "MAJOR.MINOR.PATCH"\ncommit = true\ntag = false\npush = false\n\n'
            '[bumpver.file_patterns]\n"bumpver.toml" = [\'current_version = "{version}"\']\n"src/ver.txt" = [\'version = {version}\']\n'
        )
        _put(d, "bumpver.toml", cfg)
        _git(d, "init", "-q", ".")
        _put(d, "keep.md", "k\n")
        _put(d, "src/keep.py", "k\n")
        for rel, text, state in ((pat_rel, pat_text, pat_state), (other_rel, other_text, other_state)):
            if state not in ("added", "untracked"):
                _put(d, rel, text)
        _git(d, "add", "-A")
        _git(d, "commit", "-q", "-m", "init")
        for rel, text, state in ((pat_rel, pat_text, pat_state), (other_rel, other_text, other_state)):
            if state in ("added", "untracked"):
                _put(d, rel, text)
                if state == "added":
                    _git(d, "add", rel)
            else:
                _apply_state(d, rel, state, text)
        head0 = _git(d, "rev-parse", "HEAD").strip()
        porcelain = _git(d, "status", "--porcelain")
        pat_before = open(os.path.join(d, pat_rel)).read() if os.path.exists(os.path.join(d, pat_rel)) else None
        rc, out, err = _bumpver(d, "update", "--patch", "--no-fetch", *(["--allow-dirty"] if allow_dirty else []))
        head1 = _git(d, "rev-parse", "HEAD").strip()
        pat_after = open(os.path.join(d, pat_rel)).read() if os.path.exists(os.path.join(d, pat_rel)) else None
        must_abort = pat_state != "clean" or (other_state not in ("clean", "untracked") and not allow_dirty)
        ctx = f"[pattern file {pat_state}, {other_rel} {other_state}, allow_dirty={allow_dirty}; git status --porcelain: {porcelain!r}]"
        if must_abort and (rc == 0 or head1 != head0 or pat_after != pat_before):
            return f"update went ahead (exit {rc}, commit created: {head1 != head0}, pattern file rewritten: {pat_after != pat_before}) {ctx}"
        if not must_abort and rc != 0:
            return f"update was blocked (exit {rc}) although nothing that the statement names is dirty {ctx}"
        return None
    except Exception as e:  # noqa
        return f"exception {type(e).__name__}: {e}"
    finally:
        shutil.rmtree(d, ignore_errors=True)


def replay_combo(pat_state, other_state, other_rel, allow_dirty):
    return combo_case(pat_state, other_state, other_rel, allow_dirty) is None


def replay_case(spelling, who, state, allow_dirty):
    return case(spelling, who, state, allow_dirty) is None


def run(tier="quick", seed=0):
    import multiprocessing as mp

    ensure_src()
    cells = []
    for spelling, who, state, allow in itertools.product(SPELLINGS, ("pattern", "unrelated"), STATES, (False, True)):
        if who == "unrelated" and spelling not in ("plain", "dot") and tier == "quick":
            continue  # the spelling only concerns the pattern file; thorough runs the full product
        if state == "clean" and who == "unrelated":
            continue  # same cell as (pattern, clean)
        cells.append((spelling, who, state, allow))
    with mp.get_context("fork").Pool(16) as pool:
        res = pool.starmap(case, cells, chunksize=2)
    bad = [(c, r) for c, r in zip(cells, res) if r is not None]
    combos = [(ps, os_, rel, allow) for ps in ("modified_unstaged", "modified_staged", "untracked", "added") for os_ in ("modified_unstaged", "untracked", "added") for rel in ("docs/other.txt", "zz/later.txt") for allow in (False, True)]
    with mp.get_context("fork").Pool(16) as pool:
        res2 = pool.starmap(combo_case, combos, chunksize=2)
    bad2 = [(c, r) for c, r in zip(combos, res2) if r is not None]
    extra = dict(
        name="C11.real_git_matrix.two_dirty_files_at_once_pattern_file_never_swept_in",
        kind="B",
        verdict="held" if not bad2 else "refuted",
        cases=len(combos),
        distinct=len(combos),
        bound=f"{len(combos)} cells: pattern file in 4 dirty states x an unrelated file in 3 dirty states whose path sorts before / after it x --allow-dirty on/off, real git",
        witness=[dict(cell=list(c), problem=r) for c, r in bad2[:4]],
        observed=bad2[0][1] if bad2 else None,
        sample=[list(c) for c in combos[:3]],
        python_replay=(dict(module="checks.c11", function="replay_combo", args=list(bad2[0][0])) if bad2 else None),
    )
    return [
        extra,
        dict(
            name="C11.real_git_matrix.guard_blocks_exactly_what_the_statement_names",
            kind="B",
            verdict="held" if not bad else "refuted",
            cases=len(cells),
            distinct=len(cells),
            bound=f"{len(cells)} cells: {len(STATES)} git states x (pattern | unrelated file) x --allow-dirty on/off x {len(SPELLINGS)} config spellings of the pattern file, real git status text, real CLI in a subprocess",
            witness=[dict(cell=list(c), problem=r) for c, r in bad[:4]],
            observed=bad[0][1] if bad else None,
            sample=[list(c) for c in cells[:4]],
            python_replay=(dict(module="checks.c11", function="replay_case", args=list(bad[0][0])) if bad else None),
        )
    ]
