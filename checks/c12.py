"""C12 X/B layers: the OLD/NEW shorthand substitution and the command tables."""
import itertools
import os
import re
import sys

from checks._src import SRC_ROOT, ensure_src  # noqa: E402

TOKENS = ["OLD", "NEW", "OLDER", "RENEW", "_OLD", "NEW_", "a", " ", "-", ".", "{", "}", "1", "'", "\n"]


def ref_sub(message):
    """Reference: every maximal run of word characters that is exactly OLD or NEW is wrapped."""
    out, i, n = [], 0, len(message)
    while i < n:
        ch = message[i]
        if ch.isalnum() or ch == "_":
            j = i
            while j < n and (message[j].isalnum() or message[j] == "_"):
                j += 1
            w = message[i:j]
            out.append("{" + w + "_VERSION}" if w in ("OLD", "NEW") else w)
            i = j
        else:
            out.append(ch)
            i += 1
    return "".join(out)


def replay_sub(message):
    from bumpver import cli

    return cli._sub_msg_template(message) == ref_sub(message)


def run(tier="quick", seed=0):
    from bumpver import cli, vcs

    out = []
    maxlen = 3 if tier == "quick" else 4
    bad, n = None, 0
    for k in range(0, maxlen + 1):
        for combo in itertools.product(TOKENS, repeat=k):
            m = "".join(combo)
            n += 1
            if cli._sub_msg_template(m) != ref_sub(m):
                bad = m
                break
        if bad is not None:
            break
    out.append(
        dict(
            name="C12._sub_msg_template.whole_words_OLD_NEW_only",
            kind="X",
            verdict="held" if bad is None else "refuted",
            cases=n,
            distinct=n,
            domain=f"every concatenation of up to {maxlen} tokens from {TOKENS!r}, against an independent scanner",
            witness=bad,
            python_replay=(dict(module="checks.c12", function="replay_sub", args=[bad]) if bad is not None else None),
        )
    )
    # command tables: every placeholder of every template is one of the documented values
    badt = []
    cnt = 0
    for name, table in vcs.VCS_SUBCOMMANDS_BY_NAME.items():
        for cmd, tmpl in table.items():
            cnt += 1
            fields = set(re.findall(r"(?<!\{)\{([a-z_]+)\}(?!\})", tmpl))
            if not fields <= {"path", "message", "tag", "remote"}:
                badt.append((name, cmd, tmpl))
    # commands the code requests exist for both VCS (ls_branches only under name == 'git': proved in get_remote)
    requested = {"is_usable", "fetch", "ls_tags", "ls_tags_branch", "status", "add_path", "commit", "tag", "tag_light", "push_tag", "push", "show_remotes"}
    for name, table in vcs.VCS_SUBCOMMANDS_BY_NAME.items():
        missing = requested - set(table)
        if missing:
            badt.append((name, "missing", sorted(missing)))
    out.append(
        dict(
            name="C12+C10.command_tables.placeholders_documented_and_every_requested_command_present",
            kind="X",
            verdict="held" if not badt else "refuted",
            cases=cnt,
            distinct=cnt,
            domain="every template of VCS_SUBCOMMANDS_BY_NAME (git and hg)",
            witness=badt[:3],
        )
    )
    from shadows.project import run_shadow

    out.append(run_shadow("C12", tier, seed))
    # directed message cases through the real CLI (fake git records argv): command-line and configured templates
    bad_d = []
    for case in MESSAGE_CASES:
        try:
            r = message_case(*case)
        except Exception as e:  # noqa
            r = f"exception {type(e).__name__}: {e}"
        if r is not None:
            bad_d.append((case, r))
    out.append(
        dict(
            name="C12.directed_messages.commit_and_tag_argv_carry_the_rendered_templates_verbatim",
            kind="B",
            verdict="held" if not bad_d else "refuted",
            cases=len(MESSAGE_CASES),
            distinct=len(MESSAGE_CASES),
            bound=f"{len(MESSAGE_CASES)} directed projects: --commit-message / --tag-message absent, empty, with placeholders, with the OLD/NEW shorthand, with quotes; configured templates with the words OLD/NEW; real CLI, fake git",
            witness=[dict(case=list(c), problem=r) for c, r in bad_d[:3]],
            observed=bad_d[0][1] if bad_d else None,
            sample=[list(c) for c in MESSAGE_CASES[:3]],
            python_replay=(dict(module="checks.c12", function="replay_message", args=list(bad_d[0][0])) if bad_d else None),
        )
    )
    return out


# (--commit-message, --tag-message, configured commit_message)
MESSAGE_CASES = [
    (None, None, "bump version {old_version} -> {new_version}"),
    (None, "", "bump version {old_version} -> {new_version}"),
    (None, "release {new_version}", "bump version {old_version} -> {new_version}"),
    (None, "NEW after OLD", "bump version {old_version} -> {new_version}"),
    (None, " ", "bump version {old_version} -> {new_version}"),
    ("it's a bump to {new_version}", None, "bump version {old_version} -> {new_version}"),
    ('say "hi" OLD -> NEW', "it's NEW", "bump version {old_version} -> {new_version}"),
    (None, None, "Brand NEW release {new_version}, OLD one was {old_version}"),
    ("NEWS for OLDER folks: NEW", None, "Brand NEW release {new_version}"),
    ("line one\nline two {new_version}", "multi\nline", "bump version {old_version} -> {new_version}"),
]


def message_case(commit_message, tag_message, cfg_commit_message):
    from shadows.project import plain_scenario, check_scenario

    r = check_scenario(0, sc=plain_scenario(commit_message=commit_message, tag_message=tag_message, cfg_commit_message=cfg_commit_message))
    bad = {k: v for k, v in r.items() if k in ("C12", "C10", "_error")}
    if not bad and r.get("_rc") != 0:
        bad = {"C12": f"update failed (exit {r.get('_rc')})"}
    return f"--commit-message {commit_message!r}, --tag-message {tag_message!r}, configured {cfg_commit_message!r}: {bad}" if bad else None


def replay_message(commit_message, tag_message, cfg_commit_message):
    return message_case(commit_message, tag_message, cfg_commit_message) is None
