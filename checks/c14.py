"""C14 X layer: calendar versions never run backwards (complete enumeration)."""
import datetime as dt
import itertools
import multiprocessing as mp
import os
import sys
import time

from . import calendar_x as CX

CAL_RANGES = {
    "year_y": (1, 9999),
    "year_g": (0, 9999),  # ISO year of 0001-01-01 is 0001; early-January days may belong to the previous ISO year
    "quarter": (1, 4),
    "month": (1, 12),
    "dom": (1, 31),
    "doy": (1, 366),
    "week_w": (0, 53),
    "week_u": (0, 53),
    "week_v": (1, 53),
}

YEAR_PARTS = ["YYYY", "YY", "0Y"]
SUB_PARTS = ["MM", "0M", "MM.DD", "0M.0D", "MM.0D", "0M.DD", "JJJ", "00J", "Q", "WW", "0W", "UU", "0U"]
ISO_YEAR_PARTS = ["GGGG", "GG", "0G"]
ISO_SUB_PARTS = ["VV", "0V"]
SEPS = [".", "."]


def coherent_patterns():
    pats = []
    for y in YEAR_PARTS:
        for s in SUB_PARTS:
            pats.append(f"{y}.{s}")
    for y in ISO_YEAR_PARTS:
        for s in ISO_SUB_PARTS:
            pats.append(f"{y}.{s}")
    return pats


def rejected_patterns():
    pats = []
    for y in YEAR_PARTS:
        for s in ISO_SUB_PARTS:
            pats.append(f"{y}.{s}")
    for y in ISO_YEAR_PARTS:
        for s in ["WW", "0W", "UU", "0U"]:
            pats.append(f"{y}.{s}")
    return pats


def _render_chunk(args):
    lo, hi, pats = args
    from bumpver import v2version, version

    base = v2version.parse_field_values_to_vinfo({"major": "0"})
    prev = None
    bad = {}
    n = 0
    for o in range(lo, hi + 1):
        d = dt.date.fromordinal(o)
        vi = base._replace(**v2version.cal_info(d)._asdict())
        cur = {}
        for p in pats:
            s = v2version.format_version(vi, p)
            cur[p] = (s, version.parse_version(s))
            n += 1
        if prev is not None:
            for p in pats:
                if cur[p][1] < prev[p][1] and p not in bad:
                    bad[p] = (dt.date.fromordinal(o - 1).isoformat(), d.isoformat(), prev[p][0], cur[p][0])
        prev = cur
    return n, bad


def rendered_monotone(lo_date, hi_date, pats, jobs=16):
    lo, hi = lo_date.toordinal(), hi_date.toordinal()
    step = max(1, (hi - lo) // (jobs * 4))
    chunks = []
    s = lo
    while s <= hi:
        e = min(hi, s + step)
        chunks.append((s, e, pats))
        if e == hi:
            break
        s = e
    with mp.get_context("fork").Pool(jobs) as pool:
        parts = pool.map(_render_chunk, chunks)
    n = sum(p[0] for p in parts)
    bad = {}
    for _, b in parts:
        for k, v in b.items():
            bad.setdefault(k, v)
    return n, bad


def replay_rendered(pattern, d0, d1):
    """True iff the rendering for d1 is not lower than for d0 (the property holds on this pair)."""
    from bumpver import v2version, version

    base = v2version.parse_field_values_to_vinfo({"major": "0"})
    a = v2version.format_version(base._replace(**v2version.cal_info(dt.date.fromisoformat(d0))._asdict()), pattern)
    b = v2version.format_version(base._replace(**v2version.cal_info(dt.date.fromisoformat(d1))._asdict()), pattern)
    return not (version.parse_version(b) < version.parse_version(a))


def replay_guard(pattern, expect_valid):
    from bumpver import v2version

    return v2version.is_valid_week_pattern(pattern) == expect_valid


def bump_pair(pattern, o1, o2):
    """Render the version of date d1, bump it with date d2 (earlier, equal or later): through the real incr the result
    is read back by its own pattern and never lower than the input (a version from the future keeps its calendar)."""
    from bumpver import v2version, version

    d1, d2 = dt.date.fromordinal(o1), dt.date.fromordinal(o2)
    full = pattern + ".BUILD"
    base = v2version.parse_field_values_to_vinfo({"bid": "1001"})
    v1 = v2version.format_version(base._replace(**v2version.cal_info(d1)._asdict()), full)
    if not v2version.is_valid(v1, full):
        return None  # rendered but not accepted (week 53): that is C02's known finding, not a question of order
    try:
        v2 = v2version.incr(v1, raw_pattern=full, maybe_date=d2)
    except Exception as e:  # noqa
        return f"{full}: incr({v1!r}, date {d2}) raised {type(e).__name__}: {e}"
    if v2 is None:
        return f"{full}: incr({v1!r}, date {d2}) gives no version"
    if not v2version.is_valid(v2, full):
        return None  # see above
    if not version.parse_version(v2) > version.parse_version(v1):
        return f"{full}: version of {d1} is {v1!r}; bumped on {d2} it becomes {v2!r}, which is not greater"
    i1, i2 = v2version.parse_version_info(v1, full), v2version.parse_version_info(v2, full)
    if d2 >= d1 and v2version._is_cal_gt(i1, v2version._ver_to_cal_info(i2)):
        return f"{full}: calendar part of {v2!r} (bumped on {d2}) is lower than that of {v1!r} ({d1})"
    return None


def _pairs_chunk(args):
    import random

    seed, n, pats = args
    rng = random.Random(seed)
    lo, hi = dt.date(2001, 1, 1).toordinal(), dt.date(2099, 12, 31).toordinal()
    specials = [dt.date(y, m, d).toordinal() for y in (2004, 2009, 2010, 2020, 2021, 2026) for (m, d) in ((1, 1), (1, 3), (1, 4), (12, 28), (12, 31), (3, 1))]
    bad, cnt = None, 0
    for _ in range(n):
        p = rng.choice(pats)
        o1 = rng.choice(specials) if rng.random() < 0.3 else rng.randint(lo, hi)
        o2 = o1 + rng.choice([-800, -366, -40, -7, -1, 0, 1, 6, 30, 365, 900]) if rng.random() < 0.6 else rng.randint(lo, hi)
        o2 = min(max(o2, lo), hi)
        cnt += 1
        r = bump_pair(p, o1, o2)
        if r is not None and bad is None:
            bad = (p, o1, o2, r)
    return cnt, bad


def replay_bump_pair(pattern, o1, o2):
    return bump_pair(pattern, o1, o2) is None


def run(tier="quick", seed=0):
    out = []
    t0 = time.time()
    en = CX.enumerate_dates()
    # 1. the contract cal_info callers assume: every field an int within its range
    viol = []
    for f, (lo, hi) in CAL_RANGES.items():
        vs = en["values"][f]
        if not vs or min(vs) < lo or max(vs) > hi:
            viol.append((f, min(vs) if vs else None, max(vs) if vs else None))
    out.append(
        dict(
            name="C14.cal_info.every_field_in_range",
            kind="X",
            verdict="held" if not viol and not en["bad"] else "refuted",
            cases=en["n"],
            distinct=en["n"],
            domain="every datetime.date 0001-01-01..9999-12-31",
            sample={f: [min(v), max(v)] for f, v in en["values"].items()},
            witness=viol or en["bad"],
        )
    )
    # 2. integer tuples of coherent pairings never decrease between consecutive days
    for k in ["Y-month", "Y-month-dom", "Y-doy", "Y-quarter", "Y-week_w", "Y-week_u", "G-week_v"]:
        out.append(
            dict(
                name=f"C14.cal_info.monotone.{k}",
                kind="X",
                verdict="held" if en["ndec"][k] == 0 else "refuted",
                cases=en["n"] - 1,
                distinct=en["n"] - 1,
                domain="every consecutive day pair 0001-01-01..9999-12-31",
                witness=en["decreases"][k][:2],
            )
        )
    # 3. every rejected pairing really is non-monotone (the guard rejects nothing it need not)
    for k in ["Y-week_v", "G-week_w", "G-week_u"]:
        out.append(
            dict(
                name=f"C14.cal_info.rejected_pairing_is_non_monotone.{k}",
                kind="X",
                verdict="held" if en["ndec"][k] > 0 else "refuted",
                cases=en["n"] - 1,
                distinct=en["ndec"][k],
                domain="every consecutive day pair 0001-01-01..9999-12-31",
                sample=en["decreases"][k][:1],
            )
        )
    # 4. rendered versions (real format_version + real comparison key) on the property's range
    pats = coherent_patterns()
    lo, hi = dt.date(2001, 1, 1), dt.date(2099, 12, 31)
    n, bad = rendered_monotone(lo, hi, pats)
    first = sorted(bad.items())[:1]
    out.append(
        dict(
            name="C14.rendered_version_never_lower_for_later_date",
            kind="X",
            verdict="held" if not bad else "refuted",
            cases=n,
            distinct=n,
            domain=f"{len(pats)} coherent year x sub-part patterns x every day 2001-01-01..2099-12-31, compared with version.parse_version",
            sample=pats[:5],
            witness=[dict(pattern=k, pair=v) for k, v in sorted(bad.items())[:3]],
            python_replay=(dict(module="checks.c14", function="replay_rendered", args=[first[0][0], first[0][1][0], first[0][1][1]]) if first else None),
        )
    )
    # 4b. B: bumping the version of one date on another date (earlier, equal, later) through the real incr
    per = 400 if tier == "quick" else 20000
    with mp.get_context("fork").Pool(16) as pool:
        chunks = pool.map(_pairs_chunk, [(seed * 1000 + i, per, pats) for i in range(16)])
    badp = [c[1] for c in chunks if c[1] is not None]
    out.append(
        dict(
            name="C14.bump_on_any_date.result_is_greater_and_calendar_never_lower",
            kind="B",
            verdict="held" if not badp else "refuted",
            cases=sum(c[0] for c in chunks),
            distinct=sum(c[0] for c in chunks),
            bound=f"{16 * per} seeded (pattern, date of the version, date of the bump) triples: {len(pats)} coherent patterns + BUILD, dates 2001..2099 with New-Year / ISO-year boundary days, bump dates before, on and after the version's date",
            witness=[dict(pattern=b[0], version_date=dt.date.fromordinal(b[1]).isoformat(), bump_date=dt.date.fromordinal(b[2]).isoformat(), problem=b[3]) for b in badp[:3]],
            observed=badp[0][3] if badp else None,
            python_replay=(dict(module="checks.c14", function="replay_bump_pair", args=list(badp[0][:3])) if badp else None),
        )
    )
    # 5. the guard classifies the patterns as the statement says
    from bumpver import v2version

    wrong = [p for p in pats if not v2version.is_valid_week_pattern(p)] + [p for p in rejected_patterns() if v2version.is_valid_week_pattern(p)]
    out.append(
        dict(
            name="C14.is_valid_week_pattern.classifies_documented_pairings",
            kind="X",
            verdict="held" if not wrong else "refuted",
            cases=len(pats) + len(rejected_patterns()),
            distinct=len(pats) + len(rejected_patterns()),
            domain="all coherent and all rejected year x week pairings (padded and unpadded)",
            witness=wrong[:3],
            python_replay=(dict(module="checks.c14", function="replay_guard", args=[wrong[0], wrong[0] in pats]) if wrong else None),
        )
    )
    return out
