"""C15: {pep440_version} denotes the same version as {version}.
  X  tag maps (complete over the tables);
  P  canonical printing / spelling normalisation: contracts/version_cmp.py (_parse_letter_version) and
     contracts/version_str.py (Version.__str__);
  B  derived search pattern (_convert_to_pep440 is unbounded string surgery): grammar patterns with
     prefix '' / 'v' x part values x tags - bounded, never counted as proved."""
import itertools
import random
import re

from checks._src import SRC_ROOT, ensure_src
from checks import grammar, _known


def pep440_case(pattern, order, vals):
    ensure_src()
    import packaging.version as pv
    from bumpver import v2version, v2patterns, version

    if "TAG" not in order and "PYTAG" not in order:
        vals = dict(vals, tag="final", num=0)  # reachable states: a pattern without a tag part only ever holds final releases
    base = v2version.parse_field_values_to_vinfo({"major": str(vals["major"]), "minor": str(vals["minor"]), "patch": str(vals["patch"]), "num": str(vals["num"]), "inc0": str(vals["inc0"]), "inc1": str(vals["inc1"]), "bid": vals["bid"], "tag": vals["tag"]})
    vinfo = base._replace(**v2version.cal_info(vals["date"])._asdict())
    if not v2version.is_valid_week_pattern(pattern):
        return True, None
    ver = v2version.format_version(vinfo, pattern)
    try:
        v = pv.Version(ver)
    except pv.InvalidVersion:
        return True, None  # the property speaks about version strings that are themselves PEP 440 versions
    # as in `update`: occurrences are rewritten from the *parsed* new version string
    try:
        vinfo = v2version.parse_version_info(ver, pattern)
    except version.PatternError:
        return True, None  # not a legal current version (C02 decides that)
    pep_pattern = v2patterns.normalize_pattern(pattern, "{pep440_version}")
    written = v2version.format_version(vinfo, pep_pattern)
    try:
        w = pv.Version(written)
    except pv.InvalidVersion:
        return False, f"text written for {{pep440_version}} {written!r} (pattern {pep_pattern!r}) is not a PEP 440 version; version is {ver!r}"
    if w != v:
        return False, f"{{pep440_version}} {written!r} != {{version}} {ver!r} under PEP 440 (derived pattern {pep_pattern!r})"
    printed = version.to_pep440(ver)
    try:
        pp = pv.Version(printed)
    except pv.InvalidVersion:
        return False, f"PEP440 line {printed!r} printed for {ver!r} is not a PEP 440 version"
    if pp != v:
        return False, f"PEP440 line {printed!r} printed by test/show is not the version {ver!r} (written text {written!r})"
    if printed != str(pp):
        return False, f"PEP440 line {printed!r} is not normalised ({str(pp)!r})"
    if str(pp) != str(w):
        strip = lambda r: tuple(reversed(list(itertools.dropwhile(lambda x: x == 0, reversed(r)))))
        if pp.release != w.release and strip(pp.release) == strip(w.release) and (pp.epoch, pp.pre, pp.post, pp.dev, pp.local) == (w.epoch, w.pre, w.post, w.dev, w.local):
            return False, f"[trailing_zero_release] PEP440 line {printed!r} and written {written!r} are equal versions but differ in the number of release components"
        return False, f"PEP440 line {printed!r} and written {written!r} are spelled differently after normalisation"
    # the stated normalisation rules: no v prefix, no leading zeros after the first component, short tag + number
    # (PEP 440's canonical '.' in front of post/dev is not demanded by the statement)
    # "every dot-separated numeric component *after the first*": leading zeros of the first component are allowed
    first_stripped = re.sub(r"^0+(?=\d)", "", written)
    if re.sub(r"(?<=\d)(post|dev)", r".\1", first_stripped) != str(w) or written.startswith("v"):
        return False, f"{written!r} is not in PEP 440 normal form ({str(w)!r}): v prefix / leading zeros / long tag spelling"
    rx = v2patterns.compile_pattern(pattern, "{pep440_version}").regexp
    m = rx.match(written)
    if not m or m.group(0) != written:
        return False, f"derived search pattern {pep_pattern!r} does not accept {written!r} in full"
    return True, None


def replay_case(pattern, order, vals):
    import datetime as dt

    vals = dict(vals)
    if isinstance(vals["date"], str):
        vals["date"] = dt.date.fromisoformat(vals["date"])
    return pep440_case(pattern, order, vals)[0]


def run(tier="quick", seed=0):
    ensure_src()
    from bumpver import version, v2patterns, cli
    from bumpver import setuptools_v65_version as sv

    out = []
    # ---- X: tag maps
    probs = []
    tag_alts = v2patterns.PART_PATTERNS["TAG"].split("|")
    for t in sorted(set(tag_alts) | set(cli.VALID_RELEASE_TAG_VALUES)):
        if t not in version.PEP440_TAG_BY_TAG:
            probs.append(f"tag {t!r} has no PEP 440 form")
            continue
        short = version.PEP440_TAG_BY_TAG[t]
        if short not in ("a", "b", "rc", "post", "dev", ""):
            probs.append(f"tag {t!r} maps to {short!r}, not a PEP 440 short form")
        if t not in ("final",):
            got = sv._parse_letter_version(t, "1")
            if got is None or got[0] != short:
                probs.append(f"normaliser maps {t!r} to {got!r}, table to {short!r}")
    for short, long_ in version.TAG_BY_PEP440_TAG.items():
        if version.PEP440_TAG_BY_TAG.get(long_) != short:
            probs.append(f"TAG_BY_PEP440_TAG[{short!r}]={long_!r} is not a right inverse")
    if set(version.TAG_BY_PEP440_TAG) != {"a", "b", "rc", "post", "dev", ""}:
        probs.append(f"short forms are {sorted(version.TAG_BY_PEP440_TAG)}")
    for pyt in v2patterns.PART_PATTERNS["PYTAG"].split("|"):
        if pyt not in version.TAG_BY_PEP440_TAG:
            probs.append(f"PYTAG alternative {pyt!r} unknown")
    out.append(dict(name="C15.tag_maps.every_tag_has_its_pep440_short_form_and_normaliser_agrees", kind="X", verdict="held" if not probs else "refuted", cases=len(tag_alts) + len(version.TAG_BY_PEP440_TAG), distinct=len(tag_alts), domain="every alternative of the TAG/PYTAG regexes, VALID_RELEASE_TAG_VALUES, both tag tables", witness=probs[:4], observed=probs[0] if probs else None))
    # ---- B: derived pattern
    rng = random.Random(seed)
    n = 3000 if tier == "quick" else 300000
    known = {k["witness_class"]: k for k in _known.load("C15")}
    bad = None
    known_hits = {}
    pats = set()
    cnt = 0
    for _ in range(n):
        pattern, order = grammar.gen_pattern(rng, pep440_friendly=True)
        vals = grammar.gen_values(rng)
        pats.add(pattern)
        cnt += 1
        try:
            ok, why = pep440_case(pattern, order, vals)
        except Exception as e:  # noqa
            ok, why = False, f"exception {type(e).__name__}: {e}"
        if not ok:
            cls = why[1 : why.index("]")] if why.startswith("[") else "other"
            rec = (pattern, order, dict(vals, date=vals["date"].isoformat()), why)
            if cls in known:
                known_hits.setdefault(cls, rec)
                continue
            bad = rec
            break
    out.append(
        dict(
            name="C15.derived_pattern.pep440_text_equals_version_is_normalised_and_is_accepted",
            kind="B",
            verdict="held" if bad is None and not known_hits else "refuted",
            known_finding=(",".join(known[c]["id"] for c in sorted(known_hits)) if bad is None and known_hits else None),
            cases=cnt,
            distinct=len(pats),
            bound=f"{cnt} seeded (pattern, value) pairs over {len(pats)} PEP 440-friendly grammar patterns (prefix '' or 'v', '.'-separated parts, optional tag groups), every tag, NUM present/absent",
            witness=[dict(pattern=b[0], values=b[2], problem=b[3]) for b in ([bad] if bad else list(known_hits.values())[:2])],
            observed=bad[3] if bad else (list(known_hits.values())[0][3] if known_hits else None),
            sample=sorted(pats)[:6],
            python_replay=(dict(module="checks.c15", function="replay_case", args=[bad[0], bad[1], bad[2]]) if bad else None),
        )
    )
    return out
