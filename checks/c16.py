"""C16 layers besides the operator contracts:
  P-lemma : the PEP 440 ordering spec itself is a strict weak order (irreflexive, transitive,
            trichotomous) - pure z3 obligations over the spec, so that 'agrees with the spec'
            (contracts/version_cmp.py) gives the total-preorder laws for the real comparison;
  B       : string -> record (Version.__init__ regex) against packaging.version on seeded spellings."""
import os
import random
import sys
import time

import z3

from checks._src import SRC_ROOT, ensure_src  # noqa: E402


def _lemmas():
    from contracts.version_cmp import VRec, pep440_lt, pep440_eq
    from pyvc.symexec import State
    from pyvc import smt

    out = []

    def prove(name, build):
        st = State()
        goal = build(st)
        t0 = time.time()
        v, model, backend, dt = smt.check(list(st.pc) + [z3.Not(goal)], 60000, want_model=True)
        out.append(dict(name=name, kind="P", verdict={"unsat": "held", "sat": "refuted"}.get(v, "error"), cases=1, distinct=1, detail=f"{v} by {backend} in {dt:.2f}s", witness=str(model)[:500] if model is not None else None))

    prove("C16.pep440_order.irreflexive", lambda st: (lambda a: z3.Not(pep440_lt(a, a)))(VRec("a", st)))
    prove("C16.pep440_order.eq_reflexive", lambda st: (lambda a: pep440_eq(a, a))(VRec("a", st)))

    def trich(st):
        a, b = VRec("a", st), VRec("b", st)
        lt, eq, gt = pep440_lt(a, b), pep440_eq(a, b), pep440_lt(b, a)
        exactly_one = z3.And(z3.Or(lt, eq, gt), z3.Not(z3.And(lt, eq)), z3.Not(z3.And(lt, gt)), z3.Not(z3.And(eq, gt)))
        return exactly_one

    prove("C16.pep440_order.trichotomy_exactly_one_of_lt_eq_gt", trich)

    def trans(st):
        a, b, c = VRec("a", st), VRec("b", st), VRec("c", st)
        return z3.Implies(z3.And(pep440_lt(a, b), pep440_lt(b, c)), pep440_lt(a, c))

    prove("C16.pep440_order.transitive", trans)

    def eq_cong(st):
        a, b, c = VRec("a", st), VRec("b", st), VRec("c", st)
        return z3.Implies(z3.And(pep440_eq(a, b), pep440_lt(b, c)), pep440_lt(a, c))

    prove("C16.pep440_order.equal_versions_are_interchangeable_left", eq_cong)

    def eq_cong2(st):
        a, b, c = VRec("a", st), VRec("b", st), VRec("c", st)
        return z3.Implies(z3.And(pep440_lt(a, b), pep440_eq(b, c)), pep440_lt(a, c))

    prove("C16.pep440_order.equal_versions_are_interchangeable_right", eq_cong2)
    return out


SPELLINGS_PRE = ["a", "b", "c", "rc", "alpha", "beta", "pre", "preview", "A", "RC", "Alpha", "BETA", "Beta", "Preview", "PRE", "C"]


def _gen_version(rng):
    s = ""
    if rng.random() < 0.15:
        s += "v"
    if rng.random() < 0.2:
        s += f"{rng.randint(0, 3)}!"
    s += ".".join(str(rng.choice([0, 1, 2, 10, 2017, 201812])).zfill(rng.choice([1, 1, 2])) for _ in range(rng.randint(1, 4)))
    if rng.random() < 0.5:
        s += rng.choice(["", ".", "-", "_"]) + rng.choice(SPELLINGS_PRE) + rng.choice(["", ".", "-"]) + rng.choice(["", "0", "1", "12"])
    if rng.random() < 0.3:
        s += rng.choice([".post", "-post", "post", ".rev", "-r", "-", ".Rev", "-R", ".POST"]) + rng.choice(["1", "2", "0"])
    if rng.random() < 0.3:
        s += rng.choice([".dev", "-dev", "dev", "_dev"]) + rng.choice(["", "0", "3"])
    if rng.random() < 0.2:
        s += "+" + rng.choice(["abc", "1", "abc.1", "1.abc", "ubuntu-1", "ABC", "Ubuntu.1", "b", "B", "abc_1", "1.ABC"])  # PEP 440: local labels compare case-insensitively
    return s


def _gen_legacy(rng):
    return rng.choice(["v2017q1.54321", "foo", "1.0-xyz!", "2018.abc", "", "v201712.0033-beta.x", "not a version", "1..2", "1.2.3.post"])


def replay_pair(s1, s2):
    import packaging.version as ref
    from bumpver import version as bv

    def refkey(s):
        try:
            return (1, ref.Version(s))
        except ref.InvalidVersion:
            return (0, None)

    a, b = bv.parse_version(s1), bv.parse_version(s2)
    ra, rb = refkey(s1), refkey(s2)
    if ra[0] and rb[0]:
        return (a < b) == (ra[1] < rb[1]) and (a == b) == (ra[1] == rb[1]) and str(a) == str(ra[1])
    if ra[0] != rb[0]:
        return (a < b) == (ra[0] < rb[0])  # non-PEP 440 strings below PEP 440 ones
    return True


def run(tier="quick", seed=0):
    out = _lemmas()
    rng = random.Random(seed)
    n = 2000 if tier == "quick" else 60000
    pool = [_gen_version(rng) for _ in range(300)] + [_gen_legacy(rng) for _ in range(30)]
    bad = None
    cases = 0
    for _ in range(n):
        s1, s2 = rng.choice(pool), rng.choice(pool)
        cases += 1
        try:
            ok = replay_pair(s1, s2)
        except Exception as e:  # noqa
            ok = False
        if not ok:
            bad = (s1, s2)
            break
    out.append(
        dict(
            name="C16.string_to_record.agrees_with_packaging_reference",
            kind="B",
            verdict="held" if bad is None else "refuted",
            cases=cases,
            distinct=len(pool),
            bound=f"{n} seeded pairs from {len(pool)} generated PEP 440 spellings and legacy strings (seed {seed}); comparison, equality and canonical str() against packaging.version {__import__('packaging').__version__}",
            witness=bad,
            sample=pool[:5],
            python_replay=(dict(module="checks.c16", function="replay_pair", args=list(bad)) if bad else None),
        )
    )
    return out
