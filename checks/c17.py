"""C17 bounded layer (never counted as proved): bump chains through the real v2version.incr - the BUILD part grows
numerically at every step and, as a string, lexically (BLD: numerically), from short, padded and boundary start ids."""
import datetime as dt

from checks._src import ensure_src

STARTS = ["1", "5", "16", "42", "099", "999", "0001", "0999", "1000", "1009", "1998", "9998", "10999", "22000", "998999", "01500", "09990", "001000"]


def chain(pattern, start, steps):
    ensure_src()
    from bumpver import v2version

    d = dt.date(2020, 1, 1)
    cur = "v2020." + start + ("-beta3" if "TAG" in pattern else "")
    prev_id = start
    for i in range(steps):
        try:
            nxt = v2version.incr(cur, raw_pattern=pattern, maybe_date=d)
        except OverflowError:
            return None
        if nxt is None:
            return f"{pattern}: incr({cur!r}) gives no new version at step {i}"
        new_id = nxt.split(".", 1)[1].split("-")[0]
        if not new_id.isdigit():
            return f"{pattern}: {cur!r} -> {nxt!r}: build id is not a number"
        if "BUILD" in pattern and i >= 1 and len(new_id) < len(prev_id):
            return f"{pattern}: {cur!r} -> {nxt!r}: the build id lost a digit"
        if "BUILD" in pattern and len(start) >= 4 and len(new_id) < len(prev_id):
            return f"{pattern}: {cur!r} -> {nxt!r}: the build id lost a digit (leading zeros of a padded id must be kept)"
        if not int(new_id) > int(prev_id):
            return f"{pattern}: {cur!r} -> {nxt!r}: build number does not grow numerically"
        if "BUILD" in pattern and i >= 1 and not new_id > prev_id:
            # from the first generated id on (a hand-written start such as '5' is below the scheme's range)
            return f"{pattern}: {cur!r} -> {nxt!r}: build id does not grow lexically ({prev_id!r} !< {new_id!r})"
        back = v2version.parse_version_info(nxt, pattern)
        if int(back.bid) != int(new_id):
            return f"{pattern}: {nxt!r} reads back build id {back.bid!r}"
        cur, prev_id = nxt, new_id
    return None


def replay_chain(pattern, start, steps):
    return chain(pattern, start, steps) is None


def run(tier="quick", seed=0):
    steps = 1200 if tier == "quick" else 12000
    bad = []
    n = 0
    for pattern in ("vYYYY.BUILD", "vYYYY.BLD", "vYYYY.BUILD[-TAGNUM]"):  # the last one has a part right of BUILD that is reset on every bump
        for s in STARTS:
            if pattern.endswith("BLD") and s.startswith("0"):
                continue  # BLD is written without leading zeros
            n += 1
            try:
                r = chain(pattern, s, steps)
            except Exception as e:  # noqa
                r = f"exception {type(e).__name__}: {e} (pattern {pattern}, start {s})"
            if r is not None:
                bad.append(((pattern, s, steps), r))
    return [
        dict(
            name="C17.bump_chains.build_grows_numerically_and_lexically",
            kind="B",
            verdict="held" if not bad else "refuted",
            cases=n * steps,
            distinct=n,
            bound=f"{n} chains of up to {steps} bumps (BUILD and BLD) from {len(STARTS)} start ids (1-2 digits, padded, 999/1000 and 9998/10999 boundaries)",
            witness=[dict(chain=list(c), problem=r) for c, r in bad[:3]],
            observed=bad[0][1] if bad else None,
            sample=STARTS[:4],
            python_replay=(dict(module="checks.c17", function="replay_chain", args=list(bad[0][0])) if bad else None),
        )
    ]
