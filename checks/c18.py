"""C18 B layer: sibling projects that differ only in configuration syntax are read to the same
effective settings (real configparser / toml / config.init). Bounded: enumerated over boolean
spellings x quoting x files x patterns x scopes x missing keys; never counted as proved.
It also is the bounded check of the assumed parser contracts (A-lib) used by the P layer."""
import itertools
import multiprocessing as mp
import os
import random
import shutil
import tempfile

from checks._src import SRC_ROOT, ensure_src

BOOL_SPELLINGS = {True: ["True", "true", "yes", "on", "1", "TRUE"], False: ["False", "false", "no", "off", "0"]}
SCOPES = [None, "default", "global", "branch"]


def gen_abstract(rng):
    """An abstract configuration K expressible in every syntax."""
    nfiles = rng.randint(0, 4)
    files = {}
    names = ["src/mod.py", "README.md", "docs/conf.py", "notes.txt", "lib/__init__.py"]
    for fn in rng.sample(names, nfiles):
        files[fn] = rng.sample(["{version}", "{pep440_version}", '__version__ = "{version}"', "Copyright (c) YYYY", 'release = "{pep440_version}"', "badge/v{version}%20ok"], rng.randint(1, 3))
    commit = rng.choice([None, True, False])
    tag = rng.choice([None, True, False]) if commit else rng.choice([None, False])
    push = rng.choice([None, True, False]) if commit else rng.choice([None, False])
    return dict(
        current_version=rng.choice(["2020.1001-alpha", "2021.1042", "2019.11000-rc"]),
        version_pattern="YYYY.BUILD[-TAG]",
        commit_message=rng.choice([None, "bump {old_version} -> {new_version}", "release {new_version}", "release {new_version} (100% done)", "release {new_version} #noci ; see log"]),
        tag_message=rng.choice([None, "{new_version}", "v {new_version}", "release #{new_version}"]),
        tag_scope=rng.choice(SCOPES),
        commit=commit,
        tag=tag,
        push=push,
        files=files,
        glob=rng.random() < 0.2,
    )


def render_ini(K, rng, section="bumpver"):
    q = lambda s: rng.choice([s, f'"{s}"', f"'{s}'"])
    b = lambda v: rng.choice(BOOL_SPELLINGS[v])
    out = []
    if rng.random() < 0.4:
        out += ["[metadata]", "name = demo", ""]
    out += [f"[{section}]", f"current_version = {q(K['current_version'])}", f"version_pattern = {q(K['version_pattern'])}"]
    for k in ("commit_message", "tag_message", "tag_scope"):
        if K[k] is not None:
            out.append(f"{k} = {q(K[k])}")
    for k in ("commit", "tag", "push"):
        if K[k] is not None:
            out.append(f"{k} = {b(K[k])}")
    out.append("")
    out.append(f"[{section}:file_patterns]")
    for fn, pats in files_of(K).items():
        if len(pats) == 1 and rng.random() < 0.5:
            out.append(f"{fn} = {pats[0]}")  # the pattern on the same line as the file name
            continue
        out.append(f"{fn} =")
        for p in pats:
            out.append("    " + p)
    return "\n".join(out) + "\n"


def render_toml(K, rng, section="bumpver"):
    b = lambda v: "true" if v else "false"
    qs = lambda s: '"' + s.replace("\\", "\\\\").replace('"', '\\"') + '"'
    out = []
    if rng.random() < 0.4:
        out += ["[tool.black]", "line-length = 100", ""]  # unrelated tables of other tools share the file
    out += [f"[{section}]", f"current_version = {qs(K['current_version'])}", f"version_pattern = {qs(K['version_pattern'])}"]
    for k in ("commit_message", "tag_message", "tag_scope"):
        if K[k] is not None:
            out.append(f"{k} = {qs(K[k])}")
    for k in ("commit", "tag", "push"):
        if K[k] is not None:
            out.append(f"{k} = {b(K[k])}")
    out.append("")
    out.append(f"[{section}.file_patterns]")
    for fn, pats in files_of(K).items():
        out.append(f"{qs(fn)} = [" + ", ".join("'" + p + "'" if '"' in p else qs(p) for p in pats) + "]")
    return "\n".join(out) + "\n"


def files_of(K):
    d = {}
    for fn, pats in K["files"].items():
        key = fn
        if K["glob"] and fn.startswith("src/"):
            key = "src/*.py"
        d[key] = pats
    return d


VARIANTS = [
    ("setup.cfg", lambda K, r: render_ini(K, r, "bumpver")),
    ("setup.cfg", lambda K, r: render_ini(K, r, "pycalver")),
    ("pyproject.toml", lambda K, r: render_toml(K, r, "tool.bumpver")),
    ("bumpver.toml", lambda K, r: render_toml(K, r, "bumpver")),
    (".bumpver.toml", lambda K, r: render_toml(K, r, "bumpver")),
    ("pycalver.toml", lambda K, r: render_toml(K, r, "pycalver")),
]


def effective(cfg, cfgname):
    """The effective settings, with the config file's own entry made comparable across file names."""
    fps = {}
    for path, pats in cfg.file_patterns.items():
        key = "<config file>" if path == cfgname else path
        fps[key] = sorted((p.version_pattern, p.raw_pattern) for p in pats)
    return dict(
        current_version=cfg.current_version,
        version_pattern=cfg.version_pattern,
        pep440_version=cfg.pep440_version,
        commit_message=cfg.commit_message,
        tag_message=cfg.tag_message,
        tag_scope=cfg.tag_scope.value,
        pre_commit_hook=cfg.pre_commit_hook,
        post_commit_hook=cfg.post_commit_hook,
        commit=bool(cfg.commit),
        tag=bool(cfg.tag),
        push=bool(cfg.push),
        is_new_pattern=cfg.is_new_pattern,
        file_patterns=fps,
    )


def load_variant(K, idx, seed):
    import logging

    logging.disable(logging.CRITICAL)
    ensure_src()
    from bumpver import config

    name, render = VARIANTS[idx]
    rng = random.Random(seed)
    d = tempfile.mkdtemp(prefix="c18_")
    cwd = os.getcwd()
    try:
        for fn in K["files"]:
            p = os.path.join(d, fn)
            os.makedirs(os.path.dirname(p), exist_ok=True)
            open(p, "w").write(f"{K['current_version']}\n")
        text = render(K, rng)
        open(os.path.join(d, name), "w", encoding="utf-8").write(text)
        os.chdir(d)
        ctx, cfg = config.init(project_path=".")
        if cfg is None:
            return ("none", text)
        if ctx.config_filepath.name != name:
            return ("wrong-file:" + ctx.config_filepath.name, text)
        return (effective(cfg, name), text)
    except Exception as e:  # noqa
        return (f"exception {type(e).__name__}: {e}", "")
    finally:
        os.chdir(cwd)
        shutil.rmtree(d, ignore_errors=True)


def check_K(seed):
    rng = random.Random(seed)
    K = gen_abstract(rng)
    results = [load_variant(K, i, seed * 31 + i) for i in range(len(VARIANTS))]
    effs = [r[0] for r in results]
    ref = effs[0]
    # the self-pattern text of the config file differs by syntax (quoting of the line): compare it modulo the quote style
    def norm(e):
        if not isinstance(e, dict):
            return e
        e = dict(e)
        fp = dict(e["file_patterns"])
        if "<config file>" in fp:
            fp["<config file>"] = sorted((vp, rp.replace("'", "").replace('"', "").replace(" ", "")) for vp, rp in fp["<config file>"])
        e["file_patterns"] = fp
        return e

    for i, e in enumerate(effs):
        if norm(e) != norm(ref):
            diff = None
            if isinstance(e, dict) and isinstance(ref, dict):
                diff = {k: (ref[k], e[k]) for k in ref if norm(ref)[k] != norm(e)[k]}
            return dict(seed=seed, K=K, variant_a=VARIANTS[0][0] + "[bumpver]", variant_b=VARIANTS[i][0], differs=diff if diff is not None else (ref if not isinstance(ref, dict) else "ok", e), text_b=results[i][1][:600], text_a=results[0][1][:600])
    if not isinstance(ref, dict):
        return dict(seed=seed, K=K, problem=f"configuration not readable: {ref}", text_a=results[0][1][:600])
    # always including the config file's own current_version line
    if "<config file>" not in ref["file_patterns"]:
        return dict(seed=seed, K=K, problem="config file's own current_version line is not among the patterns")
    # tag and push require commit; defaults
    exp_commit = bool(K["commit"])
    if ref["commit"] != exp_commit or ref["tag"] != bool(K["tag"]) or ref["push"] != bool(K["push"]):
        return dict(seed=seed, K=K, problem=f"booleans read as {ref['commit']},{ref['tag']},{ref['push']}")
    if ref["tag_scope"] != (K["tag_scope"] or "default"):
        return dict(seed=seed, K=K, problem=f"tag_scope read as {ref['tag_scope']}")
    return None


def replay_seed(seed):
    return check_K(seed) is None


def run(tier="quick", seed=0):
    n = 300 if tier == "quick" else 20000
    seeds = [seed * 7919 + i for i in range(n)]
    with mp.get_context("fork").Pool(16) as pool:
        res = pool.map(check_K, seeds, chunksize=8)
    bad = [r for r in res if r is not None]
    return [
        dict(
            name="C18.same_settings_in_every_config_syntax",
            kind="B",
            verdict="held" if not bad else "refuted",
            cases=n * len(VARIANTS),
            distinct=n,
            bound=f"{n} seeded abstract configurations x {len(VARIANTS)} syntaxes (setup.cfg [bumpver]/[pycalver], pyproject.toml [tool.bumpver], bumpver.toml, .bumpver.toml, pycalver.toml); boolean spellings, quoting, 0..4 files x 1..3 patterns, glob entry, scopes, missing optional keys",
            witness=bad[:2],
            observed=str(bad[0].get("differs") or bad[0].get("problem"))[:500] if bad else None,
            sample=[seeds[0]],
            python_replay=(dict(module="checks.c18", function="replay_seed", args=[bad[0]["seed"]]) if bad else None),
        )
    ]
