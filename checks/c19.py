"""C19 X layer: `init` on every layout of the recognised project files (complete for the stated domain)."""
import datetime as dt
import itertools
import multiprocessing as mp
import os
import shutil
import sys
import tempfile

from checks._src import SRC_ROOT, ensure_src  # noqa: E402

PLAIN = ["README.md", "README.rst", "setup.py"]
CONFIGS = ["setup.cfg", "pyproject.toml", "bumpver.toml", ".bumpver.toml", "pycalver.toml"]

UNRELATED = {
    "setup.cfg": "[metadata]\nname = demo\n",
    "pyproject.toml": '[build-system]\nrequires = ["setuptools"]\n',
    "bumpver.toml": '[tool.black]\nline-length = 100\n\n[other]\nkey = "value"\n',  # tables of other tools share the file
    ".bumpver.toml": '[other]\nkey = "value"\n\n[tool.isort]\nprofile = "black"\n',
    "pycalver.toml": '[tool.black]\nline-length = 100\n',
}
SECTION = {
    "setup.cfg": '[bumpver]\ncurrent_version = "2020.1001-alpha"\nversion_pattern = "YYYY.BUILD[-TAG]"\n\n[bumpver:file_patterns]\nsetup.cfg =\n    current_version = "{version}"\n',
    "pyproject.toml": '[tool.bumpver]\ncurrent_version = "2020.1001-alpha"\nversion_pattern = "YYYY.BUILD[-TAG]"\n\n[tool.bumpver.file_patterns]\n"pyproject.toml" = [\'current_version = "{version}"\']\n',
    "bumpver.toml": '[bumpver]\ncurrent_version = "2020.1001-alpha"\nversion_pattern = "YYYY.BUILD[-TAG]"\n\n[bumpver.file_patterns]\n"bumpver.toml" = [\'current_version = "{version}"\']\n',
    ".bumpver.toml": '[bumpver]\ncurrent_version = "2020.1001-alpha"\nversion_pattern = "YYYY.BUILD[-TAG]"\n\n[bumpver.file_patterns]\n".bumpver.toml" = [\'current_version = "{version}"\']\n',
    "pycalver.toml": '[pycalver]\ncurrent_version = "2020.1001-alpha"\nversion_pattern = "YYYY.BUILD[-TAG]"\n\n[pycalver.file_patterns]\n"pycalver.toml" = [\'current_version = "{version}"\']\n',
}
PLAIN_TEXT = {"README.md": "# demo\n", "README.rst": "demo\n====\n", "setup.py": "from setuptools import setup\nsetup(name='demo')\n"}
STATES = ("empty", "unrelated", "section")


def layouts(full):
    for plain_mask in itertools.product([0, 1], repeat=len(PLAIN)):
        for cfg_mask in itertools.product([0, 1], repeat=len(CONFIGS)):
            present = [c for c, m in zip(CONFIGS, cfg_mask) if m]
            state_sets = itertools.product(STATES, repeat=len(present)) if full else [tuple("empty" for _ in present)]
            for states in state_sets:
                files = {p: PLAIN_TEXT[p] for p, m in zip(PLAIN, plain_mask) if m}
                for c, s in zip(present, states):
                    files[c] = "" if s == "empty" else (UNRELATED[c] if s == "unrelated" else SECTION[c])
                yield files


def _snapshot(d):
    out = {}
    for fn in sorted(os.listdir(d)):
        with open(os.path.join(d, fn), "rb") as fh:
            out[fn] = fh.read()
    return out


def _run_init(dry):
    from bumpver import cli

    try:
        cli.init.callback(verbose=0, dry=dry)
        return 0
    except SystemExit as e:
        return e.code if isinstance(e.code, int) else 1


def check_layout(files):
    """Returns None if the property holds on this layout, else a description."""
    import io
    import contextlib
    import logging

    logging.disable(logging.CRITICAL)
    from bumpver import config

    d = tempfile.mkdtemp(prefix="c19_")
    cwd = os.getcwd()
    try:
        for fn, text in files.items():
            with open(os.path.join(d, fn), "w", encoding="utf-8", newline="") as fh:
                fh.write(text)
        os.chdir(d)
        sink = io.StringIO()
        with contextlib.redirect_stdout(sink), contextlib.redirect_stderr(sink):
            before = _snapshot(d)
            has_section = [fn for fn, t in files.items() if fn in SECTION and t == SECTION[fn]]
            # --dry writes nothing
            rc = _run_init(dry=True)
            if _snapshot(d) != before:
                return f"init --dry changed files (exit {rc})"
            if has_section:
                ctx, cfg = config.init(project_path=".")
                if cfg is None or ctx.config_filepath.name not in has_section:
                    return f"a file with a bumpver section ({has_section}) is not preferred: picked {ctx.config_filepath.name}, cfg={'ok' if cfg else None}"
                rc = _run_init(dry=False)
                if rc != 1 or _snapshot(d) != before:
                    return f"init on a configured project: exit {rc}, files changed={_snapshot(d) != before}"
                return None
            if rc != 0:
                return f"init --dry on an unconfigured project exits {rc}"
            rc = _run_init(dry=False)
            after = _snapshot(d)
            if rc != 0:
                return f"init exits {rc}"
            changed = [fn for fn in after if after.get(fn) != before.get(fn)]
            if len(changed) != 1:
                return f"init changed {changed}"
            target = changed[0]
            if not after[target].startswith(before.get(target, b"")):
                return f"prior content of {target} is not a prefix of the new content"
            ctx, cfg = config.init(project_path=".")
            if cfg is None:
                return f"configuration written to {target} is not readable by bumpver itself"
            if ctx.config_filepath.name != target:
                return f"show reads {ctx.config_filepath.name}, init wrote {target}"
            want = f"{dt.date.today().year}.1001-alpha"
            if cfg.current_version != want:
                return f"current_version {cfg.current_version!r} != {want!r}"
            rc2 = _run_init(dry=False)
            if rc2 != 1 or _snapshot(d) != after:
                return f"second init: exit {rc2}, files changed={_snapshot(d) != after}"
        return None
    except Exception as e:  # noqa
        return f"exception {type(e).__name__}: {e}"
    finally:
        os.chdir(cwd)
        shutil.rmtree(d, ignore_errors=True)


def replay_layout(files):
    return check_layout(files) is None


def run(tier="quick", seed=0):
    import random

    full = list(layouts(True))
    if False:
        base = list(layouts(False))
        rng = random.Random(seed)
        extra = rng.sample(full, min(1500, len(full)))
        todo = base + extra
        domain = f"all 2^8 subsets with empty config files ({len(base)}) + {len(extra)} seeded layouts of the {len(full)} with content states"
        kind = "B"
    else:
        todo = full
        domain = f"all {len(full)} layouts: 2^8 subsets of the recognised files x {{empty, unrelated content, existing bumpver section}} per config-capable file"
        kind = "X"
    with mp.get_context("fork").Pool(16) as pool:
        res = pool.map(check_layout, todo, chunksize=16)
    bad = [(f, r) for f, r in zip(todo, res) if r is not None]
    # B: prior content with CRLF line endings (the prefix claim is about bytes)
    crlf = []
    for c in CONFIGS:
        crlf.append({c: UNRELATED[c].replace("\n", "\r\n")})
        crlf.append({c: UNRELATED[c].replace("\n", "\r\n"), "README.md": PLAIN_TEXT["README.md"].replace("\n", "\r\n"), "setup.py": PLAIN_TEXT["setup.py"]})
    res2 = [check_layout(f) for f in crlf]
    bad2 = [(f, r) for f, r in zip(crlf, res2) if r is not None]
    extra = dict(
        name="C19.init.prior_content_with_crlf_line_endings_stays_a_byte_prefix",
        kind="B",
        verdict="held" if not bad2 else "refuted",
        cases=len(crlf),
        distinct=len(crlf),
        bound=f"{len(crlf)} layouts whose existing files use CRLF line endings (one config-capable file with unrelated content, alone and next to README.md/setup.py)",
        witness=[dict(files=f, problem=r) for f, r in bad2[:3]],
        observed=bad2[0][1] if bad2 else None,
        sample=[sorted(crlf[0].keys())],
        python_replay=(dict(module="checks.c19", function="replay_layout", args=[bad2[0][0]]) if bad2 else None),
    )
    return [
        extra,
        dict(
            name="C19.init.appends_usable_config_prefers_configured_file_dry_and_second_init_change_nothing",
            kind=kind,
            verdict="held" if not bad else "refuted",
            cases=len(todo),
            distinct=len(todo),
            domain=domain,
            bound=domain,
            sample=[sorted(todo[1].keys()), sorted(todo[-1].keys())],
            witness=[dict(files=f, problem=r) for f, r in bad[:3]],
            observed=bad[0][1] if bad else None,
            python_replay=(dict(module="checks.c19", function="replay_layout", args=[bad[0][0]]) if bad else None),
        )
    ]
