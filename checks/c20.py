"""C20: legacy {...} patterns render, read back and increase consistently.
  X  part layer: every legacy calendar part x every date 2000-01-01..2099-12-31 (through the real
     v1version.cal_info / format_version / parse_version_info), whole-text match required;
  P  engine dispatch agreement: contracts/cli.py (incr_dispatch);
  B  composites and bump chains (bounded)."""
import datetime as dt
import itertools
import multiprocessing as mp
import random

from checks._src import SRC_ROOT, ensure_src
from checks import _known

# the parts the property lists ({year}/{month}/{dom}/{doy}/{quarter} and their documented short/long forms);
# {iso_week}/{us_week} are not among them (the legacy parser never reads them back: _parse_field_values)
CAL_PARTS = ["month", "month_short", "dom", "dom_short", "doy", "doy_short", "quarter", "yy", "yyyy", "year"]
FIELD = {"month": "month", "month_short": "month", "dom": "dom", "dom_short": "dom", "doy": "doy", "doy_short": "doy", "quarter": "quarter", "iso_week": "iso_week", "us_week": "us_week", "yy": "year", "yyyy": "year", "year": "year"}


def part_case(part, ordinal):
    """Render {year}x{part} for the date, require a whole-text match and the same field back."""
    ensure_src()
    from bumpver import v1version, v1patterns, version

    d = dt.date.fromordinal(ordinal)
    base = v1version.parse_version_info("v201701.0033-beta", "{pycalver}")
    vinfo = base._replace(**v1version.cal_info(d)._asdict())
    pattern = "{" + part + "}" if part in ("yy", "yyyy", "year") else "{year}x{" + part + "}"
    if part in ("dom", "dom_short"):
        pattern = "{year}x{month}x{" + part + "}"
    text = v1version.format_version(vinfo, pattern)
    rx = v1patterns.compile_pattern(pattern).regexp
    m = rx.match(text)
    if not m or m.group(0) != text:
        return f"{pattern}: rendered {text!r} for {d} is matched only as {m.group(0)!r}" if m else f"{pattern}: rendered {text!r} for {d} is not matched"
    try:
        back = v1version.parse_version_info(text, pattern)
    except version.PatternError as e:
        return f"{pattern}: rendered {text!r} is not accepted: {e}"
    f = FIELD[part]
    if getattr(back, f) != getattr(vinfo, f):
        return f"{pattern}: {text!r} reads back {f}={getattr(back, f)!r}, rendered from {getattr(vinfo, f)!r}"
    return None


def _chunk(args):
    part, lo, hi = args
    seen = {}
    n = 0
    for o in range(lo, hi + 1):
        n += 1
        try:
            r = part_case(part, o)
        except Exception as e:  # noqa
            r = f"exception {type(e).__name__}: {e}"
        if r is not None and part not in seen:
            seen[part] = (o, r)
    return n, seen


def replay_part(part, ordinal):
    return part_case(part, ordinal) is None


COMPOSITES = ["{pycalver}", "{semver}", "v{semver}", "{year}{month}{build}{release}", "v{year}{build}{release}", "{year}.{month}.{dom}-{tag}", "v{yy}.{MAJOR}.{MINOR}.{PATCH}", "{year}d{doy}.{bid}{release}", "{year}q{quarter}.{build_no}"]


def chain_case(pattern, seed, steps):
    """Bump chain: each result strictly greater than its input (for {pycalver} also as a string), accepted and read back."""
    ensure_src()
    from bumpver import v1version, version, cli
    import lexid

    rng = random.Random(seed)
    d = dt.date(2000, 1, 1) + dt.timedelta(days=rng.randint(0, 36000))
    start = v1version.parse_version_info("v201701.0033-beta", "{pycalver}")
    start = start._replace(**v1version.cal_info(d)._asdict())._replace(major=rng.randint(0, 3), minor=rng.randint(0, 12), patch=rng.randint(0, 12), bid=rng.choice(["0001", "0998", "1001", "9998", "0099"]), tag=rng.choice(["final", "alpha", "beta", "rc"]))
    cur = v1version.format_version(start, pattern)
    if not v1version.is_valid(cur, pattern):
        return f"{pattern}: rendered start {cur!r} is not accepted by its own pattern"
    for i in range(steps):
        d = d + dt.timedelta(days=rng.choice([0, 0, 1, 30, 400]))
        if d.year > 2099:
            break
        flags = dict(major=False, minor=False, patch=False)
        if "semver" in pattern or "MAJOR" in pattern:
            flags[rng.choice(["major", "minor", "patch"])] = True
        tag = rng.choice([None, None, "beta", "rc", "final"]) if ("release" in pattern or "{tag}" in pattern or "pycalver" in pattern) else None
        try:
            nxt = cli.incr_dispatch(cur, raw_pattern=pattern, tag=tag, maybe_date=d, **flags)
        except OverflowError:
            break
        if nxt is None:
            continue
        if not cli._is_valid_version(pattern, cur, nxt):
            # a bump that test/update would reject: allowed (exit 1), but never for the documented composites with growing build ids
            if "bid" in pattern or "pycalver" in pattern or "build" in pattern or "BID" in pattern:
                return f"{pattern}: bump {cur!r} -> {nxt!r} (date {d}, tag {tag}) is rejected by the gate"
            continue
        if pattern == "{pycalver}" and not (nxt > cur):
            return f"{{pycalver}}: {nxt!r} is not greater than {cur!r} as a plain string"
        vi = v1version.parse_version_info(nxt, pattern)
        if v1version.format_version(vi, pattern) != nxt:
            return f"{pattern}: {nxt!r} does not re-render to itself"
        cur = nxt
    return None


def chain_case_safe(pattern, seed, steps):
    try:
        return chain_case(pattern, seed, steps)
    except Exception as e:  # noqa
        import traceback

        return f"exception {type(e).__name__}: {e} @ {traceback.format_exc().splitlines()[-3].strip()}"


def replay_chain(pattern, seed, steps):
    return chain_case(pattern, seed, steps) is None


def run(tier="quick", seed=0):
    ensure_src()
    out = []
    known = {k["witness_class"]: k for k in _known.load("C20")}
    lo, hi = dt.date(2000, 1, 1).toordinal(), dt.date(2099, 12, 31).toordinal()
    step = (hi - lo) // 8
    tasks = [(p, a, min(hi, a + step)) for p in CAL_PARTS for a in range(lo, hi + 1, step + 1)]
    with mp.get_context("fork").Pool(16) as pool:
        parts = pool.map(_chunk, tasks)
    n = sum(p[0] for p in parts)
    bad = {}
    for _, seen in parts:
        for k, v in seen.items():
            bad.setdefault(k, v)
    new = {k: v for k, v in bad.items() if k not in known}
    res = dict(
        name="C20.part_layer.rendered_legacy_part_is_matched_in_full_and_reads_back",
        kind="X",
        verdict="held" if not bad else "refuted",
        cases=n,
        distinct=n,
        domain=f"{len(CAL_PARTS)} legacy calendar parts x every date 2000-01-01..2099-12-31, real format_version / compile_pattern / parse_version_info",
        witness=[dict(part=k, date=dt.date.fromordinal(v[0]).isoformat(), problem=v[1]) for k, v in sorted((new or bad).items())[:4]],
        observed=sorted((new or bad).items())[0][1][1] if bad else None,
        python_replay=(dict(module="checks.c20", function="replay_part", args=[sorted((new or bad).items())[0][0], sorted((new or bad).items())[0][1][0]]) if bad else None),
    )
    if bad and not new:
        res["known_finding"] = ",".join(known[k]["id"] for k in sorted(bad))
    out.append(res)
    # ---- X: the derived search patterns {pep440_pycalver} / {pep440_version} accept what is rendered for them
    from bumpver import v1version, v1patterns

    dbad = []
    dn = 0
    for tag in ("final", "alpha", "beta", "rc", "dev", "post"):
        for bid in ("0001", "0033", "1001", "9998", "22000"):
            for ym in ("201701", "209912", "200010"):
                ver = f"v{ym}.{bid}" + ("" if tag == "final" else "-" + tag)
                vi = v1version.parse_version_info(ver, "{pycalver}")
                for raw in ("{pep440_pycalver}", "{pep440_version}"):
                    dn += 1
                    text = v1version.format_version(vi, "{pep440_pycalver}")
                    rx = v1patterns.compile_pattern("{pycalver}", raw).regexp
                    m = rx.match(text)
                    if not m or m.group(0) != text:
                        dbad.append((ver, raw, text))
    out.append(dict(name="C20.derived_search_patterns.accept_the_rendered_pep440_form", kind="X", verdict="held" if not dbad else "refuted", cases=dn, distinct=dn, domain="every tag x sample build ids x {pep440_pycalver}/{pep440_version} under version pattern {pycalver}", witness=dbad[:3], observed=str(dbad[0]) if dbad else None))
    # ---- B: composites and chains
    nchains = 40 if tier == "quick" else 400
    steps = 60 if tier == "quick" else 1000
    tasks = [(p, seed * 1000 + i, steps) for p in COMPOSITES for i in range(nchains // 4 if tier == "quick" else nchains // 4)]
    with mp.get_context("fork").Pool(16) as pool:
        res2 = pool.starmap(chain_case_safe, tasks)
    badc = [(t, r) for t, r in zip(tasks, res2) if r is not None]
    out.append(
        dict(
            name="C20.composites.bump_chains_accepted_read_back_and_strictly_increasing",
            kind="B",
            verdict="held" if not badc else "refuted",
            cases=len(tasks) * steps,
            distinct=len(tasks),
            bound=f"{len(COMPOSITES)} documented composites x {len(tasks) // len(COMPOSITES)} seeded chains of up to {steps} bumps (dates 2000..2099, flags, tags)",
            witness=[dict(pattern=t[0], seed=t[1], problem=r) for t, r in badc[:3]],
            observed=badc[0][1] if badc else None,
            sample=COMPOSITES[:4],
            python_replay=(dict(module="checks.c20", function="replay_chain", args=list(badc[0][0])) if badc else None),
        )
    )
    return out
