"""X layer shared by C02/C05/C14: complete enumeration of datetime.date through
the real v2version.cal_info (DESIGN 1.8: exhausted, not deduced)."""
import datetime as dt
import multiprocessing as mp
import os
import sys

from checks._src import SRC_ROOT, ensure_src  # noqa: E402

CAL_FIELDS = ("year_y", "year_g", "quarter", "month", "dom", "doy", "week_w", "week_u", "week_v")

MIN_ORD = dt.date(1, 1, 1).toordinal()
MAX_ORD = dt.date(9999, 12, 31).toordinal()


def _chunk(args):
    lo, hi = args
    from bumpver import v2version

    values = {f: set() for f in CAL_FIELDS}
    # monotonicity of integer tuples over consecutive days, per coherent pairing
    pairs = {
        "Y-month": ("year_y", "month"),
        "Y-month-dom": ("year_y", "month", "dom"),
        "Y-doy": ("year_y", "doy"),
        "Y-quarter": ("year_y", "quarter"),
        "Y-week_w": ("year_y", "week_w"),
        "Y-week_u": ("year_y", "week_u"),
        "G-week_v": ("year_g", "week_v"),
        # rejected pairings: must be shown non-monotone
        "Y-week_v": ("year_y", "week_v"),
        "G-week_w": ("year_g", "week_w"),
        "G-week_u": ("year_g", "week_u"),
    }
    decreases = {k: [] for k in pairs}
    ndec = {k: 0 for k in pairs}
    prev = None
    bad_range = []
    n = 0
    for o in range(lo, hi + 1):
        d = dt.date.fromordinal(o)
        ci = v2version.cal_info(d)
        n += 1
        for f in CAL_FIELDS:
            v = getattr(ci, f)
            if not isinstance(v, int):
                bad_range.append((d.isoformat(), f, repr(v)))
            else:
                values[f].add(v)
        if prev is not None:
            for k, fs in pairs.items():
                a = tuple(getattr(prev, f) for f in fs)
                b = tuple(getattr(ci, f) for f in fs)
                if b < a:
                    ndec[k] += 1
                    if len(decreases[k]) < 2:
                        decreases[k].append((dt.date.fromordinal(o - 1).isoformat(), d.isoformat(), a, b))
        prev = ci
    return dict(n=n, values=values, ndec=ndec, decreases=decreases, bad=bad_range[:5])


def enumerate_dates(lo=MIN_ORD, hi=MAX_ORD, jobs=16):
    """Enumerate every date in [lo, hi] (ordinals). Chunks overlap by one day so that
    every consecutive pair is seen."""
    step = max(1, (hi - lo) // (jobs * 8))
    chunks = []
    s = lo
    while s <= hi:
        e = min(hi, s + step)
        chunks.append((s, e))
        if e == hi:
            break
        s = e  # overlap by one day: pair (e-1, e) in this chunk, (e, e+1) in the next
    ctx = mp.get_context("fork")
    with ctx.Pool(jobs) as pool:
        parts = pool.map(_chunk, chunks)
    values = {f: set() for f in CAL_FIELDS}
    ndec, decs, bad = {}, {}, []
    n = 0
    for i, p in enumerate(parts):
        n += p["n"] - (1 if i > 0 else 0)
        for f in CAL_FIELDS:
            values[f] |= p["values"][f]
        for k, v in p["ndec"].items():
            ndec[k] = ndec.get(k, 0) + v
        for k, v in p["decreases"].items():
            decs.setdefault(k, []).extend(v)
        bad.extend(p["bad"])
    return dict(n=n, values=values, ndec=ndec, decreases=decs, bad=bad)
