"""Generator of version patterns from the documented grammar (literal text, parts, nested optional
groups) with the field order the generator knows by construction. Used by the bounded layers of
C02, C05 (_parse_pattern_fields), C15."""
import random

YEAR = ["YYYY", "YY", "0Y"]
ISOYEAR = ["GGGG", "GG", "0G"]
SUB = {"month": ["MM", "0M"], "dom": ["DD", "0D"], "doy": ["JJJ", "00J"], "quarter": ["Q"], "week_w": ["WW", "0W"], "week_u": ["UU", "0U"]}
ISOSUB = {"week_v": ["VV", "0V"]}
FIELD = {
    "YYYY": "year_y", "YY": "year_y", "0Y": "year_y", "GGGG": "year_g", "GG": "year_g", "0G": "year_g", "Q": "quarter", "MM": "month", "0M": "month",
    "DD": "dom", "0D": "dom", "JJJ": "doy", "00J": "doy", "WW": "week_w", "0W": "week_w", "UU": "week_u", "0U": "week_u", "VV": "week_v", "0V": "week_v",
    "MAJOR": "major", "MINOR": "minor", "PATCH": "patch", "BUILD": "bid", "BLD": "bid", "TAG": "tag", "PYTAG": "pytag", "NUM": "num", "INC0": "inc0", "INC1": "inc1",
}
SEPS = [".", "-", "_", "+"]
# literal text that ends in a digit next to a part (e.g. '20YY', 'rel-10MM', '.0MAJOR'): "literal text" of the documented
# grammar; the renderer and the compiler must split such a pattern into the same parts
DIGIT_SEPS = [".0", "-20", "_0", ".1."]
DIGIT_PREFIXES = ["20", "rel-10", "r2", "0", "1"]
LETTER_SEPS = ["w", "d", "q"]


def gen_pattern(rng, pep440_friendly=False):
    """Returns (pattern, [parts in left-to-right order])."""
    parts = []
    kind = rng.choice(["calver", "semver", "mixed", "isoweek"])
    if kind in ("calver", "mixed"):
        parts.append(rng.choice(YEAR))
        sub = rng.choice([None, "month", "monthday", "doy", "quarter", "week_w", "week_u"])
        if sub == "monthday":
            parts += [rng.choice(SUB["month"]), rng.choice(SUB["dom"])]
        elif sub:
            parts.append(rng.choice(SUB[sub]))
    if kind == "isoweek":
        parts += [rng.choice(ISOYEAR), rng.choice(ISOSUB["week_v"])]
    if kind in ("semver", "mixed"):
        n = rng.randint(1, 3)
        parts += ["MAJOR", "MINOR", "PATCH"][:n] if kind == "semver" else rng.sample(["MAJOR", "MINOR", "PATCH"], rng.randint(0, 2))
    if kind != "semver" or rng.random() < 0.4:
        if rng.random() < 0.7:
            parts.append(rng.choice(["BUILD", "BLD"]))
    if rng.random() < 0.3:
        parts.append(rng.choice(["INC0", "INC1"]))
    tagged = rng.random() < 0.6
    # assemble with separators; the tail (tag [num]) goes into optional groups
    prefix = rng.choice(["", "", "v", "ver-", "release "] + ([rng.choice(DIGIT_PREFIXES)] if rng.random() < 0.4 else [])) if not pep440_friendly else rng.choice(["", "v"])
    out = prefix
    order = []
    nopt = 0
    n_required = rng.randint(1, len(parts)) if parts else 0
    for i, p in enumerate(parts):
        sep = "" if i == 0 else (rng.choice(LETTER_SEPS) if FIELD[p] in ("week_w", "week_u", "week_v", "doy", "quarter") and rng.random() < 0.5 and not pep440_friendly else (rng.choice(SEPS + ([rng.choice(DIGIT_SEPS)] if rng.random() < 0.3 else [])) if not pep440_friendly else "."))
        zero_capable = p in ("MAJOR", "MINOR", "PATCH", "INC0", "NUM")
        if i >= n_required and zero_capable and rng.random() < 0.5 and nopt < 3:
            out += "[" + sep + p
            nopt += 1
        else:
            out += sep + p
        order.append(p)
    if tagged:
        tagpart = rng.choice(["TAG", "PYTAG"])
        sep = rng.choice(["-", ".", "", "_"]) if tagpart == "TAG" else rng.choice(["", ".", "-"])
        if pep440_friendly:
            sep = rng.choice(["", "-"]) if tagpart == "TAG" else ""
        with_num = rng.random() < 0.5
        # TAG and NUM may be separated by a dot (1.2.3-rc.1 is a PEP 440 spelling of 1.2.3rc1)
        numsep = "." if (tagpart == "TAG" and rng.random() < 0.25) else ""
        if rng.random() < 0.8 and nopt < 3:
            out += "[" + sep + tagpart + ("[" + numsep + "NUM]" if with_num and rng.random() < 0.5 else (numsep + "NUM" if with_num else "")) + "]"
        else:
            # outside an optional group only TAG is used: a final release renders PYTAG as the empty
            # string, which its own regex does not accept (such a bump is rejected by the gate, C01)
            if tagpart == "PYTAG":
                tagpart = "TAG"
            out += (sep or "-") + tagpart + ("NUM" if with_num else "")
        order = [p for p in order if p not in ("TAG", "PYTAG", "NUM")]
        order.append(tagpart)
        if with_num:
            order.append("NUM")
    out += "]" * nopt
    if not pep440_friendly and rng.random() < 0.2:
        out += rng.choice([" final", "!", " (c)"])
    return out, order


def gen_values(rng):
    import datetime as dt

    d = dt.date.fromordinal(rng.randint(dt.date(2001, 1, 1).toordinal(), dt.date(2099, 12, 31).toordinal()))
    if rng.random() < 0.3:
        d = rng.choice([dt.date(2018, 12, 31), dt.date(2021, 1, 1), dt.date(2021, 1, 3), dt.date(2020, 12, 31), dt.date(2024, 2, 29), dt.date(2026, 1, 1), dt.date(2027, 1, 3)])
    num = lambda: rng.choice([0, 1, 9, 10, 99, 100, 12345])
    tag = rng.choice(["final", "alpha", "beta", "rc", "dev", "post", "preview"])
    return dict(
        # reachable states only: a final version has NUM 0 (changing the tag resets NUM)
        date=d, major=num(), minor=num(), patch=num(), num=(0 if tag == "final" else rng.choice([0, 1, 2, 10])), inc0=num(), inc1=rng.choice([1, 2, 10, 100]),
        bid=rng.choice(["1000", "1001", "0999", "1999", "9998", "22000", "0033", "10999"]), tag=tag,
    )
