"""Sidecar contracts: importing this package registers every contract."""
from . import common  # noqa
from . import lexid_  # noqa
from . import v2version  # noqa
from . import vcs  # noqa
from . import cli  # noqa
from . import rewrite  # noqa
from . import parse_version  # noqa
from . import version_cmp  # noqa
from . import config_init  # noqa
from . import diff  # noqa
from . import rewrite_lines  # noqa
from . import parts  # noqa
from . import v1version  # noqa
from . import version_str  # noqa
from . import config_read  # noqa
from . import parse_overlap  # noqa
from . import parse_matches  # noqa
