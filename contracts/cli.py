"""Contracts on bumpver.cli (C01, C05, C09, C10, C13, C06)."""
import subprocess as sp
import re as _re

import z3

from bumpver import cli, config, version, vcs, rewrite, v1version, v2version

from pyvc.symexec import Val, Exc, ExcVal, fresh_name
from pyvc.abstractions import SymMapped
from .common import *  # noqa
from .common import REG
from .cli_kinds import k_config, FilePatterns
from .v2version import ACCEPTS, TAG_VALUES
from .vcs import KVcsApi, KStrSet

README_TAGS = ("alpha", "beta", "dev", "rc", "post", "final")  # README: valid --tag values

# --------------------------------------------------------------------------- version keys (C16 gives the order laws)
KEY_LE = z3.Function("spec_key_le", z3.StringSort(), z3.StringSort(), z3.BoolSort())
TO_PEP440 = z3.Function("spec_to_pep440", z3.StringSort(), z3.StringSort())


class VerKey:
    """version.parse_version(s): compared only through the total preorder key_le
    (reflexive, transitive, total: obligations of C16)."""

    def __init__(self, s):
        self.s = s

    def __pyvc_cmp__(self, op, other):
        a, b = V.z3str(self.s), V.z3str(other.s)
        return {"<=": KEY_LE(a, b), "<": z3.Not(KEY_LE(b, a)), ">=": KEY_LE(b, a), ">": z3.Not(KEY_LE(a, b))}[op]

    def __pyvc_eq__(self, other):
        a, b = V.z3str(self.s), V.z3str(other.s)
        return z3.And(KEY_LE(a, b), KEY_LE(b, a))


def key_gt(a, b):
    return z3.Not(KEY_LE(V.z3str(a), V.z3str(b)))


def key_le(a, b):
    return KEY_LE(V.z3str(a), V.z3str(b))


def _order_axioms(st, *strings):
    """Instances of the order laws proved in C16 for the strings at hand."""
    ts = [V.z3str(s) for s in strings]
    for x in ts:
        st.assume(KEY_LE(x, x))
        for y in ts:
            st.assume(z3.Or(KEY_LE(x, y), KEY_LE(y, x)))
            for z in ts:
                st.assume(z3.Implies(z3.And(KEY_LE(x, y), KEY_LE(y, z)), KEY_LE(x, z)))


def order_laws():
    """The order laws of the version key (proved for the real comparison code in C16)."""
    x, y, z = z3.Strings("x!ol y!ol z!ol")
    return [
        z3.ForAll([x], KEY_LE(x, x)),
        z3.ForAll([x, y], z3.Or(KEY_LE(x, y), KEY_LE(y, x))),
        z3.ForAll([x, y, z], z3.Implies(z3.And(KEY_LE(x, y), KEY_LE(y, z)), KEY_LE(x, z))),
    ]


def assume_order_laws(a, st):
    for ax in order_laws():
        st.assume(ax)


def _parse_version_hook(ex, a, st, node):
    s = a.version
    st.assume(KEY_LE(V.z3str(s), V.z3str(s)))
    return [Val(VerKey(s), st)]


c = REG.new("bumpver.version.parse_version")
c.param("version", KStr())
c.callee_hook = _parse_version_hook
c.trusted = "C16: the comparison of parse_version results is a total preorder (order laws proved in C16); callers use only that"

c = REG.new("bumpver.version.to_pep440")
c.param("version", KStr())
c.returns(KStr())
c.ensures("C15.to_pep440.function_of_argument", lambda a, res, cx: V.z3str(res) == TO_PEP440(V.z3str(a.version)))
c.trusted = "callers' view: an uninterpreted function of the version string (what it computes is C15/C16)"


# --------------------------------------------------------------------------- argument validation
c = REG.new("bumpver.cli._validate_release_tag")
c.param("tag", KOpt(KStr()))
c.ensures(
    "C05._validate_release_tag.returns_only_for_documented_tags",
    lambda a, res, cx: b_or(v_is_none(a.tag), *[v_eq(V.unwrap_opt(a.tag), t) for t in README_TAGS]),
)
c.exsures(
    SystemExit,
    "C05._validate_release_tag.exit_1_for_other_tags",
    lambda a, exc, cx: b_and(v_eq(exc.args[0], 1), b_not(v_is_none(a.tag)), *[v_ne(V.unwrap_opt(a.tag), t) for t in README_TAGS]),
)


def _flags_ok(a):
    brace = b_and(v_contains("{", a.raw_pattern), v_contains("}", a.raw_pattern))
    ok = b_and(
        b_implies(v_truthy(a.major), v_contains("MAJOR", a.raw_pattern)),
        b_implies(v_truthy(a.minor), v_contains("MINOR", a.raw_pattern)),
        b_implies(v_truthy(a.patch), v_contains("PATCH", a.raw_pattern)),
    )
    return brace, ok


c = REG.new("bumpver.cli._validate_flags")
c.param("raw_pattern", KStr())
c.param("major", KBool())
c.param("minor", KBool())
c.param("patch", KBool())
c.ensures("C05._validate_flags.returns_only_if_every_flag_has_its_part", lambda a, res, cx: b_or(*_flags_ok(a)))
c.exsures(SystemExit, "C05._validate_flags.exit_1_iff_flag_without_part", lambda a, exc, cx: b_and(v_eq(exc.args[0], 1), b_not(_flags_ok(a)[0]), b_not(_flags_ok(a)[1])))


# --------------------------------------------------------------------------- _parse_vcs_options (C10: contradictions rejected)
def _opt_true(v):
    """tri-state flag given and True."""
    return b_and(b_not(v_is_none(v)), v_truthy(V.unwrap_opt(v)))


def _opt_false(v):
    return b_and(b_not(v_is_none(v)), b_not(v_truthy(V.unwrap_opt(v))))


def _vcs_opts_contradiction(a):
    eff_commit = b_ite(v_is_none(a.commit), v_truthy(field(a.cfg, "commit")), v_truthy(V.unwrap_opt(a.commit)))
    return b_or(
        b_and(_opt_false(a.commit), b_or(_opt_true(a.tag_commit), _opt_true(a.push))),
        b_and(b_not(eff_commit), b_or(_opt_true(a.tag_commit), _opt_true(a.push))),
    )


def _vcs_opts_fields(a, res):
    cfg = a.cfg
    cs = []

    def over(fieldname, opt, conv=lambda x: x):
        return v_eq(field(res, fieldname), v_ite(v_is_none(opt), field(cfg, fieldname), conv(V.unwrap_opt(opt))))

    cs.append(over("commit", a.commit))
    cs.append(over("tag", a.tag_commit))
    cs.append(over("push", a.push))
    cs.append(over("pre_commit_hook", a.pre_commit_hook))
    cs.append(over("post_commit_hook", a.post_commit_hook))
    for f in ("current_version", "version_pattern", "pep440_version", "commit_message", "tag_message", "is_new_pattern"):
        cs.append(v_eq(field(res, f), field(cfg, f)))
    cs.append(field(res, "file_patterns") is field(cfg, "file_patterns"))
    return cs


c = REG.new("bumpver.cli._parse_vcs_options")
c.param("cfg", k_config())
c.param("commit", KOpt(KBool()))
c.param("tag_commit", KOpt(KBool()))
c.param("push", KOpt(KBool()))
c.param("tag_scope", KEnum([None] + [e.value for e in config.TagScope]))
c.param("pre_commit_hook", KOpt(KStr()))
c.param("post_commit_hook", KOpt(KStr()))
c.returns(k_config())
c.ensures("C10._parse_vcs_options.returns_only_without_contradiction", lambda a, res, cx: b_not(_vcs_opts_contradiction(a)))
c.ensures("C10._parse_vcs_options.flags_override_config_rest_unchanged", lambda a, res, cx: b_and(*_vcs_opts_fields(a, res)))
c.ensures(
    "C10+C09._parse_vcs_options.tag_scope_override",
    lambda a, res, cx: v_eq(field(res, "tag_scope"), V.v_map(lambda t, old: old if t is None else config.TagScope(t), a.tag_scope, field(a.cfg, "tag_scope"))),
)
c.ensures("C10._parse_vcs_options.no_effects", lambda a, res, cx: all(e[0] == "Log" for e in cx.new))
c.exsures(ValueError, "C10._parse_vcs_options.value_error_iff_contradiction", lambda a, exc, cx: b_and(_vcs_opts_contradiction(a), all(e[0] == "Log" for e in cx.new)))


def _cfg_result_sharing_file_patterns(a, name, assumptions):
    """Callers' view of a function that returns a modified copy of cfg: the file_patterns
    object is the very same one (NamedTuple._replace shares it)."""
    res = k_config().fresh(name, assumptions)
    return res.replace(file_patterns=field(a.cfg, "file_patterns"))


REG["bumpver.cli._parse_vcs_options"].result_builder = _cfg_result_sharing_file_patterns


# --------------------------------------------------------------------------- is_valid (v2/v1) as seen by callers
c = REG.new("bumpver.v2version.is_valid")
c.param("version_str", KStr())
c.param("raw_pattern", KStr())
c.returns(KBool())
# from the property: "tags that do not match never influence or break the result":
# total on compilable patterns, and exactly the acceptance predicate
c.ensures("C09.v2.is_valid.is_the_acceptance_predicate", lambda a, res, cx: b_iff(v_truthy(res), ACCEPTS(V.z3str(a.raw_pattern), V.z3str(a.version_str))))
c.exsures(_re.error)  # malformed pattern text only (config validation rejects those)

ACCEPTS_V1 = z3.Function("spec_accepts_v1", z3.StringSort(), z3.StringSort(), z3.BoolSort())
c = REG.new("bumpver.v1version.is_valid")
c.param("version_str", KStr())
c.param("raw_pattern", KStr())
c.returns(KBool())
c.ensures("C09.v1.is_valid.is_the_acceptance_predicate", lambda a, res, cx: b_iff(v_truthy(res), ACCEPTS_V1(V.z3str(a.raw_pattern), V.z3str(a.version_str))))
c.exsures(_re.error)
c.trusted = "callers' view of the legacy engine; body: contract variant 'body' in contracts/parse_version.py"


def accepts(pattern, s, is_new):
    return b_ite(v_truthy(is_new), ACCEPTS(V.z3str(pattern), V.z3str(s)), ACCEPTS_V1(V.z3str(pattern), V.z3str(s)))


# --------------------------------------------------------------------------- _parse_version_tags
def _pvt_clause(a, res, cx):
    """Order-preserving filter of all_tags by validity for the pattern."""
    if not isinstance(res, SymMapped) or res.root() is not a.all_tags:
        return False
    ex, st = cx.ghost["__ex__"], cx.st
    t = V.sstr("ANY_TAG")
    cx.ghost.setdefault("extra_inputs", {})["any_tag"] = t
    base = st.fork()
    n0 = len(base.pc)
    cs = []
    want = accepts(a.version_pattern, t, a.is_new_pattern)
    for s1, kind, val in res.elementwise(ex, t, base):
        extra = z3.And(*s1.pc[n0:]) if len(s1.pc) > n0 else z3.BoolVal(True)
        if kind == "keep":
            cs.append(z3.Implies(extra, V.to_z3_bool(b_and(want, v_eq(val, t)))))
        elif kind == "drop":
            cs.append(z3.Implies(extra, V.to_z3_bool(b_not(want))))
        else:
            # a tag may break the result only through a malformed pattern (re.error)
            cs.append(z3.Implies(extra, z3.BoolVal(issubclass(val.cls, _re.error))))
    return z3.And(*cs)


c = REG.new("bumpver.cli._parse_version_tags")
c.param("all_tags", KSeq("str"))
c.param("version_pattern", KStr())
c.param("is_new_pattern", KBool())
c.ensures("C09._parse_version_tags.keeps_exactly_the_tags_valid_for_the_pattern", _pvt_clause)
c.exsures(_re.error)  # an uncompilable version pattern (rejected when the config is loaded)
c.inline = True  # callers execute the (one line) body: its element-wise result is what they index and search
c.inline_for_callers = True


# --------------------------------------------------------------------------- tags in scope (C09)
_SEQS = z3.SeqSort(z3.StringSort())
GET_TAGS = z3.Function("spec_get_tags", z3.BoolSort(), _SEQS)  # A-git: the listing is a function of the scope within one run


def scope_is_branch(scope):
    return V.to_z3_bool(v_eq(scope, config.TagScope.BRANCH))


def valid_tag(u, pattern, is_new, is_branch):
    """u is a tag in scope that fully matches the version pattern."""
    return z3.And(z3.Contains(GET_TAGS(is_branch), z3.Unit(V.z3str(u))), V.to_z3_bool(accepts(pattern, u, is_new)))


def no_valid_tag(pattern, is_new, is_branch):
    u = z3.String("u!nv")
    return z3.ForAll([u], z3.Not(valid_tag(u, pattern, is_new, is_branch)))


def greatest_valid_tag(t, pattern, is_new, is_branch):
    u = z3.String("u!gv")
    return z3.And(valid_tag(t, pattern, is_new, is_branch), z3.ForAll([u], z3.Implies(valid_tag(u, pattern, is_new, is_branch), KEY_LE(u, V.z3str(t)))))


# get_tags as seen by callers: the listing of the scope (or [] when no VCS is usable - then GET_TAGS is [])
REG["bumpver.vcs.get_tags"].assume_for_callers(
    "A-git.get_tags.listing_is_function_of_scope (deterministic tag listing within one run)",
    lambda a, res, cx: res.t == GET_TAGS(scope_is_branch(a.scope)),
)


def _gl_clause(a, res, cx):
    p, n, b = field(a.cfg, "version_pattern"), field(a.cfg, "is_new_pattern"), scope_is_branch(field(a.cfg, "tag_scope"))
    if res is None:
        return no_valid_tag(p, n, b)
    if isinstance(res, SOpt):
        return b_ite(res.isnone, no_valid_tag(p, n, b), greatest_valid_tag(res.val, p, n, b))
    return greatest_valid_tag(res, p, n, b)


def _gl_effects(a, st, outcome):
    st.emit("GetTags", a.fetch, field(a.cfg, "tag_scope"), outcome)


c = REG.new("bumpver.cli.get_latest_vcs_version_tag")
c.setup = assume_order_laws
c.param("cfg", k_config())
c.param("fetch", KBool())
c.returns(KOpt(KStr()))
c.effects = _gl_effects
# README scope table: the greatest VCS tag in scope that fully matches the pattern, None if there is none
c.ensures("C09.get_latest_vcs_version_tag.greatest_matching_tag_in_scope_or_none", _gl_clause)
c.ensures(
    "C09+C10.get_latest_vcs_version_tag.one_listing_with_cfg_scope_and_fetch_flag",
    lambda a, res, cx: (lambda ev: len(ev) == 1 and b_and(v_eq(ev[0][1], a.fetch), v_eq(ev[0][2], field(a.cfg, "tag_scope"))))([e for e in cx.new if e[0] == "GetTags"]),
    internal=True,
)
c.exsures(sp.CalledProcessError)
c.exsures(_re.error)


# _update_cfg_from_vcs: the start version
def _start_clause(a, res, cx):
    cfg = a.cfg
    p, n = field(cfg, "version_pattern"), field(cfg, "is_new_pattern")
    scope = field(cfg, "tag_scope")
    b = scope_is_branch(scope)
    cur0, cur1 = field(cfg, "current_version"), field(res, "current_version")
    u = z3.String("u!st")
    all_below = z3.ForAll([u], z3.Implies(valid_tag(u, p, n, b), KEY_LE(u, V.z3str(cur1))))
    default_rule = z3.And(
        all_below,
        KEY_LE(V.z3str(cur0), V.z3str(cur1)),
        z3.Or(V.to_z3_bool(v_eq(cur1, cur0)), valid_tag(cur1, p, n, b)),
    )
    other_rule = z3.Or(
        z3.And(no_valid_tag(p, n, b), V.to_z3_bool(v_eq(cur1, cur0))),
        greatest_valid_tag(cur1, p, n, b),
    )
    return b_ite(v_eq(scope, config.TagScope.DEFAULT), default_rule, other_rule)


def _start_frame(a, res, cx):
    cfg = a.cfg
    same = [v_eq(field(res, f), field(cfg, f)) for f in ("version_pattern", "commit_message", "tag_message", "tag_scope", "pre_commit_hook", "post_commit_hook", "commit", "tag", "push", "is_new_pattern")]
    same.append(field(res, "file_patterns") is field(cfg, "file_patterns"))
    changed = v_ne(field(res, "current_version"), field(cfg, "current_version"))
    same.append(b_implies(changed, V.z3str(field(res, "pep440_version")) == TO_PEP440(V.z3str(field(res, "current_version")))))
    same.append(b_implies(b_not(changed), b_or(v_eq(field(res, "pep440_version"), field(cfg, "pep440_version")), V.z3str(field(res, "pep440_version")) == TO_PEP440(V.z3str(field(res, "current_version"))))))
    return b_and(*same)


def _ucfv_setup(a, st):
    pass


c = REG.new("bumpver.cli._update_cfg_from_vcs")
c.result_builder = _cfg_result_sharing_file_patterns
c.setup = assume_order_laws
c.param("cfg", k_config())
c.param("fetch", KBool())
c.returns(k_config())
c.effects = _gl_effects
c.ensures("C09+C01+C08._update_cfg_from_vcs.start_version_per_scope_rule", _start_clause)
c.ensures("C09._update_cfg_from_vcs.only_version_fields_change", _start_frame)
c.ensures(
    "C09+C10._update_cfg_from_vcs.one_listing_with_cfg_scope_and_fetch_flag",
    lambda a, res, cx: (lambda ev: len(ev) == 1 and b_and(v_eq(ev[0][1], a.fetch), v_eq(ev[0][2], field(a.cfg, "tag_scope"))))([e for e in cx.new if e[0] == "GetTags"]),
    internal=True,
)
c.exsures(sp.CalledProcessError)
c.exsures(_re.error)


# --------------------------------------------------------------------------- _is_valid_version: the gate (C01, C09)
def _gate_clause(a, res, cx):
    is_new = b_and(b_not(v_contains("{", a.raw_pattern)), b_not(v_contains("}", a.raw_pattern)))
    acc = b_ite(is_new, ACCEPTS(V.z3str(a.raw_pattern), V.z3str(a.new_version)), ACCEPTS_V1(V.z3str(a.raw_pattern), V.z3str(a.new_version)))
    uniq = b_not(valid_tag(a.new_version, a.raw_pattern, V._wrapb(is_new) if not isinstance(is_new, bool) else is_new, z3.BoolVal(False)))
    return b_implies(
        v_truthy(res),
        b_and(acc, key_gt(a.new_version, a.old_version), b_implies(v_truthy(a.unique), uniq)),
    )


def _gate_effects(a, st, outcome):
    st.emit("Gate", a.raw_pattern, a.old_version, a.new_version, a.unique, outcome)


c = REG.new("bumpver.v1version.parse_version_info")
c.param("version_str", KStr())
c.param("raw_pattern", KStr())
c.returns(KOpaque("V1VersionInfo"))
c.ensures("C20.v1.parse_version_info.returns_only_if_accepted", lambda a, res, cx: ACCEPTS_V1(V.z3str(a.raw_pattern), V.z3str(a.version_str)))
c.exsures(version.PatternError, "C20.v1.parse_version_info.pattern_error_iff_not_accepted", lambda a, exc, cx: z3.Not(ACCEPTS_V1(V.z3str(a.raw_pattern), V.z3str(a.version_str))))
c.exsures(_re.error)
c.trusted = "callers' view of the legacy parser; body: contract variant 'body' in contracts/parse_version.py"

c = REG.new("bumpver.cli._is_valid_version")
c.setup = assume_order_laws
c.param("raw_pattern", KStr())
c.param("old_version", KStr())
c.param("new_version", KStr())
c.param("unique", KBool())
c.returns(KBool())
c.effects = _gate_effects
# from the property: "matches the configured version pattern in full and is strictly greater, under
# PEP 440 ordering, than the version it started from"; "never equals an existing tag on any branch"
c.ensures("C01+C09._is_valid_version.true_only_if_accepted_strictly_greater_and_unique", _gate_clause)
c.ensures(
    "C01+C10._is_valid_version.reads_tags_without_fetching_writes_nothing",
    lambda a, res, cx: all(e[0] in ("Log", "CallResult") or (e[0] == "GetTags" and e[1] is False) for e in cx.new),
    internal=True,
)
c.exsures(sp.CalledProcessError, "C01._is_valid_version.vcs_failure_writes_nothing", lambda a, exc, cx: all(e[0] != "Write" for e in cx.new), internal=True)
c.exsures(_re.error)
c.exsures(ValueError)


# --------------------------------------------------------------------------- small helpers of the commands
def _noop_hook(ex, a, st, node):
    return [Val(None, st)]


c = REG.new("bumpver.cli._configure_logging")
c.callee_hook = _noop_hook
c.trusted = "A-log: logging configuration has no effect on files, VCS or the exit status"

c = REG.new("bumpver.cli._log_no_change", inline=True)

DATE_OK = z3.Function("spec_is_iso_date", z3.StringSort(), z3.BoolSort())


def _validate_date_hook(ex, a, st, node):
    """A-lib: strptime either yields a date or raises ValueError; --date and --pin-date exclude each other."""
    out = []
    date, pin = a.date, a.pin_date
    both = b_and(v_truthy(date), v_truthy(pin))
    t, f = ex.split(both, st)
    if t is not None:
        out.append(Exc(ExcVal(SystemExit, (1,)), t))
    if f is None:
        return out
    n, nn = ex.split(v_is_none(date), f)
    if n is not None:
        out.append(Val(None, n))
    if nn is not None:
        bad = nn.fork()
        bad.assume(z3.Not(DATE_OK(V.z3str(V.unwrap_opt(date)))))
        out.append(Exc(ExcVal(SystemExit, (1,)), bad))
        nn.assume(DATE_OK(V.z3str(V.unwrap_opt(date))))
        out.append(Val(SOpt(z3.BoolVal(False), V.sint(fresh_name("date_ordinal"))), nn))
    return out


c = REG.new("bumpver.cli._validate_date")
c.param("date", KOpt(KStr()))
c.param("pin_date", KBool())
c.callee_hook = _validate_date_hook
c.trusted = "A-lib (datetime.strptime): a date or ValueError -> exit 1; the function's own two branches are covered by the hook's shape"

SUBMSG = z3.Function("spec_sub_msg_template", z3.StringSort(), z3.StringSort())
c = REG.new("bumpver.cli._sub_msg_template")
c.param("message", KStr())
c.returns(KStr())
c.ensures("C12._sub_msg_template.function_of_argument", lambda a, res, cx: V.z3str(res) == SUBMSG(V.z3str(a.message)))
c.trusted = "callers' view (uninterpreted); the OLD/NEW substitution itself is checked in checks/c12.py (X on a word-boundary table)"


# incr_dispatch as seen by the commands
def _incr_effects(a, st, outcome):
    st.emit("Incr", a.old_version, a.raw_pattern, outcome)


c = REG.new("bumpver.cli.incr_dispatch")
c.param("old_version", KStr())
c.param("raw_pattern", KStr())
for _p in ("major", "minor", "patch", "tag_num", "pin_increments", "pin_date"):
    c.param(_p, KBool())
c.param("tag", KEnum((None,) + TAG_VALUES))
c.param("maybe_date", KOpt(KInt()))
c.returns(KOpt(KStr()))
c.effects = _incr_effects
c.ensures("C01.incr_dispatch.none_or_changed", lambda a, res, cx: b_or(v_is_none(res), v_ne(V.unwrap_opt(res), a.old_version)))
c.ensures("C01+C13.incr_dispatch.computes_only", lambda a, res, cx: all(e[0] in ("Log", "CallResult", "IncrEngine") for e in cx.new), internal=True)
c.exsures(OverflowError)
c.exsures(ValueError)
c.exsures(_re.error)
c.exsures(NotImplementedError)
c.exsures(KeyError)
c.exsures(IndexError)


# config.init as seen by the commands: (ctx, cfg or None); reads configuration files only
def _config_init_hook(ex, a, st, node):
    from .cli_kinds import k_config

    st.emit("ConfigInit")
    out = []
    s_none = st.fork()
    from pyvc.models import PathVal

    cassume = []
    ctx = SRec(
        config.ProjectContext,
        dict(path=PathVal(V.sstr(fresh_name("ctx.path"))), config_filepath=PathVal(V.sstr(fresh_name("ctx.config_filepath"))), config_rel_path=V.sstr(fresh_name("ctx.config_rel_path")), config_format=KEnum(("toml", "cfg")).fresh(fresh_name("ctx.config_format"), cassume), vcs_type=None),
    )
    for x in cassume:
        st.assume(x)
        s_none.assume(x)
    out.append(Val((ctx, None), s_none))
    assumptions = []
    cfg = k_config().fresh(fresh_name("cfg"), assumptions)
    for x in assumptions:
        st.assume(x)
    # config invariants established by config._parse_config (contracts/config.py):
    st.assume(b_implies(v_truthy(field(cfg, "tag")), v_truthy(field(cfg, "commit"))))
    st.assume(b_implies(v_truthy(field(cfg, "push")), v_truthy(field(cfg, "commit"))))
    st.assume(b_iff(v_truthy(field(cfg, "is_new_pattern")), b_and(b_not(v_contains("{", field(cfg, "version_pattern"))), b_not(v_contains("}", field(cfg, "version_pattern"))))))
    st.emit("CallResult", "bumpver.config.init", cfg, a)
    out.append(Val((ctx, cfg), st))
    return out


c = REG.new("bumpver.config.init")
c.callee_hook = _config_init_hook
c.trusted = "callers' view: a validated Config (tag/push imply commit; is_new_pattern iff no brace in the pattern) or None; only reads"


# --------------------------------------------------------------------------- _print_diff (callers' view; body: C13 below)
def _diff_effects(a, st, outcome):
    st.emit("Diff", a.cfg, a.new_version, outcome)


c = REG.new("bumpver.cli._print_diff")
c.param("cfg", k_config())
c.param("new_version", KStr())
c.effects = _diff_effects
c.exsures(SystemExit, "C13._print_diff.failure_exits_1", lambda a, exc, cx: v_eq(exc.args[0], 1))
c.exsures(version.PatternError)
c.exsures(_re.error)
c.exsures(ValueError)
c.exsures(KeyError)
c.exsures(IndexError)
c.trusted = "callers' view; the diff path itself is C13 (contracts/diff.py)"


# --------------------------------------------------------------------------- _update: dirty check, rewrite, commit (C10, C11, C06)
def _phases(cx):
    """High-level phases in log order."""
    out = []
    for e in cx.new:
        if e[0] in ("Probe", "ProbeFailed"):
            out.append(("probe", e))
        elif e[0] == "VcsStep" and e[1] == "dirty_check":
            out.append(("dirty_check", e))
        elif e[0] == "RewritePhase":
            out.append(("rewrite", e))
        elif e[0] == "CommitPhase":
            out.append(("commit", e))
        elif e[0] in ("Write", "Vcs", "Hook", "Popen", "Exec", "VcsStep"):
            out.append(("raw", e))
    return out


PHASE_ORDER = ("probe", "dirty_check", "rewrite", "commit")


def _update_clause(raised):
    def fn(a, res, cx):
        ph = _phases(cx)
        kinds = [k for k, _ in ph]
        if "raw" in kinds:
            return False
        idx = [PHASE_ORDER.index(k) for k in kinds]
        if any(i >= j for i, j in zip(idx, idx[1:])):
            return False  # documented order: dirty check, file rewrite, then the commit phase
        cs = []
        commit_cfg = v_truthy(field(a.cfg, "commit"))
        ev = dict(ph)
        if "probe" in ev:
            cs.append(commit_cfg)  # the VCS is only looked for when committing
        if "dirty_check" in ev:
            if "probe" not in ev or ev["probe"][0] != "Probe":
                return False
            cs.append(commit_cfg)
        if "commit" in ev:
            # commit phase only after a dirty check that passed and a rewrite that succeeded
            if "dirty_check" not in ev or ev["dirty_check"][2] != "return":
                return False
            if "rewrite" not in ev or ev["rewrite"][2] != "return":
                return False
            c_args = ev["commit"][2]
            cs += [v_eq(c_args.new_version, a.new_version), v_eq(c_args.commit_message, a.commit_message), v_eq(c_args.tag_message, a.tag_message), c_args.cfg is a.cfg]
        if "rewrite" in ev:
            cs += [ev["rewrite"][3] is field(a.cfg, "file_patterns")]
            # ... with the parsed NEW version (the same arguments the diff path uses: C13)
            parsed = [x for x in cx.new if x[0] == "CallResult" and x[1].endswith("parse_version_info")]
            cs.append(len(parsed) >= 1 and ev["rewrite"][4] is parsed[-1][2] and parsed[-1][3].version_str is a.new_version)
            cs.append(b_iff(ev["rewrite"][1] == "v2", v_truthy(field(a.cfg, "is_new_pattern"))))
            if "dirty_check" in ev and ev["dirty_check"][2] != "return":
                return False  # never rewrite after a failed dirty check
        if not raised:
            # normal return: the files were rewritten; committed iff a VCS was found while commit is on
            if "rewrite" not in ev or ev["rewrite"][2] != "return":
                return False
            if "probe" in ev and ev["probe"][0] == "Probe" and "commit" not in ev:
                return False
            cs.append(b_implies(commit_cfg, "probe" in ev))
        return b_and(*cs)

    return fn


def _update_exit(a, exc, cx):
    return b_and(v_eq(exc.args[0], 1), _update_clause(True)(a, None, cx))


def _update_effects(a, st, outcome):
    st.emit("UpdatePhase", outcome, a)


c = REG.new("bumpver.cli._update")
c.param("cfg", k_config())
c.param("new_version", KStr())
c.param("commit_message", KStr())
c.param("tag_message", KStr())
c.param("allow_dirty", KBool())
c.effects = _update_effects
c.ensures("C10+C11+C06+C08._update.dirty_check_then_rewrite_then_commit_each_only_after_success", _update_clause(False), internal=True)
c.exsures(SystemExit, "C10+C11+C06._update.exit_1_keeps_phase_order_nothing_after_failure", _update_exit, internal=True)
c.exsures(SystemExit, "C10._update.exit_status_1", lambda a, exc, cx: v_eq(exc.args[0], 1))
for _E in (sp.CalledProcessError, OSError, version.PatternError, AssertionError, _re.error, ValueError):
    c.exsures(_E, f"C10+C06._update.{_E.__name__}_keeps_phase_order_nothing_after_failure", lambda a, exc, cx: _update_clause(True)(a, None, cx), internal=True)

c = REG.new("bumpver.cli._try_update")
c.param("cfg", k_config())
c.param("new_version", KStr())
c.param("commit_message", KStr())
c.param("tag_message", KStr())
c.param("allow_dirty", KBool())
c.effects = _update_effects


def _try_update_ok(a, cx):
    ev = [e for e in cx.new if e[0] == "UpdatePhase"]
    if len(ev) != 1:
        return False
    ua = ev[0][2]
    return b_and(ua.cfg is a.cfg, v_eq(ua.new_version, a.new_version), v_eq(ua.commit_message, a.commit_message), v_eq(ua.tag_message, a.tag_message), v_eq(ua.allow_dirty, a.allow_dirty))


c.exsures(SystemExit, "C10._try_update.exit_status_1", lambda a, exc, cx: v_eq(exc.args[0], 1))
c.ensures("C10._try_update.runs_update_once_with_same_arguments", lambda a, res, cx: _try_update_ok(a, cx), internal=True)
c.exsures(SystemExit, "C10+C06._try_update.vcs_command_failure_exits_1", lambda a, exc, cx: b_and(v_eq(exc.args[0], 1), _try_update_ok(a, cx)), internal=True)
for _E in (OSError, version.PatternError, AssertionError, _re.error, ValueError):
    c.exsures(_E, f"C10._try_update.{_E.__name__}_after_single_update", lambda a, exc, cx: _try_update_ok(a, cx), internal=True)


# --------------------------------------------------------------------------- the commands: test and update
FORMAT_MSG = z3.Function("spec_format_message", z3.StringSort(), z3.StringSort(), z3.StringSort(), z3.StringSort(), z3.StringSort(), z3.StringSort())


def _symbolic_format_hook(models, ex, tmpl, args, kwargs, st, node):
    """str.format of a *symbolic* message template with the six documented keys: an
    uninterpreted function of the template and the four distinct values (A-str: format inserts
    argument text verbatim); a malformed template raises (KeyError / IndexError / ValueError)."""
    keys = set(kwargs)
    want = {"new_version", "old_version", "NEW_VERSION", "OLD_VERSION", "new_version_pep440", "old_version_pep440"}
    if args or keys != want:
        from pyvc.symexec import Unsupported

        raise Unsupported("format of a symbolic template with unexpected arguments")
    st.emit("FormatMsg", tmpl, dict(kwargs))
    out = []
    for cls in (KeyError, IndexError, ValueError):
        out.append(Exc(ExcVal(cls, (V.sstr(fresh_name("excmsg")),)), st.fork()))
    same = b_and(v_eq(kwargs["NEW_VERSION"], kwargs["new_version"]), v_eq(kwargs["OLD_VERSION"], kwargs["old_version"]))
    res = SStr(FORMAT_MSG(V.z3str(tmpl), V.z3str(kwargs["new_version"]), V.z3str(kwargs["old_version"]), V.z3str(kwargs["new_version_pep440"]), V.z3str(kwargs["old_version_pep440"])))
    st.ghost.setdefault("format_same_upper", []).append(same)
    out.append(Val(res, st))
    return out


def _cmd_setup(a, st):
    st.ghost["symbolic_format_hook"] = _symbolic_format_hook


def _ev(cx, kind):
    return [e for e in cx.new if e[0] == kind]


def _start_cfg(a, cx):
    """The configuration update works with after the VCS options and the tag scope rule."""
    starts = [e for e in cx.new if e[0] == "CallResult" and e[1] == "bumpver.cli._update_cfg_from_vcs"]
    opts = [e for e in cx.new if e[0] == "CallResult" and e[1] == "bumpver.cli._parse_vcs_options"]
    if starts:
        return starts[-1][2]
    if opts:
        return opts[-1][2]
    return None


def _update_common(a, cx, need_gate):
    """Facts every outcome of `update` must satisfy. Returns list of bool-ish or None if malformed."""
    cs = []
    gates = _ev(cx, "Gate")
    diffs = _ev(cx, "Diff")
    phases = _ev(cx, "UpdatePhase")
    raw = [e for e in cx.new if e[0] in ("Write", "Vcs", "VcsStep", "Hook", "Popen", "Exec", "RewritePhase", "CommitPhase")]
    if raw or len(gates) > 1 or len(diffs) > 1 or len(phases) > 1:
        return None
    cfg = _start_cfg(a, cx)
    if (diffs or phases) and (not gates or cfg is None):
        return None  # nothing is shown or changed without passing the gate
    if gates:
        g = gates[0]
        if cfg is None:
            return None
        old = field(cfg, "current_version")
        # the gate compares against the start version (C09) with the configured pattern
        cs += [v_eq(g[1], field(cfg, "version_pattern")), v_eq(g[2], old)]
        uniq_expected = b_or(v_eq(field(cfg, "tag_scope"), config.TagScope.BRANCH), b_not(v_is_none(a.set_version)))
        cs.append(b_iff(v_truthy(g[4]), uniq_expected))
        cs.append(b_implies(b_not(v_is_none(a.set_version)), v_eq(g[3], V.unwrap_opt(a.set_version))))
        for d in diffs:
            cs += [v_eq(d[2], g[3]), d[1] is cfg or v_eq(d[1], cfg)]
        for p in phases:
            ua = p[2]
            cs += [v_eq(ua.new_version, g[3]), ua.cfg is cfg or v_eq(ua.cfg, cfg), v_eq(ua.allow_dirty, a.allow_dirty)]
        if diffs or phases:
            # gate passed: ordering in the log
            order = [e[0] for e in cx.new if e[0] in ("Gate", "Diff", "UpdatePhase")]
            if order != sorted(order, key=("Gate", "Diff", "UpdatePhase").index):
                return None
    # --dry: no update phase at all
    if phases:
        cs.append(b_not(v_truthy(a.dry)))
    if diffs:
        cs.append(b_or(v_truthy(a.dry), v_cmp(">=", a.verbose, 2)))
    # --no-fetch never fetches; --ignore-vcs-tag skips the tag lookup
    for e in _ev(cx, "GetTags"):
        cs.append(b_implies(v_truthy(e[1]) if not isinstance(e[1], bool) else e[1], v_truthy(a.fetch)))
    starts = [e for e in cx.new if e[0] == "CallResult" and e[1] == "bumpver.cli._update_cfg_from_vcs"]
    if starts:
        cs.append(b_not(v_truthy(a.ignore_vcs_tag)))
        # the tag lookup works on the configuration *after* the command-line VCS options
        # (--tag-scope etc.) were applied: its argument is the result of _parse_vcs_options
        opts_ = [e for e in cx.new if e[0] == "CallResult" and e[1] == "bumpver.cli._parse_vcs_options"]
        if len(opts_) != 1 or len(starts) != 1 or starts[0][3].cfg is not opts_[0][2]:
            return None
        if cx.new.index(opts_[0]) > cx.new.index(starts[0]):
            return None
    elif gates:
        cs.append(v_truthy(a.ignore_vcs_tag))
    # messages: templates rendered with the documented keys bound to start and new version
    fm = _ev(cx, "FormatMsg")
    for e in fm:
        kw = e[2]
        if not gates or cfg is None:
            return None
        g = gates[0]
        cs += [v_eq(kw["new_version"], g[3]), v_eq(kw["NEW_VERSION"], g[3]), v_eq(kw["old_version"], g[2]), v_eq(kw["OLD_VERSION"], g[2])]
        cs += [V.z3str(kw["new_version_pep440"]) == TO_PEP440(V.z3str(g[3])), V.z3str(kw["old_version_pep440"]) == TO_PEP440(V.z3str(g[2]))]
    if phases:
        if len(fm) != 2 or cfg is None:
            return None
        ua = phases[0][2]
        ctmpl = v_ite(v_is_none(a.commit_message), field(cfg, "commit_message"), SStr(SUBMSG(V.z3str(V.unwrap_opt(a.commit_message)))))
        ttmpl = v_ite(v_is_none(a.tag_message), field(cfg, "tag_message"), SStr(SUBMSG(V.z3str(V.unwrap_opt(a.tag_message)))))
        cs += [v_eq(fm[0][1], ctmpl), v_eq(fm[1][1], ttmpl)]
        g = gates[0]
        pn, po = TO_PEP440(V.z3str(g[3])), TO_PEP440(V.z3str(g[2]))
        cs.append(V.z3str(ua.commit_message) == FORMAT_MSG(V.z3str(ctmpl), V.z3str(g[3]), V.z3str(g[2]), pn, po))
        cs.append(V.z3str(ua.tag_message) == FORMAT_MSG(V.z3str(ttmpl), V.z3str(g[3]), V.z3str(g[2]), pn, po))
    return cs


def _update_return(a, res, cx):
    cs = _update_common(a, cx, True)
    if cs is None:
        return False
    gates = _ev(cx, "Gate")
    phases = _ev(cx, "UpdatePhase")
    if len(gates) != 1 or gates[0][5] != "return":
        return False  # exit 0 only after the gate was evaluated...
    cs.append(v_truthy([e for e in cx.new if e[0] == "CallResult" and e[1] == "bumpver.cli._is_valid_version"][-1][2]))  # ...and passed
    # a real run did the update phase, a dry run did not
    cs.append(b_iff(len(phases) == 1, b_not(v_truthy(a.dry))))
    # a dry run goes through everything the real run does before the update phase - in particular both
    # message templates are rendered - so that a dry exit 0 cannot hide a failure of the real run (C13)
    if len(_ev(cx, "FormatMsg")) != 2:
        return False
    if phases and phases[0][1] != "return":
        return False
    return b_and(*cs)


def _update_raise(a, exc, cx):
    cs = _update_common(a, cx, False)
    if cs is None:
        return False
    if issubclass(exc.cls, SystemExit):
        cs.append(v_ne(exc.args[0], 0))  # never exit 0 through sys.exit
    return b_and(*cs)


def _update_contract():
    c = REG.new("bumpver.cli.update")
    c.setup = _cmd_setup
    for p in ("dry", "allow_dirty", "ignore_vcs_tag", "fetch", "major", "minor", "patch", "tag_num", "pin_increments", "pin_date"):
        c.param(p, KBool())
    c.param("verbose", KInt(ge=0))
    c.param("tag", KOpt(KStr()))
    c.param("date", KOpt(KStr()))
    c.param("set_version", KOpt(KStr()))
    c.param("commit_message", KOpt(KStr()))
    c.param("tag_message", KOpt(KStr()))
    c.param("commit", KOpt(KBool()))
    c.param("tag_commit", KOpt(KBool()))
    c.param("push", KOpt(KBool()))
    c.param("tag_scope", KEnum([None] + [e.value for e in config.TagScope]))
    c.param("pre_commit_hook", KOpt(KStr()))
    c.param("post_commit_hook", KOpt(KStr()))
    c.ensures("C01+C06+C08+C09+C10+C12+C13.update.exit_0_only_through_gate_dry_changes_nothing_messages_rendered", _update_return, internal=True)
    for E in (SystemExit, sp.CalledProcessError, OSError, version.PatternError, AssertionError, _re.error, ValueError, KeyError, IndexError, OverflowError, NotImplementedError):
        c.exsures(E, f"C01+C06+C10+C13.update.failure_{E.__name__}_nonzero_exit_nothing_past_the_gate", _update_raise, internal=True)
    return c


_update_contract()


def _test_return(a, res, cx):
    """`bumpver test` exits 0: the announced version passed the gate against old_version/pattern."""
    gates = _ev(cx, "Gate")
    outs = [e for e in cx.new if e[0] == "Out"]
    raw = [e for e in cx.new if e[0] in ("Write", "Vcs", "VcsStep", "Hook", "Popen", "Exec", "RewritePhase", "CommitPhase", "UpdatePhase", "ConfigInit")]
    if raw or len(gates) != 1 or gates[0][5] != "return" or not outs:
        return False
    g = gates[0]
    passed = v_truthy([e for e in cx.new if e[0] == "CallResult" and e[1] == "bumpver.cli._is_valid_version"][-1][2])
    announced = outs[0][1][0]
    cs = [passed, v_eq(g[1], a.pattern), v_eq(g[2], a.old_version), v_eq(announced, v_arith("+", "New Version: ", g[3]))]
    cs.append(b_implies(b_not(v_is_none(a.set_version)), v_eq(g[3], V.unwrap_opt(a.set_version))))
    return b_and(*cs)


def _test_raise(a, exc, cx):
    raw = [e for e in cx.new if e[0] in ("Write", "Vcs", "VcsStep", "Hook", "Popen", "Exec", "RewritePhase", "CommitPhase", "UpdatePhase")]
    if raw:
        return False
    if any(e[0] == "Out" for e in cx.new):
        return False  # nothing is announced on a failing run
    if issubclass(exc.cls, SystemExit):
        return v_ne(exc.args[0], 0)
    return True


c = REG.new("bumpver.cli.test")
c.param("old_version", KStr())
c.param("pattern", KStr())
c.param("verbose", KInt(ge=0))
for _p in ("major", "minor", "patch", "tag_num", "pin_increments", "pin_date"):
    c.param(_p, KBool())
c.param("tag", KOpt(KStr()))
c.param("date", KOpt(KStr()))
c.param("set_version", KOpt(KStr()))
c.ensures("C01.test.exit_0_only_through_gate_announces_that_version", _test_return, internal=True)
for _E in (SystemExit, sp.CalledProcessError, OSError, version.PatternError, _re.error, ValueError, KeyError, IndexError, OverflowError, NotImplementedError):
    c.exsures(_E, f"C01.test.failure_{_E.__name__}_nonzero_exit_no_announcement_no_write", _test_raise, internal=True)


# --------------------------------------------------------------------------- incr_dispatch body: engine choice (C20) and pass-through (C01)
from bumpver import v1patterns  # noqa: E402

DOCUMENTED_V1_PARTS = ("pycalver", "semver", "year", "month", "dom", "doy", "quarter", "build_no", "release", "MAJOR", "MINOR", "PATCH", "pep440_pycalver", "pep440_version", "build", "yy", "yyyy", "iso_week", "us_week", "release_tag", "bid", "BID", "tag", "pep440_tag")


def _engine_effects(name):
    def eff(a, st, outcome):
        st.emit("IncrEngine", name, a.old_version, a.raw_pattern, outcome)

    return eff


REG["bumpver.v2version.incr"].effects = _engine_effects("v2")

c = REG.new("bumpver.v1version.incr")
c.param("old_version", KStr())
c.param("raw_pattern", KStr())
c.returns(KOpt(KStr()))
c.effects = _engine_effects("v1")
c.ensures("C20+C01.v1.incr.none_or_changed", lambda a, res, cx: b_or(v_is_none(res), v_ne(V.unwrap_opt(res), a.old_version)))
c.exsures(OverflowError)
c.exsures(NotImplementedError)
c.exsures(ValueError)
c.exsures(KeyError)
c.exsures(IndexError)
c.exsures(_re.error)
c.trusted = "callers' view of the legacy bump (C20)"


def _dispatch_clause(a, res, cx):
    eng = [e for e in cx.new if e[0] == "IncrEngine"]
    if len(eng) != 1:
        return False
    e = eng[0]
    used_v1 = e[1] == "v1"
    has_brace = b_or(v_contains("{", a.raw_pattern), v_contains("}", a.raw_pattern))
    has_doc_part = b_or(*[v_contains("{" + p + "}", a.raw_pattern) for p in DOCUMENTED_V1_PARTS])
    cs = [v_eq(e[2], a.old_version), v_eq(e[3], a.raw_pattern)]
    # the legacy engine is used for every pattern with a documented legacy part, and only for patterns
    # that the gate (_is_valid_version) and the config loader also treat as legacy (a brace occurs)
    cs.append(b_implies(has_doc_part, used_v1))
    cs.append(b_implies(used_v1, has_brace))
    return b_and(*cs)


c = REG["bumpver.cli.incr_dispatch"]
c.ensures("C20.incr_dispatch.engine_choice_agrees_with_gate_and_config_loader", _dispatch_clause, internal=True)
for _cls in list(c.exsures_):
    c.exsures(_cls, f"C20.incr_dispatch.engine_choice_on_failure_{_cls.__name__}", _dispatch_clause, internal=True)
