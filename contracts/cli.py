"""Contracts on bumpver.cli (C01, C05, C09, C10, C13, C06)."""
import subprocess as sp
import re as _re

import z3

from bumpver import cli, config, version, vcs, rewrite, v1version, v2version

from pyvc.symexec import Val, Exc, ExcVal, fresh_name
from pyvc.abstractions import SymMapped
from .common import *  # noqa
from .common import REG
from .cli_kinds import k_config, FilePatterns
from .v2version import ACCEPTS, TAG_VALUES
from .vcs import KVcsApi, KStrSet

README_TAGS = ("alpha", "beta", "dev", "rc", "post", "final")  # README: valid --tag values

# --------------------------------------------------------------------------- version keys (C16 gives the order laws)
KEY_LE = z3.Function("spec_key_le", z3.StringSort(), z3.StringSort(), z3.BoolSort())
TO_PEP440 = z3.Function("spec_to_pep440", z3.StringSort(), z3.StringSort())


class VerKey:
    """version.parse_version(s): compared only through the total preorder key_le
    (reflexive, transitive, total: obligations of C16)."""

    def __init__(self, s):
        self.s = s

    def __pyvc_cmp__(self, op, other):
        a, b = V.z3str(self.s), V.z3str(other.s)
        return {"<=": KEY_LE(a, b), "<": z3.Not(KEY_LE(b, a)), ">=": KEY_LE(b, a), ">": z3.Not(KEY_LE(a, b))}[op]

    def __pyvc_eq__(self, other):
        a, b = V.z3str(self.s), V.z3str(other.s)
        return z3.And(KEY_LE(a, b), KEY_LE(b, a))


def key_gt(a, b):
    return z3.Not(KEY_LE(V.z3str(a), V.z3str(b)))


def key_le(a, b):
    return KEY_LE(V.z3str(a), V.z3str(b))


def _order_axioms(st, *strings):
    """Instances of the order laws proved in C16 for the strings at hand."""
    ts = [V.z3str(s) for s in strings]
    for x in ts:
        st.assume(KEY_LE(x, x))
        for y in ts:
            st.assume(z3.Or(KEY_LE(x, y), KEY_LE(y, x)))
            for z in ts:
                st.assume(z3.Implies(z3.And(KEY_LE(x, y), KEY_LE(y, z)), KEY_LE(x, z)))


def order_laws():
    """The order laws of the version key (proved for the real comparison code in C16)."""
    x, y, z = z3.Strings("x!ol y!ol z!ol")
    return [
        z3.ForAll([x], KEY_LE(x, x)),
        z3.ForAll([x, y], z3.Or(KEY_LE(x, y), KEY_LE(y, x))),
        z3.ForAll([x, y, z], z3.Implies(z3.And(KEY_LE(x, y), KEY_LE(y, z)), KEY_LE(x, z))),
    ]


def assume_order_laws(a, st):
    for ax in order_laws():
        st.assume(ax)


def _parse_version_hook(ex, a, st, node):
    s = a.version
    st.assume(KEY_LE(V.z3str(s), V.z3str(s)))
    return [Val(VerKey(s), st)]


c = REG.new("bumpver.version.parse_version")
c.param("version", KStr())
c.callee_hook = _parse_version_hook
c.trusted = "C16: the comparison of parse_version results is a total preorder (order laws proved in C16); callers use only that"

c = REG.new("bumpver.version.to_pep440")
c.param("version", KStr())
c.returns(KStr())
c.ensures("C15.to_pep440.function_of_argument", lambda a, res, cx: V.z3str(res) == TO_PEP440(V.z3str(a.version)))
c.trusted = "callers' view: an uninterpreted function of the version string (what it computes is C15/C16)"


# --------------------------------------------------------------------------- argument validation
c = REG.new("bumpver.cli._validate_release_tag")
c.param("tag", KOpt(KStr()))
c.ensures(
    "C05._validate_release_tag.returns_only_for_documented_tags",
    lambda a, res, cx: b_or(v_is_none(a.tag), *[v_eq(V.unwrap_opt(a.tag), t) for t in README_TAGS]),
)
c.exsures(
    SystemExit,
    "C05._validate_release_tag.exit_1_for_other_tags",
    lambda a, exc, cx: b_and(v_eq(exc.args[0], 1), b_not(v_is_none(a.tag)), *[v_ne(V.unwrap_opt(a.tag), t) for t in README_TAGS]),
)


def _flags_ok(a):
    brace = b_and(v_contains("{", a.raw_pattern), v_contains("}", a.raw_pattern))
    ok = b_and(
        b_implies(v_truthy(a.major), v_contains("MAJOR", a.raw_pattern)),
        b_implies(v_truthy(a.minor), v_contains("MINOR", a.raw_pattern)),
        b_implies(v_truthy(a.patch), v_contains("PATCH", a.raw_pattern)),
    )
    return brace, ok


c = REG.new("bumpver.cli._validate_flags")
c.param("raw_pattern", KStr())
c.param("major", KBool())
c.param("minor", KBool())
c.param("patch", KBool())
c.ensures("C05._validate_flags.returns_only_if_every_flag_has_its_part", lambda a, res, cx: b_or(*_flags_ok(a)))
c.exsures(SystemExit, "C05._validate_flags.exit_1_iff_flag_without_part", lambda a, exc, cx: b_and(v_eq(exc.args[0], 1), b_not(_flags_ok(a)[0]), b_not(_flags_ok(a)[1])))


# --------------------------------------------------------------------------- _parse_vcs_options (C10: contradictions rejected)
def _opt_true(v):
    """tri-state flag given and True."""
    return b_and(b_not(v_is_none(v)), v_truthy(V.unwrap_opt(v)))


def _opt_false(v):
    return b_and(b_not(v_is_none(v)), b_not(v_truthy(V.unwrap_opt(v))))


def _vcs_opts_contradiction(a):
    eff_commit = b_ite(v_is_none(a.commit), v_truthy(field(a.cfg, "commit")), v_truthy(V.unwrap_opt(a.commit)))
    return b_or(
        b_and(_opt_false(a.commit), b_or(_opt_true(a.tag_commit), _opt_true(a.push))),
        b_and(b_not(eff_commit), b_or(_opt_true(a.tag_commit), _opt_true(a.push))),
    )


def _vcs_opts_fields(a, res):
    cfg = a.cfg
    cs = []

    def over(fieldname, opt, conv=lambda x: x):
        return v_eq(field(res, fieldname), v_ite(v_is_none(opt), field(cfg, fieldname), conv(V.unwrap_opt(opt))))

    cs.append(over("commit", a.commit))
    cs.append(over("tag", a.tag_commit))
    cs.append(over("push", a.push))
    cs.append(over("pre_commit_hook", a.pre_commit_hook))
    cs.append(over("post_commit_hook", a.post_commit_hook))
    for f in ("current_version", "version_pattern", "pep440_version", "commit_message", "tag_message", "is_new_pattern"):
        cs.append(v_eq(field(res, f), field(cfg, f)))
    cs.append(field(res, "file_patterns") is field(cfg, "file_patterns"))
    return cs


c = REG.new("bumpver.cli._parse_vcs_options")
c.param("cfg", k_config())
c.param("commit", KOpt(KBool()))
c.param("tag_commit", KOpt(KBool()))
c.param("push", KOpt(KBool()))
c.param("tag_scope", KEnum([None] + [e.value for e in config.TagScope]))
c.param("pre_commit_hook", KOpt(KStr()))
c.param("post_commit_hook", KOpt(KStr()))
c.returns(k_config())
c.ensures("C10._parse_vcs_options.returns_only_without_contradiction", lambda a, res, cx: b_not(_vcs_opts_contradiction(a)))
c.ensures("C10._parse_vcs_options.flags_override_config_rest_unchanged", lambda a, res, cx: b_and(*_vcs_opts_fields(a, res)))
c.ensures(
    "C10+C09._parse_vcs_options.tag_scope_override",
    lambda a, res, cx: v_eq(field(res, "tag_scope"), V.v_map(lambda t, old: old if t is None else config.TagScope(t), a.tag_scope, field(a.cfg, "tag_scope"))),
)
c.ensures("C10._parse_vcs_options.no_effects", lambda a, res, cx: all(e[0] == "Log" for e in cx.new))
c.exsures(ValueError, "C10._parse_vcs_options.value_error_iff_contradiction", lambda a, exc, cx: b_and(_vcs_opts_contradiction(a), all(e[0] == "Log" for e in cx.new)))


# --------------------------------------------------------------------------- is_valid (v2/v1) as seen by callers
c = REG.new("bumpver.v2version.is_valid")
c.param("version_str", KStr())
c.param("raw_pattern", KStr())
c.returns(KBool())
# from the property: "tags that do not match never influence or break the result":
# total on compilable patterns, and exactly the acceptance predicate
c.ensures("C09.v2.is_valid.is_the_acceptance_predicate", lambda a, res, cx: b_iff(v_truthy(res), ACCEPTS(V.z3str(a.raw_pattern), V.z3str(a.version_str))))
c.exsures(_re.error)  # malformed pattern text only (config validation rejects those)

ACCEPTS_V1 = z3.Function("spec_accepts_v1", z3.StringSort(), z3.StringSort(), z3.BoolSort())
c = REG.new("bumpver.v1version.is_valid")
c.param("version_str", KStr())
c.param("raw_pattern", KStr())
c.returns(KBool())
c.ensures("C09.v1.is_valid.is_the_acceptance_predicate", lambda a, res, cx: b_iff(v_truthy(res), ACCEPTS_V1(V.z3str(a.raw_pattern), V.z3str(a.version_str))))
c.exsures(_re.error)
c.trusted = "callers' view of the legacy engine (its parse is C20)"


def accepts(pattern, s, is_new):
    return b_ite(v_truthy(is_new), ACCEPTS(V.z3str(pattern), V.z3str(s)), ACCEPTS_V1(V.z3str(pattern), V.z3str(s)))


# --------------------------------------------------------------------------- _parse_version_tags
def _pvt_clause(a, res, cx):
    """Order-preserving filter of all_tags by validity for the pattern."""
    if not isinstance(res, SymMapped) or res.root() is not a.all_tags:
        return False
    ex, st = cx.ghost["__ex__"], cx.st
    t = V.sstr("ANY_TAG")
    cx.ghost.setdefault("extra_inputs", {})["any_tag"] = t
    base = st.fork()
    n0 = len(base.pc)
    cs = []
    want = accepts(a.version_pattern, t, a.is_new_pattern)
    for s1, kind, val in res.elementwise(ex, t, base):
        extra = z3.And(*s1.pc[n0:]) if len(s1.pc) > n0 else z3.BoolVal(True)
        if kind == "keep":
            cs.append(z3.Implies(extra, V.to_z3_bool(b_and(want, v_eq(val, t)))))
        elif kind == "drop":
            cs.append(z3.Implies(extra, V.to_z3_bool(b_not(want))))
        else:
            # a tag may break the result only through a malformed pattern (re.error)
            cs.append(z3.Implies(extra, z3.BoolVal(issubclass(val.cls, _re.error))))
    return z3.And(*cs)


c = REG.new("bumpver.cli._parse_version_tags")
c.param("all_tags", KSeq("str"))
c.param("version_pattern", KStr())
c.param("is_new_pattern", KBool())
c.ensures("C09._parse_version_tags.keeps_exactly_the_tags_valid_for_the_pattern", _pvt_clause)
c.inline = True  # callers execute the (one line) body: its element-wise result is what they index and search
c.inline_for_callers = True


# --------------------------------------------------------------------------- tags in scope (C09)
_SEQS = z3.SeqSort(z3.StringSort())
GET_TAGS = z3.Function("spec_get_tags", z3.BoolSort(), _SEQS)  # A-git: the listing is a function of the scope within one run


def scope_is_branch(scope):
    return V.to_z3_bool(v_eq(scope, config.TagScope.BRANCH))


def valid_tag(u, pattern, is_new, is_branch):
    """u is a tag in scope that fully matches the version pattern."""
    return z3.And(z3.Contains(GET_TAGS(is_branch), z3.Unit(V.z3str(u))), V.to_z3_bool(accepts(pattern, u, is_new)))


def no_valid_tag(pattern, is_new, is_branch):
    u = z3.String("u!nv")
    return z3.ForAll([u], z3.Not(valid_tag(u, pattern, is_new, is_branch)))


def greatest_valid_tag(t, pattern, is_new, is_branch):
    u = z3.String("u!gv")
    return z3.And(valid_tag(t, pattern, is_new, is_branch), z3.ForAll([u], z3.Implies(valid_tag(u, pattern, is_new, is_branch), KEY_LE(u, V.z3str(t)))))


# get_tags as seen by callers: the listing of the scope (or [] when no VCS is usable - then GET_TAGS is [])
REG["bumpver.vcs.get_tags"].ensures(
    "C09.get_tags.listing_is_function_of_scope", lambda a, res, cx: res.t == GET_TAGS(scope_is_branch(a.scope)), props=("C09",)
)
REG["bumpver.vcs.get_tags"].assume_at_call_sites = True
for _cl in REG["bumpver.vcs.get_tags"].ensures_:
    if "listing_is_function_of_scope" not in _cl.name:
        _cl.internal = True
for _lst in REG["bumpver.vcs.get_tags"].exsures_.values():
    for _cl in _lst:
        _cl.internal = True
REG["bumpver.vcs.get_tags"].assumed_clauses = ["C09.get_tags.listing_is_function_of_scope (A-git: deterministic listing within one run)"]


def _gl_clause(a, res, cx):
    p, n, b = field(a.cfg, "version_pattern"), field(a.cfg, "is_new_pattern"), scope_is_branch(field(a.cfg, "tag_scope"))
    if res is None:
        return no_valid_tag(p, n, b)
    if isinstance(res, SOpt):
        return b_ite(res.isnone, no_valid_tag(p, n, b), greatest_valid_tag(res.val, p, n, b))
    return greatest_valid_tag(res, p, n, b)


def _gl_effects(a, st, outcome):
    st.emit("GetTags", a.fetch, field(a.cfg, "tag_scope"), outcome)


c = REG.new("bumpver.cli.get_latest_vcs_version_tag")
c.setup = assume_order_laws
c.param("cfg", k_config())
c.param("fetch", KBool())
c.returns(KOpt(KStr()))
c.effects = _gl_effects
# README scope table: the greatest VCS tag in scope that fully matches the pattern, None if there is none
c.ensures("C09.get_latest_vcs_version_tag.greatest_matching_tag_in_scope_or_none", _gl_clause)
c.ensures(
    "C09+C10.get_latest_vcs_version_tag.one_listing_with_cfg_scope_and_fetch_flag",
    lambda a, res, cx: (lambda ev: len(ev) == 1 and b_and(v_eq(ev[0][1], a.fetch), v_eq(ev[0][2], field(a.cfg, "tag_scope"))))([e for e in cx.new if e[0] == "GetTags"]),
    internal=True,
)
c.exsures(sp.CalledProcessError)
c.exsures(_re.error)


# _update_cfg_from_vcs: the start version
def _start_clause(a, res, cx):
    cfg = a.cfg
    p, n = field(cfg, "version_pattern"), field(cfg, "is_new_pattern")
    scope = field(cfg, "tag_scope")
    b = scope_is_branch(scope)
    cur0, cur1 = field(cfg, "current_version"), field(res, "current_version")
    u = z3.String("u!st")
    all_below = z3.ForAll([u], z3.Implies(valid_tag(u, p, n, b), KEY_LE(u, V.z3str(cur1))))
    default_rule = z3.And(
        all_below,
        KEY_LE(V.z3str(cur0), V.z3str(cur1)),
        z3.Or(V.to_z3_bool(v_eq(cur1, cur0)), valid_tag(cur1, p, n, b)),
    )
    other_rule = z3.Or(
        z3.And(no_valid_tag(p, n, b), V.to_z3_bool(v_eq(cur1, cur0))),
        greatest_valid_tag(cur1, p, n, b),
    )
    return b_ite(v_eq(scope, config.TagScope.DEFAULT), default_rule, other_rule)


def _start_frame(a, res, cx):
    cfg = a.cfg
    same = [v_eq(field(res, f), field(cfg, f)) for f in ("version_pattern", "commit_message", "tag_message", "tag_scope", "pre_commit_hook", "post_commit_hook", "commit", "tag", "push", "is_new_pattern")]
    same.append(field(res, "file_patterns") is field(cfg, "file_patterns"))
    changed = v_ne(field(res, "current_version"), field(cfg, "current_version"))
    same.append(b_implies(changed, V.z3str(field(res, "pep440_version")) == TO_PEP440(V.z3str(field(res, "current_version")))))
    same.append(b_implies(b_not(changed), b_or(v_eq(field(res, "pep440_version"), field(cfg, "pep440_version")), V.z3str(field(res, "pep440_version")) == TO_PEP440(V.z3str(field(res, "current_version"))))))
    return b_and(*same)


def _ucfv_setup(a, st):
    pass


c = REG.new("bumpver.cli._update_cfg_from_vcs")
c.setup = assume_order_laws
c.param("cfg", k_config())
c.param("fetch", KBool())
c.returns(k_config())
c.effects = _gl_effects
c.ensures("C09._update_cfg_from_vcs.start_version_per_scope_rule", _start_clause)
c.ensures("C09._update_cfg_from_vcs.only_version_fields_change", _start_frame)
c.ensures(
    "C09+C10._update_cfg_from_vcs.one_listing_with_cfg_scope_and_fetch_flag",
    lambda a, res, cx: (lambda ev: len(ev) == 1 and b_and(v_eq(ev[0][1], a.fetch), v_eq(ev[0][2], field(a.cfg, "tag_scope"))))([e for e in cx.new if e[0] == "GetTags"]),
    internal=True,
)
c.exsures(sp.CalledProcessError)
c.exsures(_re.error)


# --------------------------------------------------------------------------- _is_valid_version: the gate (C01, C09)
def _gate_clause(a, res, cx):
    is_new = b_and(b_not(v_contains("{", a.raw_pattern)), b_not(v_contains("}", a.raw_pattern)))
    acc = b_ite(is_new, ACCEPTS(V.z3str(a.raw_pattern), V.z3str(a.new_version)), ACCEPTS_V1(V.z3str(a.raw_pattern), V.z3str(a.new_version)))
    uniq = b_not(valid_tag(a.new_version, a.raw_pattern, V._wrapb(is_new) if not isinstance(is_new, bool) else is_new, z3.BoolVal(False)))
    return b_implies(
        v_truthy(res),
        b_and(acc, key_gt(a.new_version, a.old_version), b_implies(v_truthy(a.unique), uniq)),
    )


def _gate_effects(a, st, outcome):
    st.emit("Gate", a.raw_pattern, a.old_version, a.new_version, a.unique, outcome)


c = REG.new("bumpver.v1version.parse_version_info")
c.param("version_str", KStr())
c.param("raw_pattern", KStr())
c.returns(KOpaque("V1VersionInfo"))
c.ensures("C20.v1.parse_version_info.returns_only_if_accepted", lambda a, res, cx: ACCEPTS_V1(V.z3str(a.raw_pattern), V.z3str(a.version_str)))
c.exsures(version.PatternError, "C20.v1.parse_version_info.pattern_error_iff_not_accepted", lambda a, exc, cx: z3.Not(ACCEPTS_V1(V.z3str(a.raw_pattern), V.z3str(a.version_str))))
c.exsures(_re.error)
c.exsures(ValueError)
c.trusted = "callers' view of the legacy parser (C20)"

c = REG.new("bumpver.cli._is_valid_version")
c.setup = assume_order_laws
c.param("raw_pattern", KStr())
c.param("old_version", KStr())
c.param("new_version", KStr())
c.param("unique", KBool())
c.returns(KBool())
c.effects = _gate_effects
# from the property: "matches the configured version pattern in full and is strictly greater, under
# PEP 440 ordering, than the version it started from"; "never equals an existing tag on any branch"
c.ensures("C01+C09._is_valid_version.true_only_if_accepted_strictly_greater_and_unique", _gate_clause)
c.ensures(
    "C01+C10._is_valid_version.reads_tags_without_fetching_writes_nothing",
    lambda a, res, cx: all(e[0] in ("Log", "CallResult") or (e[0] == "GetTags" and e[1] is False) for e in cx.new),
    internal=True,
)
c.exsures(sp.CalledProcessError, "C01._is_valid_version.vcs_failure_writes_nothing", lambda a, exc, cx: all(e[0] != "Write" for e in cx.new), internal=True)
c.exsures(_re.error)
c.exsures(ValueError)
