"""Kinds for config.Config and friends."""
import z3

from bumpver import config

from pyvc.abstractions import SymStrSet
from .common import *  # noqa


class FilePatterns:
    """cfg.file_patterns as seen by the update path: an ordered map path -> patterns.
    Only its key sequence matters to the VCS steps; rewriting consumes it through
    rewrite.iter_path_patterns_items (contracts/rewrite.py)."""

    def __init__(self, name):
        self.name = name
        # the i-th configured path and the number of configured files (uninterpreted function + count:
        # z3's sequence theory is incomplete for nth over Seq(String) under uninterpreted functions)
        self.key_fn = z3.Function(name + ".key", z3.IntSort(), z3.StringSort())
        self.n = z3.Int(name + ".count")
        # the same keys as a set-like sequence, for `set(cfg.file_patterns.keys())`
        self.keys_seq = SSeq(z3.Const(name + ".keys", z3.SeqSort(z3.StringSort())), "str")

    def __repr__(self):
        return f"FilePatterns({self.name})"

    def __pyvc_method__(self, ex, name, args, kwargs, st, node):
        from pyvc.symexec import Val, Unsupported

        if name == "keys":
            return [Val(self.keys_seq, st)]
        if name == "items":
            return [Val(FilePatternItems(self), st)]
        raise Unsupported(f"file_patterns.{name}")

    def __pyvc_eq__(self, other):
        return isinstance(other, FilePatterns) and (other is self or other.name == self.name)

    def __pyvc_truthy__(self):
        return self.n > 0


class FilePatternItems:
    __pyvc_symbolic_iter__ = True

    def __init__(self, fp):
        self.fp = fp
        self.n = fp.n

    def __pyvc_elem__(self, k):
        from pyvc.values import SOpaque, opaque_sort

        path = SStr(self.fp.key_fn(k))
        pats = SOpaque("PatternList", z3.Function(self.fp.name + ".patterns", z3.IntSort(), opaque_sort("PatternList"))(k))
        return (path, pats)


class KFilePatterns(Kind):
    def fresh(self, name, assumptions):
        fp = FilePatterns(name)
        assumptions.append(fp.n >= 0)
        return fp


def k_config():
    return KRec(
        config.Config,
        dict(
            current_version=KStr(),
            version_pattern=KStr(),
            pep440_version=KStr(),
            commit_message=KStr(),
            tag_message=KStr(),
            tag_scope=KEnum(list(config.TagScope)),
            pre_commit_hook=KStr(),
            post_commit_hook=KStr(),
            commit=KBool(),
            tag=KBool(),
            push=KBool(),
            is_new_pattern=KBool(),
            file_patterns=KFilePatterns(),
        ),
    )
