"""Shared kinds, record invariants and spec helpers for the sidecar contracts."""
import datetime as dt

import z3

from pyvc.values import *  # noqa
from pyvc import values as V
from pyvc.kinds import *  # noqa
from pyvc.contracts import Registry, Contract, LoopSpec

REG = Registry()


def src_modules():
    import importlib

    names = ["version", "v2version", "v2patterns", "v1version", "v1patterns", "cli", "vcs", "config", "rewrite", "v2rewrite", "v1rewrite", "parse", "hooks", "patterns"]
    return {n: importlib.import_module("bumpver." + n) for n in names}


CAL_FIELDS = ("year_y", "year_g", "quarter", "month", "dom", "doy", "week_w", "week_u", "week_v")
NUM_FIELDS = ("major", "minor", "patch", "num", "inc0", "inc1")
STR_FIELDS = ("bid", "tag", "pytag", "githash", "hexhash")

# Numeric range of each calendar field. DERIVED in contracts/tables.py from the part
# regexes of the current tree and the image of cal_info; these are the static
# fall-backs used only to build kinds, the ranges themselves are re-derived and
# compared on every run (obligation C02.wf_vinfo.ranges_match_tables).
CAL_RANGES = {
    "year_y": (1000, 9999),
    "year_g": (1000, 9999),
    "quarter": (1, 4),
    "month": (1, 12),
    "dom": (1, 31),
    "doy": (1, 366),
    "week_w": (0, 53),
    "week_u": (0, 53),
    "week_v": (1, 53),
}


def k_calinfo(version):
    return KRec(version.V2CalendarInfo, {f: KOpt(KInt()) for f in CAL_FIELDS})


def k_vinfo(version, tags=None):
    fields = {f: KOpt(KInt()) for f in CAL_FIELDS}
    for f in NUM_FIELDS:
        fields[f] = KInt()
    for f in STR_FIELDS:
        fields[f] = KStr()
    fields["tag"] = KEnum(sorted(version.PEP440_TAG_BY_TAG.keys())) if tags is None else KEnum(tags)
    return KRec(version.V2VersionInfo, fields)


def wf_cal(rec):
    """Calendar fields are None or within the range their part regexes can decode to."""
    cs = []
    for f in CAL_FIELDS:
        v = rec.get(f) if isinstance(rec, SRec) else getattr(rec, f)
        lo, hi = CAL_RANGES[f]
        if v is None:
            continue
        if isinstance(v, SOpt):
            cs.append(b_or(v.isnone, b_and(v_cmp(">=", v.val, lo), v_cmp("<=", v.val, hi))))
        else:
            cs.append(b_and(v_cmp(">=", v, lo), v_cmp("<=", v, hi)))
    return b_and(*cs)


def cal_full(rec):
    """Every calendar field present and in range (what cal_info returns)."""
    cs = []
    for f in CAL_FIELDS:
        v = rec.get(f) if isinstance(rec, SRec) else getattr(rec, f)
        lo, hi = CAL_RANGES[f]
        cs.append(b_not(v_is_none(v)))
        cs.append(b_and(v_cmp(">=", V.unwrap_opt(v), lo), v_cmp("<=", V.unwrap_opt(v), hi)))
    return b_and(*cs)


def wf_vinfo(version, rec):
    """Record invariant of V2VersionInfo (established by parse_field_values_to_vinfo)."""
    g = rec.get if isinstance(rec, SRec) else (lambda f: getattr(rec, f))
    cs = [wf_cal(rec)]
    for f in ("major", "minor", "patch", "num", "inc0"):
        cs.append(v_cmp(">=", g(f), 0))
    cs.append(v_cmp(">=", g("inc1"), 1))
    # pytag agrees with tag
    tag, pytag = g("tag"), g("pytag")
    cs.append(v_eq(pytag, V.v_map(lambda t: version.PEP440_TAG_BY_TAG[t], tag)))
    # bid is a non-empty digit string
    bid = g("bid")
    if isinstance(bid, SStr):
        cs.append(z3.InRe(bid.t, z3.Plus(z3.Range("0", "9"))))
    else:
        cs.append(bid.isdigit())
    return b_and(*cs)


def field(rec, f):
    return rec.get(f) if isinstance(rec, SRec) else getattr(rec, f)


def same_fields(a, b, fields):
    return b_and(*[v_eq(field(a, f), field(b, f)) for f in fields])
