"""C19: config file selection, `init`, append-only write."""
import z3

from bumpver import config, cli

from pyvc.models import PathVal, FS_CONTENT, FS_EXISTS
from pyvc.symexec import Val, Exc, ExcVal, fresh_name
from .common import *  # noqa
from .common import REG


class KPath(Kind):
    def fresh(self, name, assumptions):
        return PathVal(V.sstr(name))


CANDIDATES = ("pycalver.toml", "bumpver.toml", ".bumpver.toml", "pyproject.toml", "setup.cfg")  # config-capable files


def _cand(path, fn):
    return V.z3str(PathValJoin(path, fn))


def PathValJoin(path, fn):
    from pyvc.models import Models

    return Models.path_join(None, path.s, fn)


def _exists(path, fn):
    return FS_EXISTS(_cand(path, fn), z3.IntVal(0))


def _has_section(path, fn):
    c = FS_CONTENT(_cand(path, fn), z3.IntVal(0))
    return z3.And(
        _exists(path, fn),
        z3.Or(z3.Contains(c, z3.StringVal("bumpver]")), z3.Contains(c, z3.StringVal("pycalver]"))),
        z3.Contains(c, z3.StringVal("current_version")),
    )


def _pick_clause(a, res, cx):
    if not isinstance(res, PathVal):
        return False
    r = V.z3str(res.s)
    is_cand = z3.Or(*[r == _cand(a.path, fn) for fn in CANDIDATES])
    any_section = z3.Or(*[_has_section(a.path, fn) for fn in CANDIDATES])
    any_exists = z3.Or(*[_exists(a.path, fn) for fn in CANDIDATES])
    res_has_section = z3.Or(*[z3.And(r == _cand(a.path, fn), _has_section(a.path, fn)) for fn in CANDIDATES])
    res_exists = z3.Or(*[z3.And(r == _cand(a.path, fn), _exists(a.path, fn)) for fn in CANDIDATES])
    return z3.And(
        is_cand,
        # "a file that already holds a bumpver section with a current_version is always preferred"
        z3.Implies(any_section, res_has_section),
        # otherwise an existing config-capable file, and only if there is none a new bumpver.toml
        z3.Implies(z3.And(z3.Not(any_section), any_exists), res_exists),
        z3.Implies(z3.Not(any_exists), r == _cand(a.path, "bumpver.toml")),
    )


c = REG.new("bumpver.config._pick_config_filepath")
c.param("path", KPath())
c.ensures("C19._pick_config_filepath.prefers_configured_file_then_existing_then_new_bumpver_toml", _pick_clause)
c.ensures("C19._pick_config_filepath.reads_only", lambda a, res, cx: all(e[0] in ("Exists", "Open", "Read", "Close", "Log") and (e[0] != "Open" or e[2] == "rb") for e in cx.new))
c.exsures(OSError)


# write_content: append-only
DEFAULT_CFG = z3.Function("spec_default_config", V.opaque_sort("ProjectContext"), z3.StringSort())


class KCtx(Kind):
    def fresh(self, name, assumptions):
        return SRec(
            config.ProjectContext,
            dict(path=PathVal(V.sstr(name + ".path")), config_filepath=PathVal(V.sstr(name + ".config_filepath")), config_rel_path=V.sstr(name + ".config_rel_path"), config_format=KEnum(("toml", "cfg")).fresh(name + ".config_format", assumptions), vcs_type=None),
        )


def _default_config_hook(ex, a, st, node):
    st.emit("DefaultConfig", a.ctx)
    bad = st.fork()
    res = V.sstr(fresh_name("default_config"))
    st.emit("CallResult", "bumpver.config.default_config", res, a)
    return [Exc(ExcVal(ValueError, (V.sstr(fresh_name("excmsg")),)), bad), Val(res, st)]


c = REG.new("bumpver.config.default_config")
c.param("ctx", KCtx())
c.callee_hook = _default_config_hook
c.trusted = "X: the generated text is decided by the layout enumeration of checks/c19.py (read back by bumpver itself)"


def _wc_clause(a, res, cx):
    opens = [e for e in cx.new if e[0] == "Open"]
    writes = [e for e in cx.new if e[0] == "Write"]
    texts = [e[2] for e in cx.new if e[0] == "CallResult" and e[1] == "bumpver.config.default_config"]
    if len(opens) != 1 or len(writes) != 1 or len(texts) != 1:
        return False
    o, w = opens[0], writes[0]
    cfgpath = field(a.ctx, "config_filepath").s
    existed = FS_EXISTS(V.z3str(cfgpath), z3.IntVal(0))
    want = v_ite(existed, v_arith("+", "\n", texts[0]), texts[0])
    # append mode (prior content stays a prefix), explicit utf-8, to the chosen config file only
    return b_and(o[2] == "at", o[4] == "utf-8", v_eq(o[1], cfgpath), v_eq(w[1], cfgpath), v_eq(w[2], want))


c = REG.new("bumpver.config.write_content")
c.param("ctx", KCtx())
c.ensures("C19.write_content.appends_default_config_to_the_chosen_file_only", _wc_clause, internal=True)
c.exsures(OSError)
c.exsures(ValueError)


def _wc_effects(a, st, outcome):
    st.emit("InitWrite", a.ctx, outcome)


c.effects = _wc_effects


# cli.init
def _init_hook_config_init(ex, a, st, node):
    """config.init(project_path='.', cfg_missing_ok=True) as seen by `init`: a context and a Config or None."""
    from .cli_kinds import k_config

    st.emit("ConfigInit")
    assumptions = []
    ctx = KCtx().fresh(fresh_name("ctx"), assumptions)
    for x in assumptions:
        st.assume(x)
    s_cfg = st.fork()
    assumptions = []
    cfg = k_config().fresh(fresh_name("cfg"), assumptions)
    for x in assumptions:
        s_cfg.assume(x)
    return [Val((ctx, cfg), s_cfg), Val((ctx, None), st)]


def _init_clause(raised):
    def fn(a, exc, cx):
        writes = [e for e in cx.new if e[0] in ("InitWrite", "Write", "Open")]
        had_cfg = cx.ghost.get("init_cfg_present")
        if not raised:
            # normal return: not configured yet, not --dry, exactly one append to the chosen file
            return b_and(len(writes) == 1 and writes[0][0] == "InitWrite" and writes[0][2] == "return", b_not(v_truthy(a.dry)))
        if issubclass(exc.cls, SystemExit):
            code = exc.args[0]
            # exit 1: already configured (refuses); exit 0: --dry. Neither writes anything.
            return b_and(len(writes) == 0, b_or(v_eq(code, 1), b_and(v_eq(code, 0), v_truthy(a.dry))))
        return all(w[0] == "InitWrite" for w in writes)

    return fn


c = REG.new("bumpver.cli.init")
c.param("verbose", KInt(ge=0))
c.param("dry", KBool())
c.ensures("C19.init.writes_exactly_once_when_unconfigured_and_not_dry", _init_clause(False), internal=True)
c.exsures(SystemExit, "C19.init.refuses_when_configured_and_dry_writes_nothing", _init_clause(True), internal=True)
c.exsures(OSError, "C19.init.io_error_only_from_the_single_write", _init_clause(True), internal=True)
c.exsures(ValueError, "C19.init.value_error_only_from_the_single_write", _init_clause(True), internal=True)
