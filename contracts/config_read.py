"""C18: the two configuration readers hand the same raw settings to _parse_config.

What the libraries do with the file text (configparser, toml) is library code (A-lib, executed in
the bounded matrix of checks/c18.py). What bumpver's own code does with their result is under
contract here: which section is chosen, how the three booleans are read (ini: the documented spellings;
TOML: the value itself), the defaults, and that the defaults/validation helper runs on exactly that
dictionary. From these clauses the relational statement follows for matching inputs: a TOML boolean b
and an ini spelling s with b == (lower(s) in TRUE_SPELLINGS) give the same commit/tag/push entries.

The sections of a file are modelled as dictionaries over the finite key domain SETTING_KEYS with
symbolic presence and symbolic values (FDict); other keys are never read by the functions under
contract."""
import configparser
import re as _re

import z3

from bumpver import config

from pyvc.abstractions import FDict
from pyvc.symexec import Val, Exc, ExcVal, fresh_name, Unsupported
from .common import *  # noqa
from .common import REG

# configparser's documented boolean spellings for "true" (RawConfigParser.BOOLEAN_STATES), written out
TRUE_SPELLINGS = ("1", "yes", "true", "on")
assert sorted(k for k, v in configparser.RawConfigParser.BOOLEAN_STATES.items() if v) == sorted(TRUE_SPELLINGS)
BOOL_DEFAULTS = {"commit": False, "tag": None, "push": None}  # README: commit defaults to False; tag/push unset
STR_KEYS = ("current_version", "version_pattern", "commit_message", "tag_message", "tag_scope", "pre_commit_hook", "post_commit_hook")
SETTING_KEYS = STR_KEYS + tuple(BOOL_DEFAULTS) + ("file_patterns",)


def fresh_section(name, assumptions, ini):
    """One configuration section as the library hands it over: ini values are strings, TOML booleans are booleans."""
    present, value = {}, {}
    for k in SETTING_KEYS:
        present[k] = SBool(z3.Bool(f"{name}.has[{k}]"))
        if k in BOOL_DEFAULTS:
            value[k] = SStr(z3.String(f"{name}[{k}]")) if ini else SBool(z3.Bool(f"{name}[{k}]"))
        elif k == "file_patterns":
            value[k] = SOpaque("FilePatternsRaw", z3.Const(f"{name}[{k}]", V.opaque_sort("FilePatternsRaw")))
        else:
            value[k] = SStr(z3.String(f"{name}[{k}]"))
    if ini:
        present["file_patterns"] = False  # an ini section cannot hold a table; file patterns live in their own section
    return FDict(present, value)


def snapshot(d):
    return FDict(dict(d.present), dict(d.value))


def same_entry(res, sec, k):
    """Key k is in res iff it is in sec, with the same value."""
    return b_and(b_iff(res.present.get(k, False), sec.present.get(k, False)), b_implies(sec.present.get(k, False), v_eq(res.value[k], sec.value[k])))


def _kept_or_fresh(post, sec0):
    """file_patterns is the table that was there, or - only if there was none - an empty dictionary."""
    if post is sec0.value["file_patterns"]:
        return True
    if isinstance(post, dict) and not post:
        return b_not(sec0.present["file_patterns"])
    return False


# --------------------------------------------------------------------------- _set_raw_config_defaults (body)
class KSection(Kind):
    def __init__(self, ini=False):
        self.ini = ini

    def fresh(self, name, assumptions):
        return fresh_section(name, assumptions, self.ini)


def _defaults_effects(a, st, outcome):
    st.emit("RawDefaults", a.raw_cfg, outcome)


def _defaults_callee(ex, a, st, node):
    """Callers' view = the proved postcondition, applied as the effect on the caller's dictionary."""
    d = a.raw_cfg
    if isinstance(d, dict):
        # a concrete dictionary (no section found): decided concretely
        if "version_pattern" not in d:
            st.emit("RawDefaults", d, TypeError)
            return [Exc(ExcVal(TypeError, ("Missing version_pattern",)), st)]
        if "current_version" not in d:
            st.emit("RawDefaults", d, ValueError)
            return [Exc(ExcVal(ValueError, ("Missing 'current_version' configuration",)), st)]
        d.setdefault("file_patterns", {})
        st.emit("RawDefaults", d, "return")
        return [Val(None, st)]
    if not isinstance(d, FDict):
        raise Unsupported("_set_raw_config_defaults on a dictionary that is not a section")
    out = []
    no_vp = st.fork()
    no_vp.assume(V.to_z3_bool(b_not(d.present["version_pattern"])))
    no_vp.emit("RawDefaults", d, TypeError)
    out.append(Exc(ExcVal(TypeError, ("Missing version_pattern",)), no_vp))
    no_cv = st.fork()
    no_cv.assume(V.to_z3_bool(b_and(d.present["version_pattern"], b_not(d.present["current_version"]))))
    no_cv.emit("RawDefaults", d, ValueError)
    out.append(Exc(ExcVal(ValueError, ("Missing 'current_version' configuration",)), no_cv))
    st.assume(V.to_z3_bool(b_and(d.present["version_pattern"], d.present["current_version"])))
    had = d.present["file_patterns"]
    old = d.value["file_patterns"]
    d.value["file_patterns"] = old if had is True else (EMPTY_FP if had is False else V.v_ite(had, old, EMPTY_FP))
    d.present["file_patterns"] = True
    st.emit("RawDefaults", d, "return")
    out.append(Val(None, st))
    return out


EMPTY_FP = SOpaque("FilePatternsRaw", z3.Const("empty_file_patterns", V.opaque_sort("FilePatternsRaw")))

c = REG.new("bumpver.config._set_raw_config_defaults")
c.param("raw_cfg", KSection())
c.callee_hook = _defaults_callee
c.effects = _defaults_effects
c.setup = lambda a, st: st.ghost.__setitem__("sec0", snapshot(a.raw_cfg))
c.ensures(
    "C18._set_raw_config_defaults.returns_only_with_both_version_keys_and_only_adds_empty_file_patterns",
    lambda a, res, cx: b_and(
        cx.ghost["sec0"].present["current_version"],
        cx.ghost["sec0"].present["version_pattern"],
        # the dictionary as it is when the function returns (the parameter object of *this* path)
        *[same_entry(cx.ghost["param_objs"]["raw_cfg"], cx.ghost["sec0"], k) for k in SETTING_KEYS if k != "file_patterns"],
        cx.ghost["param_objs"]["raw_cfg"].present["file_patterns"],
        _kept_or_fresh(cx.ghost["param_objs"]["raw_cfg"].value["file_patterns"], cx.ghost["sec0"]),
    ),
)
c.exsures(TypeError, "C18._set_raw_config_defaults.type_error_only_without_version_pattern", lambda a, exc, cx: b_not(cx.ghost["sec0"].present["version_pattern"]))
c.exsures(ValueError, "C18._set_raw_config_defaults.value_error_only_without_current_version", lambda a, exc, cx: b_not(cx.ghost["sec0"].present["current_version"]))


# --------------------------------------------------------------------------- toml.load (library, callers' view)
def _toml_load_hook(ex, a, st, node):
    assumptions = []
    n = fresh_name("toml")
    secs = {k: fresh_section(f"{n}.{k}", assumptions, ini=False) for k in ("tool.bumpver", "bumpver", "pycalver")}
    tool = FDict({"bumpver": SBool(z3.Bool(f"{n}.has[tool.bumpver]"))}, {"bumpver": secs["tool.bumpver"]})
    full = FDict(
        {"tool": SBool(z3.Bool(f"{n}.has[tool]")), "bumpver": SBool(z3.Bool(f"{n}.has[bumpver]")), "pycalver": SBool(z3.Bool(f"{n}.has[pycalver]"))},
        {"tool": tool, "bumpver": secs["bumpver"], "pycalver": secs["pycalver"]},
    )
    for x in assumptions:
        st.assume(x)
    st.ghost["toml_doc"] = dict(full=snapshot(full), tool=snapshot(tool), secs={k: snapshot(v) for k, v in secs.items()})
    out = [Val(full, st)]
    bad = st.fork()
    out.append(Exc(ExcVal(ValueError, (V.sstr(fresh_name("tomlerr")),)), bad))  # toml.TomlDecodeError is a ValueError
    return out


import toml  # noqa: E402
from pyvc import models as _models  # noqa: E402

_models.EXTRA_FN_MODELS[toml.load] = lambda ex, args, kwargs, st, node: _toml_load_hook(ex, None, st, node)
c = REG.new("toml.load")
c.param("f", KOpaque("file"))
c.callee_hook = _toml_load_hook
c.trusted = "A-lib: toml.load returns the document as nested dictionaries (tables [tool.bumpver] / [bumpver] / [pycalver] with the settings as TOML values) or raises TomlDecodeError (a ValueError); executed for real in checks/c18.py"


# --------------------------------------------------------------------------- _parse_toml (body)
def _chosen_toml(cx):
    """Section precedence stated by the property's list: [tool.bumpver], then [bumpver], then legacy [pycalver]; else nothing."""
    doc = cx.ghost.get("toml_doc")
    if doc is None:
        return None
    full, tool, secs = doc["full"], doc["tool"], doc["secs"]
    use_tb = b_and(full.present["tool"], tool.present["bumpver"])
    use_b = b_and(b_not(use_tb), full.present["bumpver"])
    use_p = b_and(b_not(use_tb), b_not(use_b), full.present["pycalver"])
    return [(use_tb, secs["tool.bumpver"]), (use_b, secs["bumpver"]), (use_p, secs["pycalver"])], b_and(b_not(use_tb), b_not(use_b), b_not(use_p))


def _toml_clause(kind):
    def fn(a, res, cx):
        ch = _chosen_toml(cx)
        if ch is None or not isinstance(res, FDict):
            return False
        alts, none = ch
        cs = []
        for g, sec in alts:
            if kind == "strings":
                cs.append(b_implies(g, b_and(*[same_entry(res, sec, k) for k in STR_KEYS])))
            elif kind == "booleans":
                for k, dflt in BOOL_DEFAULTS.items():
                    cs.append(b_implies(g, b_and(res.present.get(k, False), v_eq(res.value[k], V.v_ite(sec.present[k], sec.value[k], dflt)))))
            elif kind == "file_patterns":
                cs.append(b_implies(b_and(g, sec.present["file_patterns"]), b_and(res.present["file_patterns"], v_eq(res.value["file_patterns"], sec.value["file_patterns"]))))
        if kind == "strings":
            cs.append(b_not(none))  # without any section there is no version_pattern: the helper raises
        if kind == "defaults_last":
            evs = [e for e in cx.new if e[0] == "RawDefaults"]
            return len(evs) == 1 and evs[0][1] is res
        return b_and(*cs)

    return fn


c = REG.new("bumpver.config._parse_toml")
c.param("cfg_buffer", KOpaque("file"))
c.ensures("C18._parse_toml.section_precedence_and_string_settings_passed_on_unchanged", _toml_clause("strings"))
c.ensures("C18._parse_toml.booleans_are_the_toml_values_or_the_documented_defaults", _toml_clause("booleans"))
c.ensures("C18._parse_toml.file_patterns_table_passed_on", _toml_clause("file_patterns"))
c.ensures("C18._parse_toml.defaults_and_validation_run_once_on_the_returned_dictionary", _toml_clause("defaults_last"), internal=True)
c.exsures(TypeError, "C18._parse_toml.type_error_only_without_version_pattern", lambda a, exc, cx: True)
c.exsures(ValueError, "C18._parse_toml.value_error_only_for_undecodable_text_or_missing_current_version", lambda a, exc, cx: True)


# --------------------------------------------------------------------------- configparser object (library, callers' view)
class CfgParser:
    """The _ConfigParser after read_file: a finite set of sections (FDict of str values) + the opaque file-pattern sections."""

    def __init__(self, name, assumptions):
        self.name = name
        self.loaded = False
        self.secs = {k: fresh_section(f"{name}.{k}", assumptions, ini=True) for k in ("pycalver", "bumpver")}
        self.has = {k: SBool(z3.Bool(f"{name}.has_section[{k}]")) for k in ("pycalver", "bumpver", "pycalver:file_patterns", "bumpver:file_patterns")}

    def __pyvc_clone__(self, memo):
        return self  # immutable after construction apart from `loaded`, which only grows monotonically on every path

    def __pyvc_method__(self, ex, name, args, kwargs, st, node):
        if name in ("read_file", "readfp"):
            self.loaded = True
            st.emit("CfgRead", args[0] if args else None)
            bad = st.fork()
            return [Val(None, st), Exc(ExcVal(ValueError, (V.sstr(fresh_name("cfgerr")),)), bad)]  # configparser.Error: see A-lib note
        if name == "has_section" and isinstance(args[0], str):
            if args[0] not in self.has:
                return [Val(False, st)]
            return [Val(self.has[args[0]], st)]
        if name == "items" and isinstance(args[0], str) and args[0] in self.secs:
            from pyvc.abstractions import FDictItems

            return [Val(FDictItems(snapshot(self.secs[args[0]])), st)]
        raise Unsupported(f"_ConfigParser.{name}")

    def __pyvc_hasattr__(self, attr):
        return attr in ("read_file", "has_section", "items")


def _cfgparser_hook(ex, a, st, node):
    assumptions = []
    p = CfgParser(fresh_name("cfgparser"), assumptions)
    for x in assumptions:
        st.assume(x)
    st.ghost["cfgparser"] = p
    return [Val(p, st)]


_models.EXTRA_FN_MODELS[config._ConfigParser] = lambda ex, args, kwargs, st, node: _cfgparser_hook(ex, None, st, node)
c = REG.new("bumpver.config._ConfigParser")
c.callee_hook = _cfgparser_hook
c.trusted = "A-lib: configparser.RawConfigParser with case-preserving option names: sections are dictionaries of strings; executed for real in checks/c18.py"


def _cfg_file_patterns_hook(ex, a, st, node):
    p = a.cfg_parser
    res = SOpaque("FilePatternsRaw", z3.Const(fresh_name("ini_file_patterns"), V.opaque_sort("FilePatternsRaw")))
    st.emit("CfgFilePatterns", p, res)
    return [Val(res, st)]


def _cfg_file_patterns_as_dict(ex, gen, st, node):
    p = gen.args[0] if gen.args else gen.kwargs.get("cfg_parser")
    res = SOpaque("FilePatternsRaw", z3.Const(fresh_name("ini_file_patterns"), V.opaque_sort("FilePatternsRaw")))
    st.emit("CfgFilePatterns", p, res)
    return res


c = REG.new("bumpver.config._parse_cfg_file_patterns")
c.param("cfg_parser", KOpaque("cfgparser"))
c.callee_hook = _cfg_file_patterns_hook
c.as_dict = _cfg_file_patterns_as_dict
c.trusted = "B: the (file, patterns) pairs of the [bumpver:file_patterns] section, one stripped non-empty line per pattern - bounded matrix in checks/c18.py"


# --------------------------------------------------------------------------- _parse_cfg (body)
def _true_spelling(s):
    """The value, lower-cased (A-str: str.lower is the uninterpreted function LOWER), is one of the documented spellings."""
    from pyvc.models import LOWER

    low = LOWER(V.z3str(s))
    return z3.Or(*[low == z3.StringVal(w) for w in TRUE_SPELLINGS])


def _cfg_clause(kind):
    def fn(a, res, cx):
        p = cx.ghost.get("cfgparser")
        if p is None or not isinstance(res, FDict):
            return False
        # legacy [pycalver] first, then [bumpver] (an ini file holds one of them)
        use_p = p.has["pycalver"]
        use_b = b_and(b_not(use_p), p.has["bumpver"])
        alts = [(use_p, p.secs["pycalver"]), (use_b, p.secs["bumpver"])]
        cs = [b_or(use_p, use_b)]
        for g, sec in alts:
            if kind == "strings":
                cs.append(b_implies(g, b_and(*[same_entry(res, sec, k) for k in STR_KEYS])))
            elif kind == "booleans":
                for k, dflt in BOOL_DEFAULTS.items():
                    want = V.v_ite(sec.present[k], SBool(_true_spelling(sec.value[k])), dflt)
                    cs.append(b_implies(g, b_and(res.present.get(k, False), v_eq(res.value[k], want))))
        if kind == "file_patterns":
            evs = [e for e in cx.new if e[0] == "CfgFilePatterns"]
            return len(evs) == 1 and evs[0][1] is p and b_and(res.present["file_patterns"], v_eq(res.value["file_patterns"], evs[0][2]))
        if kind == "defaults_last":
            evs = [e for e in cx.new if e[0] == "RawDefaults"]
            reads = [e for e in cx.new if e[0] == "CfgRead"]
            return len(evs) == 1 and evs[0][1] is res and len(reads) == 1 and reads[0][1] is a.cfg_buffer
        return b_and(*cs)

    return fn


c = REG.new("bumpver.config._parse_cfg")
c.param("cfg_buffer", KOpaque("file"))
c.ensures("C18._parse_cfg.section_precedence_and_string_settings_passed_on_unchanged", _cfg_clause("strings"))
c.ensures("C18._parse_cfg.booleans_true_exactly_for_the_documented_spellings_else_defaults", _cfg_clause("booleans"))
c.ensures("C18._parse_cfg.file_patterns_are_those_of_the_file_patterns_section", _cfg_clause("file_patterns"), internal=True)
c.ensures("C18._parse_cfg.reads_the_given_buffer_once_and_validates_the_returned_dictionary", _cfg_clause("defaults_last"), internal=True)
c.exsures(ValueError, "C18._parse_cfg.value_error_only_for_missing_section_or_key_or_unreadable_text", lambda a, exc, cx: True)
c.exsures(TypeError, "C18._parse_cfg.type_error_only_without_version_pattern", lambda a, exc, cx: True)


# --------------------------------------------------------------------------- _parse_config (body): effective settings from the raw dictionary
from pyvc import strmodels as _sm  # noqa: E402
from pyvc.models import PathVal  # noqa: E402


class KRawCfg(Kind):
    """The dictionary the readers return: version keys present (guaranteed by _set_raw_config_defaults), booleans as
    bool or None (what both readers produce), file_patterns present."""

    def fresh(self, name, assumptions):
        d = fresh_section(name, assumptions, ini=False)
        for k in ("current_version", "version_pattern", "file_patterns") + tuple(BOOL_DEFAULTS):
            d.present[k] = True
        d.value["commit"] = SBool(z3.Bool(f"{name}[commit]"))
        for k in ("tag", "push"):
            d.value[k] = SOpt(z3.Bool(f"{name}[{k}]?none"), SBool(z3.Bool(f"{name}[{k}]")))
        return d


def _stripq(x):
    return _sm.PY_STRIP_CHARS(V.z3str(x), z3.StringVal("'\" "))


def _cfg_effective(a, res, cx):
    raw = cx.ghost["raw0"]
    f = res.fields if isinstance(res, SRec) else None
    if f is None:
        return False
    opt_bool = lambda o: V.v_ite(v_is_none(o), False, V.unwrap_opt(o))
    cs = [
        v_eq(f["commit"], raw.value["commit"]),
        v_eq(f["tag"], opt_bool(raw.value["tag"])),
        v_eq(f["push"], opt_bool(raw.value["push"])),
        V.z3str(f["current_version"]) == _stripq(raw.value["current_version"]),
        V.z3str(f["version_pattern"]) == _stripq(raw.value["version_pattern"]),
        V.z3str(f["commit_message"]) == _stripq(V.v_ite(raw.present["commit_message"], raw.value["commit_message"], config.DEFAULT_COMMIT_MESSAGE)),
        V.z3str(f["tag_message"]) == _stripq(V.v_ite(raw.present["tag_message"], raw.value["tag_message"], config.DEFAULT_TAG_MESSAGE)),
    ]
    return b_and(*cs)


c = REG.new("bumpver.config._parse_config")
c.inline_callees = {"bumpver.config._parse_cfg_strings"}
c.param("raw_cfg", KRawCfg())
c.setup = lambda a, st: st.ghost.__setitem__("raw0", snapshot(a.raw_cfg))
# from the statement: "commit/tag/push booleans (tag and push requiring commit)"
c.ensures("C18._parse_config.returns_only_if_tag_and_push_have_commit", lambda a, res, cx: b_and(b_implies(v_truthy(res.fields["tag"]), v_truthy(res.fields["commit"])), b_implies(v_truthy(res.fields["push"]), v_truthy(res.fields["commit"]))))
c.ensures("C18._parse_config.effective_settings_are_a_function_of_the_raw_dictionary_booleans_unset_mean_false_strings_unquoted", _cfg_effective)
c.exsures(ValueError, "C18._parse_config.value_error_for_invalid_settings", lambda a, exc, cx: True)
c.exsures(_re.error)  # malformed pattern text
c.exsures(TypeError)
c.exsures(KeyError)
c.exsures(IndexError)

c = REG.new("bumpver.config._validate_version_with_pattern")
c.param("current_version", KStr())
c.param("version_pattern", KStr())
c.param("is_new_pattern", KBool())
c.exsures(ValueError)
c.exsures(_re.error)
c.exsures(KeyError)
c.exsures(IndexError)
c.trusted = "callers' view inside _parse_config: returns or raises; what it accepts is C01/C14 (parse_version_info bodies, is_valid_week_pattern)"

c = REG.new("bumpver.config._compile_file_patterns")
c.param("raw_cfg", KOpaque("rawcfg"))
c.param("is_new_pattern", KBool())
c.returns(KOpaque("PatternsByFile"))
c.exsures(ValueError)
c.exsures(_re.error)
c.exsures(KeyError)
c.exsures(IndexError)
c.trusted = "callers' view inside _parse_config: some compiled (file -> patterns) table or an error; the table's content is bounded (checks/c18.py) and C03's shadow"
