"""C18: the two configuration readers hand the same raw settings to _parse_config.

What the libraries do with the file text (configparser, toml) is library code (A-lib, executed in
the bounded matrix of checks/c18.py). What bumpver's own code does with their result is under
contract here: which section is chosen, how the three booleans are read (ini: the documented spellings;
TOML: the value itself), the defaults, and that the defaults/validation helper runs on exactly that
dictionary. From these clauses the relational statement follows for matching inputs: a TOML boolean b
and an ini spelling s with b == (lower(s) in TRUE_SPELLINGS) give the same commit/tag/push entries.

The sections of a file are modelled as dictionaries over the finite key domain SETTING_KEYS with
symbolic presence and symbolic values (FDict); other keys are never read by the functions under
contract."""
import configparser
import re as _re

import z3

from bumpver import config

from pyvc.abstractions import FDict
from pyvc.symexec import Val, Exc, ExcVal, fresh_name, Unsupported
from .common import *  # noqa
from .common import REG

# configparser's documented boolean spellings for "true" (RawConfigParser.BOOLEAN_STATES), written out
TRUE_SPELLINGS = ("1", "yes", "true", "on")
assert sorted(k for k, v in configparser.RawConfigParser.BOOLEAN_STATES.items() if v) == sorted(TRUE_SPELLINGS)
BOOL_DEFAULTS = {"commit": False, "tag": None, "push": None}  # README: commit defaults to False; tag/push unset
STR_KEYS = ("current_version", "version_pattern", "commit_message", "tag_message", "tag_scope", "pre_commit_hook", "post_commit_hook")
SETTING_KEYS = STR_KEYS + tuple(BOOL_DEFAULTS) + ("file_patterns",)


def fresh_section(name, assumptions, ini):
    """One configuration section as the library hands it over: ini values are strings, TOML booleans are booleans."""
    present, value = {}, {}
    for k in SETTING_KEYS:
        present[k] = SBool(z3.Bool(f"{name}.has[{k}]"))
        if k in BOOL_DEFAULTS:
            value[k] = SStr(z3.String(f"{name}[{k}]")) if ini else SBool(z3.Bool(f"{name}[{k}]"))
        elif k == "file_patterns":
            value[k] = SOpaque("FilePatternsRaw", z3.Const(f"{name}[{k}]", V.opaque_sort("FilePatternsRaw")))
        else:
            value[k] = SStr(z3.String(f"{name}[{k}]"))
    if ini:
        present["file_patterns"] = False  # an ini section cannot hold a table; file patterns live in their own section
    return FDict(present, value)


def snapshot(d):
    return FDict(dict(d.present), dict(d.value))


def same_entry(res, sec, k):
    """Key k is in res iff it is in sec, with the same value."""
    return b_and(b_iff(res.present.get(k, False), sec.present.get(k, False)), b_implies(sec.present.get(k, False), v_eq(res.value[k], sec.value[k])))


def _kept_or_fresh(post, sec0):
    """file_patterns is the table that was there, or - only if there was none - an empty dictionary."""
    if post is sec0.value["file_patterns"]:
        return True
    if isinstance(post, dict) and not post:
        return b_not(sec0.present["file_patterns"])
    return False


# --------------------------------------------------------------------------- _set_raw_config_defaults (body)
class KSection(Kind):
    def __init__(self, ini=False):
        self.ini = ini

    def fresh(self, name, assumptions):
        return fresh_section(name, assumptions, self.ini)


def _defaults_effects(a, st, outcome):
    st.emit("RawDefaults", a.raw_cfg, outcome)


def _defaults_callee(ex, a, st, node):
    """Callers' view = the proved postcondition, applied as the effect on the caller's dictionary."""
    d = a.raw_cfg
    if isinstance(d, dict):
        # a concrete dictionary (no section found): decided concretely
        if "version_pattern" not in d:
            st.emit("RawDefaults", d, TypeError)
            return [Exc(ExcVal(TypeError, ("Missing version_pattern",)), st)]
        if "current_version" not in d:
            st.emit("RawDefaults", d, ValueError)
            return [Exc(ExcVal(ValueError, ("Missing 'current_version' configuration",)), st)]
        d.setdefault("file_patterns", {})
        st.emit("RawDefaults", d, "return")
        return [Val(None, st)]
    if not isinstance(d, FDict):
        raise Unsupported("_set_raw_config_defaults on a dictionary that is not a section")
    out = []
    no_vp = st.fork()
    no_vp.assume(V.to_z3_bool(b_not(d.present["version_pattern"])))
    no_vp.emit("RawDefaults", d, TypeError)
    out.append(Exc(ExcVal(TypeError, ("Missing version_pattern",)), no_vp))
    no_cv = st.fork()
    no_cv.assume(V.to_z3_bool(b_and(d.present["version_pattern"], b_not(d.present["current_version"]))))
    no_cv.emit("RawDefaults", d, ValueError)
    out.append(Exc(ExcVal(ValueError, ("Missing 'current_version' configuration",)), no_cv))
    st.assume(V.to_z3_bool(b_and(d.present["version_pattern"], d.present["current_version"])))
    had = d.present["file_patterns"]
    old = d.value["file_patterns"]
    d.value["file_patterns"] = old if had is True else (EMPTY_FP if had is False else V.v_ite(had, old, EMPTY_FP))
    d.present["file_patterns"] = True
    st.emit("RawDefaults", d, "return")
    out.append(Val(None, st))
    return out


EMPTY_FP = SOpaque("FilePatternsRaw", z3.Const("empty_file_patterns", V.opaque_sort("FilePatternsRaw")))

c = REG.new("bumpver.config._set_raw_config_defaults")
c.param("raw_cfg", KSection())
c.callee_hook = _defaults_callee
c.effects = _defaults_effects
c.setup = lambda a, st: st.ghost.__setitem__("sec0", snapshot(a.raw_cfg))
c.ensures(
    "C18._set_raw_config_defaults.returns_only_with_both_version_keys_and_only_adds_empty_file_patterns",
    lambda a, res, cx: b_and(
        cx.ghost["sec0"].present["current_version"],
        cx.ghost["sec0"].present["version_pattern"],
        # the dictionary as it is when the function returns (the parameter object of *this* path)
        *[same_entry(cx.ghost["param_objs"]["raw_cfg"], cx.ghost["sec0"], k) for k in SETTING_KEYS if k != "file_patterns"],
        cx.ghost["param_objs"]["raw_cfg"].present["file_patterns"],
        _kept_or_fresh(cx.ghost["param_objs"]["raw_cfg"].value["file_patterns"], cx.ghost["sec0"]),
    ),
)
c.exsures(TypeError, "C18._set_raw_config_defaults.type_error_only_without_version_pattern", lambda a, exc, cx: b_not(cx.ghost["sec0"].present["version_pattern"]))
c.exsures(ValueError, "C18._set_raw_config_defaults.value_error_only_without_current_version", lambda a, exc, cx: b_not(cx.ghost["sec0"].present["current_version"]))


# --------------------------------------------------------------------------- toml.load (library, callers' view)
def _toml_load_hook(ex, a, st, node):
    assumptions = []
    n = fresh_name("toml")
    secs = {k: fresh_section(f"{n}.{k}", assumptions, ini=False) for k in ("tool.bumpver", "bumpver", "pycalver")}
    tool = FDict({"bumpver": SBool(z3.Bool(f"{n}.has[tool.bumpver]"))}, {"bumpver": secs["tool.bumpver"]})
    full = FDict(
        {"tool": SBool(z3.Bool(f"{n}.has[tool]")), "bumpver": SBool(z3.Bool(f"{n}.has[bumpver]")), "pycalver": SBool(z3.Bool(f"{n}.has[pycalver]"))},
        {"tool": tool, "bumpver": secs["bumpver"], "pycalver": secs["pycalver"]},
    )
    for x in assumptions:
        st.assume(x)
    st.ghost["toml_doc"] = dict(full=snapshot(full), tool=snapshot(tool), secs={k: snapshot(v) for k, v in secs.items()})
    out = [Val(full, st)]
    bad = st.fork()
    out.append(Exc(ExcVal(ValueError, (V.sstr(fresh_name("tomlerr")),)), bad))  # toml.TomlDecodeError is a ValueError
    return out


import toml  # noqa: E402
from pyvc import models as _models  # noqa: E402

_models.EXTRA_FN_MODELS[toml.load] = lambda ex, args, kwargs, st, node: _toml_load_hook(ex, None, st, node)
c = REG.new("toml.load")
c.param("f", KOpaque("file"))
c.callee_hook = _toml_load_hook
c.trusted = "A-lib: toml.load returns the document as nested dictionaries (tables [tool.bumpver] / [bumpver] / [pycalver] with the settings as TOML values) or raises TomlDecodeError (a ValueError); executed for real in checks/c18.py"


# --------------------------------------------------------------------------- _parse_toml (body)
def _chosen_toml(cx):
    """Section precedence stated by the property's list: [tool.bumpver], then [bumpver], then legacy [pycalver]; else nothing."""
    doc = cx.ghost.get("toml_doc")
    if doc is None:
        return None
    full, tool, secs = doc["full"], doc["tool"], doc["secs"]
    use_tb = b_and(full.present["tool"], tool.present["bumpver"])
    use_b = b_and(b_not(use_tb), full.present["bumpver"])
    use_p = b_and(b_not(use_tb), b_not(use_b), full.present["pycalver"])
    return [(use_tb, secs["tool.bumpver"]), (use_b, secs["bumpver"]), (use_p, secs["pycalver"])], b_and(b_not(use_tb), b_not(use_b), b_not(use_p))


def _toml_clause(kind):
    def fn(a, res, cx):
        ch = _chosen_toml(cx)
        if ch is None or not isinstance(res, FDict):
            return False
        alts, none = ch
        cs = []
        for g, sec in alts:
            if kind == "strings":
                cs.append(b_implies(g, b_and(*[same_entry(res, sec, k) for k in STR_KEYS])))
            elif kind == "booleans":
                for k, dflt in BOOL_DEFAULTS.items():
                    cs.append(b_implies(g, b_and(res.present.get(k, False), v_eq(res.value[k], V.v_ite(sec.present[k], sec.value[k], dflt)))))
            elif kind == "file_patterns":
                cs.append(b_implies(b_and(g, sec.present["file_patterns"]), b_and(res.present["file_patterns"], v_eq(res.value["file_patterns"], sec.value["file_patterns"]))))
        if kind == "strings":
            cs.append(b_not(none))  # without any section there is no version_pattern: the helper raises
        if kind == "defaults_last":
            evs = [e for e in cx.new if e[0] == "RawDefaults"]
            return len(evs) == 1 and evs[0][1] is res
        return b_and(*cs)

    return fn


c = REG.new("bumpver.config._parse_toml")
c.param("cfg_buffer", KOpaque("file"))
c.ensures("C18._parse_toml.section_precedence_and_string_settings_passed_on_unchanged", _toml_clause("strings"))
c.ensures("C18._parse_toml.booleans_are_the_toml_values_or_the_documented_defaults", _toml_clause("booleans"))
c.ensures("C18._parse_toml.file_patterns_table_passed_on", _toml_clause("file_patterns"))
c.ensures("C18._parse_toml.defaults_and_validation_run_once_on_the_returned_dictionary", _toml_clause("defaults_last"), internal=True)
c.exsures(TypeError, "C18._parse_toml.type_error_only_without_version_pattern", lambda a, exc, cx: True)
c.exsures(ValueError, "C18._parse_toml.value_error_only_for_undecodable_text_or_missing_current_version", lambda a, exc, cx: True)


# --------------------------------------------------------------------------- configparser object (library, callers' view)
class CfgParser:
    """The _ConfigParser after read_file: a finite set of sections (FDict of str values) + the opaque file-pattern sections."""

    def __init__(self, name, assumptions):
        self.name = name
        self.loaded = False
        self.secs = {k: fresh_section(f"{name}.{k}", assumptions, ini=True) for k in ("pycalver", "bumpver")}
        self.has = {k: SBool(z3.Bool(f"{name}.has_section[{k}]")) for k in ("pycalver", "bumpver", "pycalver:file_patterns", "bumpver:file_patterns")}

    def __pyvc_clone__(self, memo):
        return self  # immutable after construction apart from `loaded`, which only grows monotonically on every path

    def __pyvc_method__(self, ex, name, args, kwargs, st, node):
        if name in ("read_file", "readfp"):
            self.loaded = True
            st.emit("CfgRead", args[0] if args else None)
            bad = st.fork()
            return [Val(None, st), Exc(ExcVal(ValueError, (V.sstr(fresh_name("cfgerr")),)), bad)]  # configparser.Error: see A-lib note
        if name == "has_section" and isinstance(args[0], str):
            if args[0] not in self.has:
                return [Val(False, st)]
            return [Val(self.has[args[0]], st)]
        if name == "items" and isinstance(args[0], str) and args[0] in self.secs:
            from pyvc.abstractions import FDictItems

            return [Val(FDictItems(snapshot(self.secs[args[0]])), st)]
        raise Unsupported(f"_ConfigParser.{name}")

    def __pyvc_hasattr__(self, attr):
        return attr in ("read_file", "has_section", "items")


def _cfgparser_hook(ex, a, st, node):
    assumptions = []
    p = CfgParser(fresh_name("cfgparser"), assumptions)
    for x in assumptions:
        st.assume(x)
    st.ghost["cfgparser"] = p
    return [Val(p, st)]


def _cfgparser_ctor(ex, args, kwargs, st, node):
    """Call-site precondition of the assumed library view (A-lib): "a section is the dictionary of the strings as
    written" describes configparser's DEFAULT dialect only. Any constructor option (inline_comment_prefixes,
    delimiters, comment_prefixes, interpolation, allow_no_value, strict, converters ...) or another base class than
    RawConfigParser changes what a written value means in setup.cfg but not in TOML, so the INI reader would stop
    agreeing with the TOML reader (C18). The view may be assumed only for `_ConfigParser()` on the raw base."""
    import configparser

    import inspect

    _defaults = {n: q.default for n, q in inspect.signature(configparser.RawConfigParser.__init__).parameters.items() if q.default is not inspect.Parameter.empty}
    # spelling out a default (strict=True, delimiters=("=", ":")) changes nothing and is accepted
    explicit_defaults_only = all(k in _defaults and not V.contains_sym(v) and (v == _defaults[k] or v is _defaults[k]) for k, v in kwargs.items())
    default_dialect = not args and explicit_defaults_only and configparser.RawConfigParser in config._ConfigParser.__mro__ and not any(
        k is not configparser.RawConfigParser and issubclass(k, configparser.RawConfigParser) and k is not config._ConfigParser for k in config._ConfigParser.__mro__
    )
    overridden = sorted(n for n in vars(config._ConfigParser) if not n.startswith("__") and not n.startswith("_abc_") and n != "optionxform")
    ex.side_obligations.append(("C18._ConfigParser.constructed_in_the_default_dialect_of_the_raw_parser", list(st.pc), bool(default_dialect and not overridden), ("C18",)))
    return _cfgparser_hook(ex, None, st, node)


_models.EXTRA_FN_MODELS[config._ConfigParser] = _cfgparser_ctor
c = REG.new("bumpver.config._ConfigParser")
c.callee_hook = _cfgparser_hook
c.trusted = "A-lib: configparser.RawConfigParser with case-preserving option names: sections are dictionaries of strings; executed for real in checks/c18.py"


def _cfg_file_patterns_hook(ex, a, st, node):
    p = a.cfg_parser
    res = SOpaque("FilePatternsRaw", z3.Const(fresh_name("ini_file_patterns"), V.opaque_sort("FilePatternsRaw")))
    st.emit("CfgFilePatterns", p, res)
    return [Val(res, st)]


def _cfg_file_patterns_as_dict(ex, gen, st, node):
    p = gen.args[0] if gen.args else gen.kwargs.get("cfg_parser")
    res = SOpaque("FilePatternsRaw", z3.Const(fresh_name("ini_file_patterns"), V.opaque_sort("FilePatternsRaw")))
    st.emit("CfgFilePatterns", p, res)
    return res


c = REG.new("bumpver.config._parse_cfg_file_patterns")
c.param("cfg_parser", KOpaque("cfgparser"))
c.callee_hook = _cfg_file_patterns_hook
c.as_dict = _cfg_file_patterns_as_dict
c.trusted = "B: the (file, patterns) pairs of the [bumpver:file_patterns] section, one stripped non-empty line per pattern - bounded matrix in checks/c18.py"


# --------------------------------------------------------------------------- _parse_cfg (body)
def _true_spelling(s):
    """The value, lower-cased (A-str: str.lower is the uninterpreted function LOWER), is one of the documented spellings."""
    from pyvc.models import LOWER

    low = LOWER(V.z3str(s))
    return z3.Or(*[low == z3.StringVal(w) for w in TRUE_SPELLINGS])


def _cfg_clause(kind):
    def fn(a, res, cx):
        p = cx.ghost.get("cfgparser")
        if p is None or not isinstance(res, FDict):
            return False
        # legacy [pycalver] first, then [bumpver] (an ini file holds one of them)
        use_p = p.has["pycalver"]
        use_b = b_and(b_not(use_p), p.has["bumpver"])
        alts = [(use_p, p.secs["pycalver"]), (use_b, p.secs["bumpver"])]
        cs = [b_or(use_p, use_b)]
        for g, sec in alts:
            if kind == "strings":
                cs.append(b_implies(g, b_and(*[same_entry(res, sec, k) for k in STR_KEYS])))
            elif kind == "booleans":
                for k, dflt in BOOL_DEFAULTS.items():
                    want = V.v_ite(sec.present[k], SBool(_true_spelling(sec.value[k])), dflt)
                    cs.append(b_implies(g, b_and(res.present.get(k, False), v_eq(res.value[k], want))))
        if kind == "file_patterns":
            evs = [e for e in cx.new if e[0] == "CfgFilePatterns"]
            return len(evs) == 1 and evs[0][1] is p and b_and(res.present["file_patterns"], v_eq(res.value["file_patterns"], evs[0][2]))
        if kind == "defaults_last":
            evs = [e for e in cx.new if e[0] == "RawDefaults"]
            reads = [e for e in cx.new if e[0] == "CfgRead"]
            return len(evs) == 1 and evs[0][1] is res and len(reads) == 1 and reads[0][1] is a.cfg_buffer
        return b_and(*cs)

    return fn


c = REG.new("bumpver.config._parse_cfg")
c.param("cfg_buffer", KOpaque("file"))
c.ensures("C18._parse_cfg.section_precedence_and_string_settings_passed_on_unchanged", _cfg_clause("strings"))
c.ensures("C18._parse_cfg.booleans_true_exactly_for_the_documented_spellings_else_defaults", _cfg_clause("booleans"))
c.ensures("C18._parse_cfg.file_patterns_are_those_of_the_file_patterns_section", _cfg_clause("file_patterns"), internal=True)
c.ensures("C18._parse_cfg.reads_the_given_buffer_once_and_validates_the_returned_dictionary", _cfg_clause("defaults_last"), internal=True)
c.exsures(ValueError, "C18._parse_cfg.value_error_only_for_missing_section_or_key_or_unreadable_text", lambda a, exc, cx: True)
c.exsures(TypeError, "C18._parse_cfg.type_error_only_without_version_pattern", lambda a, exc, cx: True)


# --------------------------------------------------------------------------- _parse_config (body): effective settings from the raw dictionary
from pyvc import strmodels as _sm  # noqa: E402
from pyvc.models import PathVal  # noqa: E402


class KRawCfg(Kind):
    """The dictionary the readers return: version keys present (guaranteed by _set_raw_config_defaults), booleans as
    bool or None (what both readers produce), file_patterns present."""

    def fresh(self, name, assumptions):
        d = fresh_section(name, assumptions, ini=False)
        for k in ("current_version", "version_pattern", "file_patterns") + tuple(BOOL_DEFAULTS):
            d.present[k] = True
        d.value["commit"] = SBool(z3.Bool(f"{name}[commit]"))
        for k in ("tag", "push"):
            d.value[k] = SOpt(z3.Bool(f"{name}[{k}]?none"), SBool(z3.Bool(f"{name}[{k}]")))
        return d


def _stripq(x):
    return _sm.PY_STRIP_CHARS(V.z3str(x), z3.StringVal("'\" "))


def _cfg_effective(a, res, cx):
    raw = cx.ghost["raw0"]
    f = res.fields if isinstance(res, SRec) else None
    if f is None:
        return False
    opt_bool = lambda o: V.v_ite(v_is_none(o), False, V.unwrap_opt(o))
    cs = [
        v_eq(f["commit"], raw.value["commit"]),
        v_eq(f["tag"], opt_bool(raw.value["tag"])),
        v_eq(f["push"], opt_bool(raw.value["push"])),
        V.z3str(f["current_version"]) == _stripq(raw.value["current_version"]),
        V.z3str(f["version_pattern"]) == _stripq(raw.value["version_pattern"]),
        V.z3str(f["commit_message"]) == _stripq(V.v_ite(raw.present["commit_message"], raw.value["commit_message"], config.DEFAULT_COMMIT_MESSAGE)),
        V.z3str(f["tag_message"]) == _stripq(V.v_ite(raw.present["tag_message"], raw.value["tag_message"], config.DEFAULT_TAG_MESSAGE)),
    ]
    return b_and(*cs)


c = REG.new("bumpver.config._parse_config")
c.inline_callees = {"bumpver.config._parse_cfg_strings"}
c.param("raw_cfg", KRawCfg())
c.setup = lambda a, st: st.ghost.__setitem__("raw0", snapshot(a.raw_cfg))
# from the statement: "commit/tag/push booleans (tag and push requiring commit)"
c.ensures("C18._parse_config.returns_only_if_tag_and_push_have_commit", lambda a, res, cx: b_and(b_implies(v_truthy(res.fields["tag"]), v_truthy(res.fields["commit"])), b_implies(v_truthy(res.fields["push"]), v_truthy(res.fields["commit"]))))
c.ensures("C18._parse_config.effective_settings_are_a_function_of_the_raw_dictionary_booleans_unset_mean_false_strings_unquoted", _cfg_effective)
c.exsures(ValueError, "C18._parse_config.value_error_for_invalid_settings", lambda a, exc, cx: True)
c.exsures(_re.error)  # malformed pattern text
c.exsures(TypeError)
c.exsures(KeyError)
c.exsures(IndexError)

c = REG.new("bumpver.config._validate_version_with_pattern")
c.param("current_version", KStr())
c.param("version_pattern", KStr())
c.param("is_new_pattern", KBool())
c.exsures(ValueError)
c.exsures(_re.error)
c.exsures(KeyError)
c.exsures(IndexError)
c.trusted = "callers' view inside _parse_config: returns or raises; what it accepts is C01/C14 (parse_version_info bodies, is_valid_week_pattern)"

c = REG.new("bumpver.config._compile_file_patterns")
c.param("raw_cfg", KOpaque("rawcfg"))
c.param("is_new_pattern", KBool())
c.returns(KOpaque("PatternsByFile"))
c.exsures(ValueError)
c.exsures(_re.error)
c.exsures(KeyError)
c.exsures(IndexError)
c.trusted = "callers' view inside _parse_config: some compiled (file -> patterns) table or an error; the table's content is bounded (checks/c18.py) and C03's shadow"


# --------------------------------------------------------------------------- _parse_current_version_default_pattern (body)
# "always including the config file's own current_version line": the line is looked for inside the sections the
# statement lists - [bumpver] (setup.cfg, bumpver.toml, .bumpver.toml), [tool.bumpver] (pyproject.toml), legacy [pycalver].
CONFIG_HEADERS = ("[bumpver]", "[tool.bumpver]", "[pycalver]")
G_SEC = z3.Function("ghost_in_config_section", z3.SeqSort(z3.StringSort()), z3.IntSort(), z3.BoolSort())


def _lines_of(a):
    return _sm.SPLITLINES(V.z3str(a.raw_cfg_text))


def _is_header(line):
    from pyvc.models import STRIP_WS

    s = STRIP_WS(line)
    return z3.Or(*[s == z3.StringVal(h) for h in CONFIG_HEADERS])


def _is_other_section(line):
    n = z3.Length(line)
    return z3.And(n > 0, z3.SubString(line, 0, 1) == z3.StringVal("["), z3.SubString(line, n - 1, 1) == z3.StringVal("]"))


def _sec_defs_at(a, k):
    """in_section(0) = False; in_section(k+1): a listed header opens it, any other [..] line closes it, else unchanged."""
    L = _lines_of(a)
    kt = V.z3int(k)
    line = L[kt]
    return [
        G_SEC(L, 0) == z3.BoolVal(False),
        G_SEC(L, kt + 1) == z3.If(_is_header(line), z3.BoolVal(True), z3.If(_is_other_section(line), z3.BoolVal(False), G_SEC(L, kt))),
    ]


def _cvdp_returns(a, res, cx):
    k = cx.ghost.get("loop_k")
    if k is None:
        return False  # a pattern was returned without a line of the file
    L = _lines_of(a)
    kt = V.z3int(k)
    raw = cx.ghost["raw0"]
    line = L[kt]
    return b_and(
        G_SEC(L, kt),
        z3.PrefixOf(z3.StringVal("current_version"), line),
        # the line with the version text replaced by the version pattern (str.replace: A-str)
        V.z3str(res) == _sm.PY_REPLACE_ALL(line, V.z3str(raw.value["current_version"]), V.z3str(raw.value["version_pattern"])),
    )


c = REG.new("bumpver.config._parse_current_version_default_pattern")
c.param("raw_cfg", KRawCfg())
c.param("raw_cfg_text", KStr())
c.setup = lambda a, st: st.ghost.__setitem__("raw0", snapshot(a.raw_cfg))
c.loop(
    0,
    LoopSpec(
        carried={"is_config_section": KBool()},
        invariant=lambda a, vs, k, cx, st: b_iff(v_truthy(vs["is_config_section"]), G_SEC(_lines_of(a), V.z3int(k))),
        name="C18+C03+C08._parse_current_version_default_pattern.loop",
        props=("C18", "C03", "C08"),
        lemmas=lambda a, k, st: _sec_defs_at(a, k),
    ),
)
c.ensures("C18+C03+C08._parse_current_version_default_pattern.returns_the_current_version_line_of_a_listed_config_section_with_the_pattern_put_in", _cvdp_returns)
c.exsures(ValueError, "C18._parse_current_version_default_pattern.value_error_if_no_such_line", lambda a, exc, cx: True)


# --------------------------------------------------------------------------- _parse_raw_config (body): reader by format + the config file's own pattern
from .config_init import KCtx  # noqa: E402
from pyvc.models import FileVal, FS_CONTENT  # noqa: E402

FP_HAS = z3.Function("file_patterns_has_key", V.opaque_sort("FilePatternsRaw"), z3.StringSort(), z3.BoolSort())


class FPTable:
    """The file_patterns table of a raw configuration: an opaque table with key membership and a ghost list of additions."""

    def __init__(self, t):
        self.t = t
        self.added = []

    def __pyvc_clone__(self, memo):
        r = FPTable(self.t)
        r.added = list(self.added)
        return r

    def __pyvc_contains__(self, key):
        hit = [k for k, _ in self.added]
        return b_or(SBool(FP_HAS(self.t, V.z3str(key))), *[v_eq(k, key) for k in hit])

    def __pyvc_setitem__(self, ex, idx, v, st, node):
        tgt = self
        try:
            again = ex.models._reeval_container(ex, node, st)
            if isinstance(again, FPTable):
                tgt = again
        except Exception:  # noqa
            pass
        tgt.added.append((idx, v))
        return [Outcome("fall", None, st)]


from pyvc.symexec import Outcome  # noqa: E402


def _reader_view(kind):
    def hook(ex, a, st, node):
        assumptions = []
        n = fresh_name(f"raw_{kind}")
        d = KRawCfg().fresh(n, assumptions)
        d.value["file_patterns"] = FPTable(z3.Const(f"{n}[file_patterns]", V.opaque_sort("FilePatternsRaw")))
        for x in assumptions:
            st.assume(x)
        out = []
        for cls in (ValueError, TypeError):
            bad = st.fork()
            bad.emit("Reader", kind, a.cfg_buffer, cls)
            out.append(Exc(ExcVal(cls, (V.sstr(fresh_name("excmsg")),)), bad))
        st.emit("Reader", kind, a.cfg_buffer, d)
        out.append(Val(d, st))
        return out

    return hook


for _kind, _qn in (("toml", "bumpver.config._parse_toml"), ("cfg", "bumpver.config._parse_cfg")):
    c = REG.add(Contract(_qn, variant="view"))
    c.param("cfg_buffer", KOpaque("file"))
    c.callee_hook = _reader_view(_kind)
    c.trusted = "callers' view of the reader inside _parse_raw_config: the raw dictionary established by the reader's own contract (version keys and file_patterns present), or TypeError/ValueError"


def _cvdp_view(ex, a, st, node):
    res = V.sstr(fresh_name("self_pattern"))
    bad = st.fork()
    st.emit("SelfPattern", a.raw_cfg, a.raw_cfg_text, res)
    return [Val(res, st), Exc(ExcVal(ValueError, ("Could not parse 'current_version'",)), bad)]


c = REG.add(Contract("bumpver.config._parse_current_version_default_pattern", variant="view"))
c.param("raw_cfg", KOpaque("rawcfg"))
c.param("raw_cfg_text", KStr())
c.callee_hook = _cvdp_view
c.trusted = "callers' view inside _parse_raw_config: some pattern text or ValueError; what it is: the contract on the body above"


def _same_raw(x, y):
    """The same raw dictionary (states are cloned at forks: compared by the identity of its file_patterns table)."""
    if not (isinstance(x, FDict) and isinstance(y, FDict)):
        return False
    tx, ty = x.value.get("file_patterns"), y.value.get("file_patterns")
    return isinstance(tx, FPTable) and isinstance(ty, FPTable) and tx.t.eq(ty.t)


def _raw_config_clause(kind):
    def fn(a, res, cx):
        readers = [e for e in cx.new if e[0] == "Reader"]
        opens = [e for e in cx.new if e[0] == "Open"]
        cfgpath = field(a.ctx, "config_filepath").s
        if len(readers) != 1 or not opens:
            return False
        r = readers[0]
        fmt = field(a.ctx, "config_format")
        if kind == "reader":
            # the file handed to the reader is the project's config file, opened as utf-8 text; reader by declared format
            f = r[2]
            ok_file = isinstance(f, FileVal) and f.path.s is cfgpath or (isinstance(f, FileVal) and v_eq(f.path.s, cfgpath) is True)
            o = opens[0]
            return b_and(ok_file, v_eq(o[1], cfgpath), o[2] == "rt", o[4] == "utf-8", v_eq(fmt, r[1]), _same_raw(res, r[3]))
        if kind == "self_pattern":
            table = res.value["file_patterns"] if isinstance(res, FDict) else None
            if not isinstance(table, FPTable):
                return False
            rel = field(a.ctx, "config_rel_path")
            had = SBool(FP_HAS(table.t, V.z3str(rel)))
            sp = [e for e in cx.new if e[0] == "SelfPattern"]
            if not table.added:
                # nothing added: allowed only if the table already had an entry for the config file (on this path)
                return b_and(had, len(sp) == 0)
            if len(table.added) != 1 or len(sp) != 1:
                return False
            k, v = table.added[0]
            e = sp[0]
            ver = sum(1 for x in cx.log if x and x[0] == "Write")
            text_ok = V.z3str(e[2]) == FS_CONTENT(V.z3str(cfgpath), z3.IntVal(ver))
            return b_and(b_not(had), v_eq(k, rel), isinstance(v, list) and len(v) == 1 and v_eq(v[0], e[3]), _same_raw(e[1], res), text_ok)
        raise KeyError(kind)

    return fn


c = REG.add(Contract("bumpver.config._parse_raw_config", variant="body"))
c.callee_variants = {"bumpver.config._parse_toml": "view", "bumpver.config._parse_cfg": "view", "bumpver.config._parse_current_version_default_pattern": "view"}
c.param("ctx", KCtx())
c.ensures("C18._parse_raw_config.reader_chosen_by_format_reads_the_config_file_as_utf8_and_its_dictionary_is_returned", _raw_config_clause("reader"), internal=True)
c.ensures("C18+C03+C08._parse_raw_config.file_patterns_always_include_the_config_files_own_current_version_line", _raw_config_clause("self_pattern"), internal=True)
c.exsures(ValueError)
c.exsures(TypeError)
c.exsures(OSError)
c.exsures(RuntimeError)
