"""C13: the diff path computes, file by file, exactly the data the write path writes."""
import subprocess as sp
import re as _re

import z3

from bumpver import rewrite, v2rewrite, v1rewrite, version, cli, config

from pyvc.symexec import Val, Exc, ExcVal, fresh_name, Outcome, Unsupported
from pyvc.models import PathVal
from pyvc import strmodels
from .common import *  # noqa
from .common import REG, k_vinfo
from .cli_kinds import KFilePatterns, k_config
from .rewrite import expected_rfd, file_ok, key_at, pats_at, _events_since_havoc, _open_ok, _no_write, PL, VI, REWRITE_OK


# --------------------------------------------------------------------------- sorted(iter_path_patterns_items(fp))
class PathItems:
    """list/sorted of iter_path_patterns_items(fp): (Path(key_i), patterns_i) for every configured
    file, all existing; `perm` maps the position in this list to the index of the file (identity for
    the generator's own order, an arbitrary bijection after sorted(): A-sort)."""

    __pyvc_symbolic_iter__ = True

    def __init__(self, fp, perm=None):
        self.fp, self.perm = fp, perm
        self.n = fp.n

    def index(self, k):
        return V.z3int(k) if self.perm is None else self.perm(V.z3int(k))

    def __pyvc_elem__(self, k):
        j = self.index(k)
        return (PathVal(SStr(self.fp.key_fn(j))), SOpaque("PatternList", pats_at(self.fp, j)))


def _ippi_as_list(ex, gen, st, node):
    from pyvc.contracts import Args

    env = ex.bind_args(gen.fr, gen.args, gen.kwargs)
    fp = Args(env).file_patterns
    out = []
    st.emit("ExistsPhase", fp)
    bad = st.fork()
    bad.log = bad.log + [("ExistsPhaseFailed",)]
    out.append(Exc(ExcVal(OSError, (V.sstr(fresh_name("missing")),)), bad))
    j = z3.Int(fresh_name("j"))
    from pyvc.models import FS_EXISTS

    st.assume(z3.ForAll([j], z3.Implies(z3.And(j >= 0, j < fp.n), FS_EXISTS(fp.key_fn(j), z3.IntVal(0)))))
    out.append(Val(PathItems(fp), st))
    return out


REG["bumpver.rewrite.iter_path_patterns_items"].as_list = _ippi_as_list


def sorted_path_items(ex, items, st):
    perm = z3.Function(fresh_name("sorted_perm"), z3.IntSort(), z3.IntSort())
    inv = z3.Function(fresh_name("sorted_perm_inv"), z3.IntSort(), z3.IntSort())
    k = z3.Int(fresh_name("k"))
    n = items.n
    # A-sort: sorted() returns a permutation of its input
    st.assume(z3.ForAll([k], z3.Implies(z3.And(k >= 0, k < n), z3.And(perm(k) >= 0, perm(k) < n, inv(perm(k)) == k))))
    st.assume(z3.ForAll([k], z3.Implies(z3.And(k >= 0, k < n), z3.And(inv(k) >= 0, inv(k) < n, perm(inv(k)) == k))))
    return PathItems(items.fp, perm)


# --------------------------------------------------------------------------- diff_lines / _patterns_with_change as seen by diff
class DiffLinesVal:
    def __init__(self, rfd):
        self.rfd = rfd
        self.n = z3.Int(fresh_name("ndifflines"))

    def __pyvc_len__(self):
        return SInt(self.n)

    __pyvc_symbolic_iter__ = True


def _diff_lines_hook(ex, a, st, node):
    st.emit("DiffLines", a.rfd)
    v = DiffLinesVal(a.rfd)
    st.assume(v.n >= 0)
    return [Val(v, st)]


c = REG.new("bumpver.rewrite.diff_lines")
c.param("rfd", KOpaque("RFD"))
c.callee_hook = _diff_lines_hook
c.trusted = "A-lib (difflib.unified_diff): the unified diff of old_lines -> new_lines, whose application to old_lines yields new_lines; bounded check in checks/c13.py"

for _mod in ("v2rewrite",):
    c = REG.new(f"bumpver.{_mod}._patterns_with_change")
    c.param("old_vinfo", KOpaque("VInfo"))
    c.param("new_vinfo", KOpaque("VInfo"))
    c.param("patterns", KOpaque("PatternList"))
    c.returns(KInt(ge=0))
    c.trusted = "pure counter (renders each pattern with the old and the new version); reads and writes nothing"


# --------------------------------------------------------------------------- diff (v2 / v1)
def _diff_iteration_ok(eng, a, st, k):
    """One iteration: open the file untranslated/utf-8, read it, close it, and hand to diff_lines the
    very RewrittenFileData that rewrite_files writes for that file."""
    ev = _events_since_havoc(st)
    if not ev:
        return True
    kinds = [e[0] for e in ev]
    if kinds != ["Open", "Read", "Close", "DiffLines"]:
        return False
    items = st.ghost.get("diff_items")
    if items is None:
        return False
    j = items.index(V.z3int(k) - 1)
    exp = expected_rfd(eng, a.file_patterns, a.new_vinfo, j)
    key = SStr(a.file_patterns.key_fn(j))
    rfd = ev[3][1]
    same = b_and(*[v_eq(field(rfd, f), field(exp, f)) for f in ("path", "line_sep", "old_lines", "new_lines")]) if isinstance(rfd, SRec) else False
    return b_and(_open_ok(ev[0], "rt"), v_eq(ev[0][1], key), v_eq(ev[1][1], key), same, file_ok(eng, a.file_patterns, j))


def _diff_contract(eng, mod):
    c = REG.new(f"bumpver.{mod}.diff")
    c.param("old_vinfo", KOpaque("VInfo"))
    c.param("new_vinfo", KOpaque("VInfo"))
    c.param("file_patterns", KFilePatterns())
    c.returns(KStr())
    c.loop(
        0,
        LoopSpec(
            carried={"full_diff": KStr(), "has_updated_version": KBool(), "ghost:files_ok_upto": KInt()},
            invariant=lambda a, vs, k, cx, st: b_and(_diff_iteration_ok(eng, a, st, k), _no_write(st)),
            name=f"C13.{eng}.diff.each_file_diffed_against_exactly_what_rewrite_files_writes",
            props=("C13", "C04"),
        ),
    )
    if eng == "v1":
        c.loop(1, LoopSpec(carried={"has_updated_version": KBool()}, invariant=lambda a, vs, k, cx, st: _no_write(st), name="C13.v1.diff.inner_loop_is_pure", props=("C13",)))
    c.ensures(f"C13.{eng}.diff.writes_nothing", lambda a, res, cx: _no_write(cx.st), internal=True)
    c.exsures(rewrite.NoPatternMatch, f"C13.{eng}.diff.no_pattern_match_writes_nothing", lambda a, exc, cx: _no_write(cx.st), internal=True)
    c.exsures(OSError, f"C13.{eng}.diff.missing_file_writes_nothing", lambda a, exc, cx: _no_write(cx.st), internal=True)
    if eng == "v1":
        for E in (KeyError, ValueError, IndexError):  # malformed legacy pattern text in str.format
            c.exsures(E, f"C13.{eng}.diff.{E.__name__}_writes_nothing", lambda a, exc, cx: _no_write(cx.st), internal=True)

    def eff(a, st, outcome):
        st.emit("DiffPhase", eng, outcome, a.file_patterns, a.new_vinfo)

    c.effects = eff
    return c


_diff_contract("v2", "v2rewrite")
_diff_contract("v1", "v1rewrite")


# --------------------------------------------------------------------------- cli: get_diff / _print_diff
def _vinfo_terms(v):
    from .v2version import rec_terms

    return rec_terms(v) if isinstance(v, SRec) else None


def _print_diff_clause(raised):
    def fn(a, exc, cx):
        ph = [e for e in cx.new if e[0] == "DiffPhase"]
        if any(e[0] in ("Write", "RewritePhase", "CommitPhase", "Vcs", "VcsStep", "Hook") for e in cx.new):
            return False
        if len(ph) > 1:
            return False
        cs = []
        for e in ph:
            # the diff is computed from cfg.file_patterns and the parsed NEW version - the same
            # arguments _update hands to rewrite_files
            parsed = [x for x in cx.new if x[0] == "CallResult" and x[1].endswith("parse_version_info")]
            newrec = [x[2] for x in parsed if v_eq(x[3].version_str, a.new_version) is True or x[3].version_str is a.new_version]
            cs.append(e[3] is field(a.cfg, "file_patterns"))
            cs.append(len(newrec) >= 1 and e[4] is newrec[-1])
            cs.append(b_iff(e[1] == "v2", v_truthy(field(a.cfg, "is_new_pattern"))))
        if not raised:
            cs.append(len(ph) == 1 and ph[0][2] == "return")
        elif issubclass(exc.cls, SystemExit):
            cs.append(v_eq(exc.args[0], 1))
        return b_and(*cs)

    return fn


c = REG.add(Contract("bumpver.cli._print_diff", variant="body"))
c.param("cfg", k_config())
c.param("new_version", KStr())
c.inline_callees = {"bumpver.cli.get_diff", "bumpver.cli._v2_get_diff", "bumpver.cli._v1_get_diff", "bumpver.cli._print_diff_str", "bumpver.cli._colored_diff_lines"}
c.ensures("C13._print_diff.diffs_the_configured_files_with_the_new_version_and_writes_nothing", _print_diff_clause(False))
c.exsures(SystemExit, "C13._print_diff.failure_exits_1_and_writes_nothing", _print_diff_clause(True))
for _E in (version.PatternError, _re.error, KeyError, ValueError, IndexError):  # malformed (legacy) pattern text
    c.exsures(_E, f"C13._print_diff.{_E.__name__}_writes_nothing", _print_diff_clause(True))
c.loop(("bumpver.cli._colored_diff_lines", 0), LoopSpec(carried={}, invariant=lambda a, vs, k, cx, st: True, name="C13._colored_diff_lines.loop", props=("C13",)))


c = REG.new("bumpver.v1version.format_version")
c.param("vinfo", KOpaque("VInfo"))
c.param("raw_pattern", KStr())
c.returns(KStr())
c.exsures(KeyError)
c.exsures(ValueError)
c.exsures(IndexError)
c.trusted = "callers' view of the legacy renderer: a pure function (C20)"
