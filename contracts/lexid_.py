"""Contracts on lexid.next_id (pinned dependency, real source read from the
environment that runs bumpver) — C17."""
import z3

import lexid

from pyvc.digits import KDigitStr, DigitStr
from .common import *  # noqa
from .common import REG

MAX_DIGITS = 40  # the one bound of C17 (DESIGN 2/C17); property asks for 1..7

DIGITS_RE = z3.Plus(z3.Range("0", "9"))
NINES_RE = z3.Plus(z3.Re("9"))


def s_int(x):
    if isinstance(x, DigitStr):
        return x.v
    if isinstance(x, str):
        return int(x)
    return SInt(z3.StrToInt(x.t))


def s_len(x):
    if isinstance(x, DigitStr):
        return x.n
    return V.v_len(x)


def s_isdigits(x):
    if isinstance(x, DigitStr):
        return True
    if isinstance(x, str):
        return x.isdigit()
    return z3.InRe(x.t, DIGITS_RE)


def s_allnines(x):
    if isinstance(x, DigitStr):
        return v_eq(x.v, 10**x.n - 1)
    if isinstance(x, str):
        return x != "" and set(x) == {"9"}
    return z3.InRe(x.t, NINES_RE)


def s_str_gt(a, b):
    if isinstance(a, DigitStr):
        return a.__pyvc_cmp__(">", b)
    return v_cmp(">", a, b)


# generic contract, used at call sites (v2version._incr_numeric, v1version.incr).
# Established for 1..MAX_DIGITS digits by the per-length variants below; for
# longer ids it is an assumption (listed in the evidence).
c = REG.new("lexid.next_id")
c.param("prev_id", KStr())
c.requires("C17.next_id.pre_digits", lambda a: s_isdigits(a.prev_id))
c.returns(KStr())
c.ensures("C17.next_id.generic.digits", lambda a, res, cx: s_isdigits(res))
c.ensures("C17.next_id.generic.int_greater", lambda a, res, cx: v_cmp(">", s_int(res), s_int(a.prev_id)))
c.ensures("C17.next_id.generic.len_not_shrinking", lambda a, res, cx: v_cmp(">=", s_len(res), s_len(a.prev_id)))
c.ensures("C17.next_id.generic.not_all_nines_in", lambda a, res, cx: b_not(s_allnines(a.prev_id)))
c.exsures(OverflowError, "C17.next_id.generic.overflow_only_at_max", lambda a, exc, cx: s_allnines(a.prev_id))
c.trusted = f"established per digit count 1..{MAX_DIGITS} by the variants lexid.next_id#n=<k>; assumed beyond"


def _shape(a, res):
    n = a.prev_id.n
    v = a.prev_id.v
    same = b_and(s_len(res) == n, v_eq(s_int(res), v_arith("+", v, 1)))
    longer = b_and(s_len(res) == n + 1, v_eq(s_int(res), v_arith("*", v_arith("+", v, 1), 11)))
    return b_or(same, longer)


def _setup_digit_mode(a, st):
    st.ghost["digit_mode"] = True


for n in range(1, MAX_DIGITS + 1):
    c = REG.add(Contract("lexid.next_id", variant=f"n={n}"))
    c.param("prev_id", KDigitStr(n))
    c.tier = "quick" if n <= 12 else "thorough"
    c.cost = n
    c.setup = _setup_digit_mode
    c.ensures("C17.next_id.int_greater", lambda a, res, cx: v_cmp(">", s_int(res), s_int(a.prev_id)))
    c.ensures("C17.next_id.str_greater", lambda a, res, cx: s_str_gt(res, a.prev_id))
    c.ensures("C17.next_id.no_digit_lost", lambda a, res, cx: s_len(res) >= a.prev_id.n)
    c.ensures("C17.next_id.successor_or_expansion", lambda a, res, cx: _shape(a, res))
    c.ensures("C17.next_id.returns_only_below_max", lambda a, res, cx: b_not(s_allnines(a.prev_id)))
    c.exsures(OverflowError, "C17.next_id.overflow_only_at_max", lambda a, exc, cx: s_allnines(a.prev_id))
