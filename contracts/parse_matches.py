"""C03/C07: match enumeration in parse._iter_for_pattern (the inner generator of parse.iter_matches).

A compiled regex is, by A-re, a *function* of the subject string: `search` finds nothing, or the leftmost match
whose span lies inside the subject (RX_FOUND / RX_START / RX_END below are uninterpreted functions of
(regex, subject); which strings match is not modelled). Over that view the body must

  * look at every line: iteration k handles line k, and there are len(lines) iterations;
  * yield, for line k, exactly when the regex finds a non-empty match on lines[k] (no occurrence is dropped, none
    is invented) - at most once per line, in line order;
  * report it truthfully: lineno == k, line == lines[k], pattern is the argument, span == the regex's span,
    match == the text under that span.

These are the per-match facts that the callers' view of iter_matches (contracts/rewrite_lines.py, MatchList.facts)
assumes: the match lies on an existing line, within it, is non-empty."""
import z3

from bumpver import parse

from pyvc import models as _models
from pyvc.remodels import SymMatch, SymMatchOpt
from pyvc.symexec import Val, fresh_name
from .common import *  # noqa
from .common import REG
from .rewrite_lines import KLines, PATS, pattern_obj

RX = V.opaque_sort("Regex")
RX_FOUND = z3.Function("re_search_found", RX, z3.StringSort(), z3.BoolSort())
RX_START = z3.Function("re_search_start", RX, z3.StringSort(), z3.IntSort())
RX_END = z3.Function("re_search_end", RX, z3.StringSort(), z3.IntSort())


def _regex_search(ex, obj, args, kwargs, st, node):
    """A-re for an opaque compiled regex: `search(subject)` is a function of (regex, subject)."""
    subject = args[0]
    s = V.z3str(subject)
    m = SymMatch(None, subject, fresh_name("rxm"))
    m.start, m.end = RX_START(obj.t, s), RX_END(obj.t, s)
    st.assume(z3.Implies(RX_FOUND(obj.t, s), m.facts()))
    return [Val(SymMatchOpt(z3.Not(RX_FOUND(obj.t, s)), m), st)]


_models.EXTRA_FN_MODELS[("opaque", "Regex", "search")] = _regex_search


class KPattern(Kind):
    def fresh(self, name, assumptions):
        t = z3.Const(name, PATS)
        p = pattern_obj(t)
        p.attrs["regexp"] = SOpaque("Regex", z3.Const(name + ".regexp", RX))
        return p


def _line(a, k):
    return z3.Select(a.lines.arr, V.z3int(k))


def _hit(a, k):
    """The regex finds a non-empty match on line k."""
    rx, ln = a.pattern.attrs["regexp"].t, _line(a, k)
    return z3.And(RX_FOUND(rx, ln), RX_END(rx, ln) > RX_START(rx, ln))


def _ifp_on_yield(a, v, st):
    k = st.ghost.get("loop_k")
    ok = False
    if isinstance(v, SRec) and v.cls is parse.PatternMatch and k is not None:
        rx, ln = a.pattern.attrs["regexp"].t, _line(a, k)
        span = field(v, "span")
        ok = b_and(
            _hit(a, k),
            v_eq(field(v, "lineno"), k),
            v_eq(field(v, "line"), SStr(ln)),
            isinstance(field(v, "pattern"), SOpaque) and field(v, "pattern").t.eq(a.pattern.t),
            isinstance(span, tuple) and len(span) == 2 and b_and(v_eq(span[0], SInt(RX_START(rx, ln))), v_eq(span[1], SInt(RX_END(rx, ln)))),
            v_eq(field(v, "match"), SStr(z3.SubString(ln, RX_START(rx, ln), RX_END(rx, ln) - RX_START(rx, ln)))),
        )
    st.ghost["yield_bad"] = b_or(st.ghost.get("yield_bad", False), b_not(ok))
    st.ghost["yields_in_iter"] = st.ghost.get("yields_in_iter", 0) + 1


def _ifp_invariant(a, vs, k, cx, st):
    good = b_not(v_truthy(vs["ghost:yield_bad"]))
    if st.ghost.get("loop_k") is None:  # on entry, assumed at the head of an arbitrary iteration, after the loop
        st.ghost["lines_covered"] = k  # after the loop: the number of iterations the loop has made
        return good
    n = st.ghost.get("yields_in_iter", 0)  # end of the body of iteration k-1: yields on this path (0 before the loop)
    last = V.z3int(k) - 1
    # the iteration that just ended yielded once (checked by on_yield: a hit, reported truthfully) or line k-1 has no hit
    return b_and(good, n <= 1, True if n == 1 else z3.Not(_hit(a, last)))


def _ifp_setup(a, st):
    st.ghost.update(yield_bad=False, yields_in_iter=0)


c = REG.new("bumpver.parse._iter_for_pattern")
c.param("lines", KLines())
c.param("pattern", KPattern())
c.on_yield = _ifp_on_yield
c.setup = _ifp_setup
c.loop(
    0,
    LoopSpec(
        carried={"ghost:yield_bad": KBool()},
        invariant=_ifp_invariant,
        name="C03+C07._iter_for_pattern.each_line_yields_exactly_when_the_regex_finds_a_non_empty_match",
        props=("C03", "C07"),
    ),
)
c.ensures(
    "C03+C07._iter_for_pattern.every_line_of_the_file_is_searched",
    lambda a, res, cx: cx.ghost.get("lines_covered") is not None and V.z3int(cx.ghost["lines_covered"]) == a.lines.n,
)
c.ensures("C03+C07._iter_for_pattern.every_yield_is_the_regex_match_of_its_line_reported_truthfully", lambda a, res, cx: b_not(v_truthy(cx.ghost["yield_bad"])))
