"""C03: overlap suppression in parse.iter_matches - `_has_overlap(needle, haystack)`.

Spans are (lineno, start, end) with start <= end (regex match spans). The function must answer whether the
needle shares a position with, or touches, a recorded span of the same line - symmetric in the two spans. The
property does not say whether touching spans count; the contract states the closed-interval test the code
documents ("needle starts before (or at) span end ... ends after (or at) span start") and what matters for C03:
the answer depends on BOTH ends of BOTH spans, so that an occurrence on either side of a recorded one is kept."""
import z3

from bumpver import parse

from .common import *  # noqa
from .common import REG


class SpanList:
    """A list of LineSpan records of symbolic length (three integer arrays)."""

    __pyvc_symbolic_iter__ = True

    def __init__(self, name):
        self.n = z3.Int(name + ".n")
        self.lineno = z3.Array(name + ".lineno", z3.IntSort(), z3.IntSort())
        self.start = z3.Array(name + ".start", z3.IntSort(), z3.IntSort())
        self.end = z3.Array(name + ".end", z3.IntSort(), z3.IntSort())

    def __pyvc_clone__(self, memo):
        return self

    def __pyvc_elem__(self, k):
        kt = V.z3int(k)
        return SRec(parse.LineSpan, dict(lineno=SInt(self.lineno[kt]), start=SInt(self.start[kt]), end=SInt(self.end[kt])))


class KSpanList(Kind):
    def fresh(self, name, assumptions):
        s = SpanList(name)
        j = z3.Int(name + ".j!wf")
        assumptions.append(s.n >= 0)
        return s


def _touches_or_intersects(a, j):
    h, n = a.haystack, a.needle
    return z3.And(h.lineno[j] == V.z3int(field(n, "lineno")), V.z3int(field(n, "start")) <= h.end[j], V.z3int(field(n, "end")) >= h.start[j])


def _shares_a_position(a, j):
    h, n = a.haystack, a.needle
    return z3.And(h.lineno[j] == V.z3int(field(n, "lineno")), V.z3int(field(n, "start")) < h.end[j], V.z3int(field(n, "end")) > h.start[j])


def _none_before(a, k):
    j = z3.Int("j!ov")
    return z3.ForAll([j], z3.Implies(z3.And(j >= 0, j < V.z3int(k)), z3.Not(_shares_a_position(a, j))))


def _result_clause(a, res, cx):
    """True only if some recorded span of the same line at least touches the needle (an occurrence clear of every
    recorded span is never suppressed); False only if no recorded span shares a position with it (two replacements
    are never applied to the same characters). Whether merely touching spans count is left open: C03 does not say."""
    j = z3.Int("j!res")
    inside = z3.And(j >= 0, j < a.haystack.n)
    touches_some = z3.Exists([j], z3.And(inside, _touches_or_intersects(a, j)))
    shares_some = z3.Exists([j], z3.And(inside, _shares_a_position(a, j)))
    k = cx.ghost.get("loop_k")
    if res is True:
        if k is not None:  # returned from inside the loop: the witness is the current index
            return z3.And(V.z3int(k) >= 0, V.z3int(k) < a.haystack.n, _touches_or_intersects(a, V.z3int(k)))
        return touches_some
    if res is False:
        return z3.Not(shares_some)
    r = V.to_z3_bool(v_truthy(res))  # a symbolic answer (e.g. an any(...) expression)
    return z3.And(z3.Implies(r, touches_some), z3.Implies(z3.Not(r), z3.Not(shares_some)))


c = REG.new("bumpver.parse._has_overlap")
c.param("needle", KRec(parse.LineSpan, dict(lineno=KInt(), start=KInt(), end=KInt())))
c.param("haystack", KSpanList())
c.returns(KBool())
c.loop(0, LoopSpec(carried={}, invariant=lambda a, vs, k, cx, st: _none_before(a, k), name="C03._has_overlap.loop", props=("C03",)))
c.ensures("C03._has_overlap.true_only_if_a_recorded_span_touches_false_only_if_none_shares_a_position", _result_clause)
