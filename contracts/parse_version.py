"""parse_version_info / is_valid bodies (C01, C02, C09): the full-match requirement and
totality. The regular expression engine is modelled by A-re:
    MATCHLEN(regex, s)  =  -1 if regex.match(s) is None, else len(match.group())
and the acceptance predicate used by every caller is *defined* from it."""
import re as _re

import z3

from bumpver import version, v2version, v2patterns, v1version, v1patterns, patterns as patterns_mod

from pyvc.symexec import Val, Exc, ExcVal, fresh_name, Unsupported
from pyvc.remodels import SymMatch, SymMatchOpt
from .common import *  # noqa
from .common import REG, k_vinfo, wf_vinfo
from .v2version import ACCEPTS, parsed_eq
from .cli import ACCEPTS_V1

RX = V.opaque_sort("Regex")
REGEX_OF = {"v2": z3.Function("spec_regex_of_v2", z3.StringSort(), RX), "v1": z3.Function("spec_regex_of_v1", z3.StringSort(), RX)}
MATCHLEN = z3.Function("re_match_len", RX, z3.StringSort(), z3.IntSort())
GROUPS = V.opaque_sort("GroupDict")
GROUPDICT = z3.Function("re_groupdict", RX, z3.StringSort(), GROUPS)
FIELDS_OK = {"v2": z3.Function("spec_fields_are_a_version_v2", GROUPS, z3.BoolSort()), "v1": z3.Function("spec_fields_are_a_version_v1", GROUPS, z3.BoolSort())}
COMPILES = {"v2": z3.Function("spec_pattern_compiles_v2", z3.StringSort(), z3.BoolSort()), "v1": z3.Function("spec_pattern_compiles_v1", z3.StringSort(), z3.BoolSort())}


def accepts_def(eng, p, s):
    """Definition of acceptance: the regex of the pattern matches a prefix of s whose length is
    len(s) (i.e. all of s), and the matched fields form a version (calendar-possible date)."""
    rx = REGEX_OF[eng](p)
    return z3.And(COMPILES[eng](p), MATCHLEN(rx, s) == z3.Length(s), FIELDS_OK[eng](GROUPDICT(rx, s)))


def _define_accepts(a, st):
    p, s = z3.Strings("p!acc s!acc")
    st.assume(z3.ForAll([p, s], ACCEPTS(p, s) == accepts_def("v2", p, s)))
    st.assume(z3.ForAll([p, s], ACCEPTS_V1(p, s) == accepts_def_v1(p, s)))


def accepts_def_v1(p, s):
    # the legacy parser does not demand a full match (C20 names that gap): a prefix match is enough
    rx = REGEX_OF["v1"](p)
    return z3.And(COMPILES["v1"](p), MATCHLEN(rx, s) >= 0, FIELDS_OK["v1"](GROUPDICT(rx, s)))


class RegexVal:
    """A compiled pattern's regexp (A-re)."""

    def __init__(self, t):
        self.t = t
        self.pattern = V.sstr(fresh_name("regex_source"))

    def __pyvc_method__(self, ex, name, args, kwargs, st, node):
        if name != "match":
            raise Unsupported(f"regexp.{name}")
        s = V.z3str(args[0])
        tag = fresh_name("m")
        m = SymMatch(None, args[0], tag)
        ml = MATCHLEN(self.t, s)
        isnone = ml < 0
        st.assume(ml >= -1)
        st.assume(ml <= z3.Length(s))
        st.assume(z3.Implies(ml >= 0, z3.And(m.start == 0, m.end == ml)))
        rx = self.t

        class _M(SymMatch):
            pass

        def method(ex_, name_, args_, kwargs_, st_, node_, m=m):
            if name_ == "groupdict":
                return [Val(SOpaque("GroupDict", GROUPDICT(rx, s)), st_)]
            return SymMatch.__pyvc_method__(m, ex_, name_, args_, kwargs_, st_, node_)

        m.__pyvc_method__ = method
        return [Val(SymMatchOpt(isnone, m), st)]


def _compile_hook(eng):
    def hook(ex, a, st, node):
        raw = a.raw_pattern if getattr(a, "raw_pattern", None) is not None else a.version_pattern
        if a.raw_pattern is not None and not (a.raw_pattern is a.version_pattern):
            raise Unsupported("compile_pattern(version_pattern, raw_pattern) in a function under contract")
        p = V.z3str(a.version_pattern)
        out = []
        bad = st.fork()
        bad.assume(z3.Not(COMPILES[eng](p)))
        out.append(Exc(ExcVal(_re.error, (V.sstr(fresh_name("re_error")),)), bad))
        st.assume(COMPILES[eng](p))
        rec = SRec(patterns_mod.Pattern, dict(version_pattern=a.version_pattern, raw_pattern=a.version_pattern, regexp=RegexVal(REGEX_OF[eng](p))))
        out.append(Val(rec, st))
        return out

    return hook


for _eng, _mod in (("v2", "v2patterns"), ("v1", "v1patterns")):
    c = REG.new(f"bumpver.{_mod}.compile_pattern")
    c.param("version_pattern", KStr())
    c.param("raw_pattern", KOpt(KStr()))
    c.callee_hook = _compile_hook(_eng)
    c.trusted = "A-re: the compiled regex is an (uninterpreted) function of the pattern text; re.error iff the text does not compile. What the compiler produces is C02/C07 (bounded + tables)"


# parse_field_values_to_vinfo as seen by parse_version_info
def _pfv_hook(eng):
    def hook(ex, a, st, node):
        gd = a.field_values if eng == "v2" else a.pattern_groups
        if not (isinstance(gd, SOpaque) and gd.sort == "GroupDict"):
            raise Unsupported("field values that are not a match's groupdict")
        ok = FIELDS_OK[eng](gd.t)
        out = []
        bad = st.fork()
        bad.assume(z3.Not(ok))
        # a date that does not exist (day 30 of February): datetime.date raises ValueError
        out.append(Exc(ExcVal(ValueError if eng == "v2" else ValueError, (V.sstr(fresh_name("valerr")),)), bad))
        if eng == "v1":
            bad2 = st.fork()
            bad2.assume(z3.Not(ok))
            out.append(Exc(ExcVal(version.PatternError, (V.sstr(fresh_name("pe")),)), bad2))
        st.assume(ok)
        if eng == "v2":
            assumptions = []
            res = k_vinfo(version).fresh(fresh_name("vinfo"), assumptions)
            for x in assumptions:
                st.assume(x)
            st.assume(wf_vinfo(version, res))
            st.emit("CallResult", "bumpver.v2version.parse_field_values_to_vinfo", res, a)
        else:
            res = SOpaque("V1VersionInfo", z3.Const(fresh_name("v1info"), V.opaque_sort("V1VersionInfo")))
        out.append(Val(res, st))
        return out

    return hook


c = REG.new("bumpver.v2version.parse_field_values_to_vinfo")
c.param("field_values", KOpaque("GroupDict"))
c.callee_hook = _pfv_hook("v2")
c.trusted = "B/X: returns a well-formed record (wf_vinfo) for the groups of a regex match, ValueError only for a calendar-impossible date; checked in checks/c02.py on every part value and date"

c = REG.new("bumpver.v1version._parse_version_info")
c.param("pattern_groups", KOpaque("GroupDict"))
c.callee_hook = _pfv_hook("v1")
c.trusted = "callers' view of the legacy field parser (C20)"


# --------------------------------------------------------------------------- parse_version_info bodies
def _pvi_body(eng, qual, acc):
    c = REG.add(Contract(qual, variant="body"))
    c.param("version_str", KStr())
    c.param("raw_pattern", KStr())
    c.setup = _define_accepts
    # from the property (C01/C02): "matches the configured version pattern in full"
    c.ensures(f"C01+C02+C09.{eng}.parse_version_info.returns_only_for_a_full_match_of_a_real_version", lambda a, res, cx: acc(V.z3str(a.raw_pattern), V.z3str(a.version_str)))
    c.exsures(version.PatternError, f"C01+C09.{eng}.parse_version_info.pattern_error_only_if_not_accepted", lambda a, exc, cx: z3.Not(acc(V.z3str(a.raw_pattern), V.z3str(a.version_str))))
    c.exsures(_re.error, f"C09.{eng}.parse_version_info.re_error_only_for_uncompilable_pattern", lambda a, exc, cx: z3.Not(COMPILES[eng](V.z3str(a.raw_pattern))))
    return c


_pvi_body("v2", "bumpver.v2version.parse_version_info", ACCEPTS)
_pvi_body("v1", "bumpver.v1version.parse_version_info", ACCEPTS_V1)


# --------------------------------------------------------------------------- is_valid bodies: total on compilable patterns (C09)
for _eng, _qual, _acc in (("v2", "bumpver.v2version.is_valid", ACCEPTS), ("v1", "bumpver.v1version.is_valid", ACCEPTS_V1)):
    c = REG.add(Contract(_qual, variant="body"))
    c.param("version_str", KStr())
    c.param("raw_pattern", KStr())
    c.ensures(f"C09.{_eng}.is_valid.total_and_equal_to_acceptance", lambda a, res, cx, _acc=_acc: b_iff(v_truthy(res), _acc(V.z3str(a.raw_pattern), V.z3str(a.version_str))))
    c.exsures(_re.error, f"C09.{_eng}.is_valid.only_an_uncompilable_pattern_can_break_it", lambda a, exc, cx: True)
