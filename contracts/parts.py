"""C02 part layer, P side: the format function of each part produces, for every value of the field's
range, a text in the language of the part's regex (language membership; Python's priority semantics
is the X side, checks/c02.py).  The regexes are read from the table of the current tree and
translated to SMT regular languages (A-re, restricted class: literals, classes, bounded repeats,
alternation, groups)."""
import z3

try:
    import re._parser as sre_parse
    import re._constants as sre_c
except ImportError:  # pragma: no cover
    import sre_parse
    import sre_constants as sre_c

from bumpver import v2patterns

from .common import *  # noqa
from .common import REG, CAL_RANGES


def re_to_z3(pattern):
    return _conv(sre_parse.parse(pattern))


def _conv(seq):
    parts = [_conv_item(op, av) for op, av in seq]
    if not parts:
        return z3.Re(z3.StringVal(""))
    return parts[0] if len(parts) == 1 else z3.Concat(*parts)


def _conv_item(op, av):
    name = str(op)
    if name == "LITERAL":
        return z3.Re(z3.StringVal(chr(av)))
    if name == "IN":
        alts = []
        for o2, a2 in av:
            n2 = str(o2)
            if n2 == "LITERAL":
                alts.append(z3.Re(z3.StringVal(chr(a2))))
            elif n2 == "RANGE":
                alts.append(z3.Range(chr(a2[0]), chr(a2[1])))
            elif n2 == "CATEGORY" and str(a2) == "CATEGORY_DIGIT":
                alts.append(z3.Range("0", "9"))
            else:
                raise ValueError(f"unsupported class item {n2}")
        return alts[0] if len(alts) == 1 else z3.Union(*alts)
    if name == "BRANCH":
        alts = [_conv(x) for x in av[1]]
        return z3.Union(*alts)
    if name == "SUBPATTERN":
        return _conv(av[3])
    if name in ("MAX_REPEAT", "MIN_REPEAT"):
        lo, hi, sub = av
        r = _conv(sub)
        if hi == sre_c.MAXREPEAT:
            return z3.Concat(*([r] * lo + [z3.Star(r)])) if lo else z3.Star(r)
        return z3.Loop(r, lo, hi)
    if name == "ANY":
        return z3.AllChar(z3.ReSort(z3.StringSort()))
    raise ValueError(f"unsupported regex node {name}")


PART_RANGE = {
    "YYYY": ("year_y", 1000, 9999), "GGGG": ("year_g", 1000, 9999), "YY": ("year_y", 2001, 2099), "0Y": ("year_y", 2001, 2099), "GG": ("year_g", 2001, 2099), "0G": ("year_g", 2001, 2099),
    "Q": ("quarter", 1, 4), "MM": ("month", 1, 12), "0M": ("month", 1, 12), "DD": ("dom", 1, 31), "0D": ("dom", 1, 31), "JJJ": ("doy", 1, 366), "00J": ("doy", 1, 366),
    "WW": ("week_w", 0, 53), "0W": ("week_w", 0, 53), "UU": ("week_u", 0, 53), "0U": ("week_u", 0, 53), "VV": ("week_v", 1, 53), "0V": ("week_v", 1, 53),
    "MAJOR": ("major", 0, None), "MINOR": ("minor", 0, None), "PATCH": ("patch", 0, None), "NUM": ("num", 0, None), "INC0": ("inc0", 0, None), "INC1": ("inc1", 1, None),
}


def _part_contract(part, fn_name, lo, hi):
    c = REG.add(Contract(f"bumpver.v2patterns.{fn_name}", variant=f"part={part}"))
    argname = {"_fmt_num": "val", "_fmt_bld": "val", "_fmt_yy": "year_y", "_fmt_0y": "year_y", "_fmt_gg": "year_g", "_fmt_0g": "year_g", "_fmt_0m": "month", "_fmt_0d": "dom", "_fmt_00j": "doy", "_fmt_0w": "week_w", "_fmt_0u": "week_u", "_fmt_0v": "week_v"}[fn_name]
    c.param(argname, KInt(ge=lo, le=hi))
    lang = re_to_z3(v2patterns.PART_PATTERNS[part])
    c.ensures(f"C02.part.{part}.rendered_text_is_in_the_language_of_the_part_regex", lambda a, res, cx: z3.InRe(V.z3str(res), lang))
    if fn_name == "_fmt_num":
        c.ensures(f"C02.part.{part}.rendered_text_is_the_decimal_numeral_of_the_value", lambda a, res, cx: z3.StrToInt(V.z3str(res)) == V.z3int(getattr(a, argname)))
    c.cost = 2
    return c


for _part, (_field, _lo, _hi) in PART_RANGE.items():
    _fn = v2patterns.PART_FORMATS[_part].__name__
    _part_contract(_part, _fn, _lo, _hi)

# BUILD / BLD: the id is a digit string
c = REG.add(Contract("bumpver.v2patterns._fmt_bld", variant="part=BLD"))
c.param("val", KStr())
c.requires("digits_value_at_least_1", lambda a: z3.And(z3.InRe(a.val.t, z3.Plus(z3.Range("0", "9"))), z3.StrToInt(a.val.t) >= 1))
c.ensures("C02+C17.part.BLD.leading_zeros_stripped_value_kept", lambda a, res, cx: z3.And(z3.InRe(V.z3str(res), re_to_z3(v2patterns.PART_PATTERNS["BLD"])), z3.StrToInt(V.z3str(res)) == z3.StrToInt(a.val.t)))
c.exsures(ValueError)
c = REG.add(Contract("bumpver.v2patterns._fmt_num", variant="part=BUILD"))
c.param("val", KStr())
c.requires("digits", lambda a: z3.InRe(a.val.t, z3.Plus(z3.Range("0", "9"))))
c.ensures("C02+C17.part.BUILD.rendered_verbatim_no_digit_lost", lambda a, res, cx: z3.And(V.z3str(res) == a.val.t, z3.InRe(V.z3str(res), re_to_z3(v2patterns.PART_PATTERNS["BUILD"]))))


def week_53(a):
    """Witness class of known finding KF-C02-week-53."""
    for nm in ("week_w", "week_u"):
        if hasattr(a, nm):
            return v_eq(getattr(a, nm), 53)
    for nm in ("val",):
        if hasattr(a, nm):
            return v_eq(getattr(a, nm), 53)
    return False
