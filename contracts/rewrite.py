"""Contracts on bumpver.rewrite / v2rewrite / v1rewrite (C03, C04, C06, C13)."""
import z3

from bumpver import rewrite, v2rewrite, v1rewrite, version, parse

from pyvc.symexec import Val, Exc, ExcVal, fresh_name, Outcome
from pyvc import strmodels
from pyvc.models import FS_CONTENT, FS_EXISTS, PathVal, fs_version
from .common import *  # noqa
from .common import REG
from .cli_kinds import FilePatterns, KFilePatterns

_SEQS = strmodels.LINES
PL = V.opaque_sort("PatternList")
VI = V.opaque_sort("VInfo")
REWRITTEN = {"v2": z3.Function("spec_rewritten_lines_v2", PL, VI, _SEQS, _SEQS), "v1": z3.Function("spec_rewritten_lines_v1", PL, VI, _SEQS, _SEQS)}
REWRITE_OK = {"v2": z3.Function("spec_all_patterns_match_v2", PL, _SEQS, z3.BoolSort()), "v1": z3.Function("spec_all_patterns_match_v1", PL, _SEQS, z3.BoolSort())}


# --------------------------------------------------------------------------- detect_line_sep (C04)
def spec_sep(content):
    c = V.z3str(content)
    return SStr(z3.If(z3.Contains(c, z3.StringVal("\r\n")), z3.StringVal("\r\n"), z3.If(z3.Contains(c, z3.StringVal("\r")), z3.StringVal("\r"), z3.StringVal("\n"))))


c = REG.new("bumpver.rewrite.detect_line_sep")
c.param("content", KStr())
c.returns(KStr())
c.ensures("C04.detect_line_sep.crlf_before_cr_before_lf", lambda a, res, cx: v_eq(res, spec_sep(a.content)))
c.ensures("C04.detect_line_sep.non_empty_separator", lambda a, res, cx: v_cmp(">", v_len(res), 0))


# --------------------------------------------------------------------------- rewrite_lines as seen by callers
def _rl_contract(eng, mod):
    c = REG.new(f"bumpver.{mod}.rewrite_lines")
    c.param("patterns", KOpaque("PatternList"))
    c.param("new_vinfo", KOpaque("VInfo"))
    c.param("old_lines", KOpaque("Lines"))
    c.returns(KOpaque("Lines"))
    c.ensures(f"C04.{eng}.rewrite_lines.function_of_arguments", lambda a, res, cx: res.t == REWRITTEN[eng](a.patterns.t, a.new_vinfo.t, a.old_lines.t))
    c.ensures(f"C06.{eng}.rewrite_lines.returns_only_if_every_pattern_matched", lambda a, res, cx: REWRITE_OK[eng](a.patterns.t, a.old_lines.t))
    c.exsures(rewrite.NoPatternMatch, f"C06.{eng}.rewrite_lines.no_pattern_match_iff_some_pattern_unmatched", lambda a, exc, cx: z3.Not(REWRITE_OK[eng](a.patterns.t, a.old_lines.t)))
    c.trusted = "callers' view: rewriting of the lines of one file is an (uninterpreted) function of patterns, version and lines; the function itself is under contract in contracts/rewrite_lines.py"
    return c


_rl_contract("v2", "v2rewrite")
_rl_contract("v1", "v1rewrite")


# --------------------------------------------------------------------------- rfd_from_content (C04: split and join with the same separator)
def _rfd_clauses(eng, mod):
    c = REG.new(f"bumpver.{mod}.rfd_from_content")
    c.param("patterns", KOpaque("PatternList"))
    c.param("new_vinfo", KOpaque("VInfo"))
    c.param("content", KStr())
    c.param("path", KStr())

    def ok(a, res, cx):
        sep = spec_sep(a.content)
        old = strmodels.PY_SPLIT(V.z3str(a.content), sep.t)
        return b_and(
            v_eq(field(res, "line_sep"), sep),
            field(res, "old_lines").t == old,
            field(res, "new_lines").t == REWRITTEN[eng](a.patterns.t, a.new_vinfo.t, old),
            v_eq(field(res, "path"), a.path),
            # A-str: the separator used for splitting re-joins the untouched lines to the same text
            strmodels.PY_JOIN(sep.t, old) == V.z3str(a.content),
        )

    c.ensures(f"C04.{eng}.rfd_from_content.lines_split_by_detected_separator_and_rewritten", ok)
    c.ensures(f"C06.{eng}.rfd_from_content.returns_only_if_every_pattern_matched", lambda a, res, cx: REWRITE_OK[eng](a.patterns.t, strmodels.PY_SPLIT(V.z3str(a.content), spec_sep(a.content).t)))
    c.ensures(f"C04+C13.{eng}.rfd_from_content.reads_and_writes_nothing", lambda a, res, cx: all(e[0] in ("Log", "CallResult") for e in cx.new), internal=True)
    c.exsures(rewrite.NoPatternMatch, f"C06.{eng}.rfd_from_content.no_pattern_match_iff_unmatched", lambda a, exc, cx: z3.Not(REWRITE_OK[eng](a.patterns.t, strmodels.PY_SPLIT(V.z3str(a.content), spec_sep(a.content).t))))
    c.returns(KRec(rewrite.RewrittenFileData, dict(path=KStr(), line_sep=KStr(), old_lines=KOpaque("Lines"), new_lines=KOpaque("Lines"))))
    return c


_rfd_clauses("v2", "v2rewrite")
_rfd_clauses("v1", "v1rewrite")


# --------------------------------------------------------------------------- the files of a project: per-file facts
def key_at(fp, k):
    return SStr(fp.key_fn(V.z3int(k)))


def pats_at(fp, k):
    return z3.Function(fp.name + ".patterns", z3.IntSort(), PL)(V.z3int(k))


def content_at(fp, k, ver=0):
    return FS_CONTENT(key_at(fp, k).t, z3.IntVal(ver))


def exists_at(fp, k, ver=0):
    return FS_EXISTS(key_at(fp, k).t, z3.IntVal(ver))


def expected_rfd(eng, fp, vinfo, k):
    """What the k-th file must turn into: split by its own separator, rewritten, same separator kept."""
    content = SStr(content_at(fp, k))
    sep = spec_sep(content)
    old = strmodels.PY_SPLIT(content.t, sep.t)
    return SRec(
        rewrite.RewrittenFileData,
        dict(path=key_at(fp, k), line_sep=sep, old_lines=SOpaque("Lines", old), new_lines=SOpaque("Lines", REWRITTEN[eng](pats_at(fp, k), vinfo.t, old))),
    )


def file_ok(eng, fp, k):
    """File k exists and every one of its patterns has a match."""
    content = SStr(content_at(fp, k))
    return z3.And(exists_at(fp, k), REWRITE_OK[eng](pats_at(fp, k), strmodels.PY_SPLIT(content.t, spec_sep(content).t)))


# --------------------------------------------------------------------------- iter_path_patterns_items
def _events_since_havoc(st, skip=("Log", "CallResult"), ordinal=None):
    """Events of the current iteration of the outermost (or the given) invariant-cut loop:
    everything after the last LoopHavoc marker of that loop, markers of inner loops skipped."""
    ev = st.log
    marks = [(j, e[1]) for j, e in enumerate(ev) if e[0] == "LoopHavoc"]
    if not marks:
        return []
    outer = marks[0][1] if ordinal is None else ordinal
    own = [j for j, o in marks if o == outer]
    if not own:
        return []
    return [e for e in ev[own[-1] + 1 :] if e[0] not in skip and e[0] != "LoopHavoc"]


def _ippi_on_yield(a, v, st):
    k = st.ghost.get("loop_k")
    path, pats = v
    ok = b_and(isinstance(path, PathVal) and v_eq(path.s, key_at(a.file_patterns, k)), isinstance(pats, SOpaque) and pats.t.eq(pats_at(a.file_patterns, k)), exists_at(a.file_patterns, k))
    st.ghost["yield_bad"] = b_or(st.ghost.get("yield_bad", False), b_not(ok))
    st.ghost["yields_in_iter"] = st.ghost.get("yields_in_iter", 0) + 1


def _only_exists_events(st):
    return all(e[0] in ("Exists", "LoopHavoc", "Log", "CallResult") for e in st.log)


c = REG.new("bumpver.rewrite.iter_path_patterns_items")
c.param("file_patterns", KFilePatterns())
c.on_yield = _ippi_on_yield
c.setup = lambda a, st: st.ghost.update(yield_bad=False)
c.loop(
    0,
    LoopSpec(
        carried={"ghost:yield_bad": KBool()},
        invariant=lambda a, vs, k, cx, st: b_and(b_not(v_truthy(vs["ghost:yield_bad"])), _only_exists_events(st)),
        name="C06.iter_path_patterns_items.loop",
        props=("C06", "C04"),
    ),
)
c.ensures("C06.iter_path_patterns_items.yields_each_existing_configured_file_in_order", lambda a, res, cx: b_not(v_truthy(cx.ghost["yield_bad"])))
c.ensures("C04+C06.iter_path_patterns_items.only_checks_existence", lambda a, res, cx: _only_exists_events(cx.st))
c.exsures(OSError, "C06.iter_path_patterns_items.ioerror_only_checks_existence", lambda a, exc, cx: _only_exists_events(cx.st))


# --------------------------------------------------------------------------- iter_rewritten
def _open_ok(e, mode):
    """C04 call-site obligation: untranslated newlines and explicit utf-8."""
    return e[0] == "Open" and e[2] == mode and e[3] == "" and e[4] == "utf-8"


def _ir_iteration_ok(eng, a, st, k):
    """Events of one iteration: existence check, open for reading (newline='', utf-8), read, close."""
    ev = _events_since_havoc(st)
    kinds = [e[0] for e in ev]
    if kinds not in (["Exists", "Open", "Read", "Close"],):
        return False
    key = key_at(a.file_patterns, k)
    return b_and(_open_ok(ev[1], "rt"), v_eq(ev[0][1], key), v_eq(ev[1][1], key), v_eq(ev[2][1], key))


def _ir_on_yield(eng):
    def fn(a, v, st):
        k = st.ghost.get("loop_k")
        exp = expected_rfd(eng, a.file_patterns, a.new_vinfo, k)
        ok = b_and(isinstance(v, SRec), *[v_eq(field(v, f), field(exp, f)) for f in ("path", "line_sep", "old_lines", "new_lines")]) if isinstance(v, SRec) else False
        ok = b_and(ok, _ir_iteration_ok(eng, a, st, k), file_ok(eng, a.file_patterns, k))
        st.ghost["yield_bad"] = b_or(st.ghost.get("yield_bad", False), b_not(ok))

    return fn


def _no_write(st):
    return all(e[0] != "Write" and not (e[0] == "Open" and "w" in str(e[2])) for e in st.log)


def _ir_raise_ok(eng):
    def fn(a, exc, cx):
        # a failure while looking at file k: nothing has been written, and file k is indeed at fault
        return _no_write(cx.st)

    return fn


class RfdList:
    """list(iter_rewritten(fp, v)) as seen by callers: one RewrittenFileData per configured file."""

    __pyvc_symbolic_iter__ = True

    def __init__(self, eng, fp, vinfo):
        self.eng, self.fp, self.vinfo = eng, fp, vinfo
        self.n = fp.n

    def __pyvc_elem__(self, k):
        return expected_rfd(self.eng, self.fp, self.vinfo, k)

    def __pyvc_truthy__(self):
        return self.n > 0


def _ir_as_list(eng):
    def fn(ex, gen, st, node):
        from pyvc.contracts import Args

        env = ex.bind_args(gen.fr, gen.args, gen.kwargs)
        a = Args(env)
        fp = a.file_patterns
        out = []
        st.emit("ReadPhase", eng, fp, a.new_vinfo)
        for cls in (rewrite.NoPatternMatch, OSError):
            s2 = st.fork()
            s2.log = s2.log + [("ReadPhaseFailed", cls)]
            # some file is missing or has an unmatched pattern (nothing was written: clause of iter_rewritten)
            out.append(Exc(ExcVal(cls, (V.sstr(fresh_name("excmsg")),)), s2))
        j = z3.Int(fresh_name("j"))
        st.assume(z3.ForAll([j], z3.Implies(z3.And(j >= 0, j < fp.n), file_ok(eng, fp, j))))
        out.append(Val(RfdList(eng, fp, a.new_vinfo), st))
        return out

    return fn


def _ir_contract(eng, mod):
    c = REG.new(f"bumpver.{mod}.iter_rewritten")
    c.param("file_patterns", KFilePatterns())
    c.param("new_vinfo", KOpaque("VInfo"))
    c.on_yield = _ir_on_yield(eng)
    c.setup = lambda a, st: st.ghost.update(yield_bad=False)
    c.loop(
        ("bumpver.rewrite.iter_path_patterns_items", 0),
        LoopSpec(
            carried={"ghost:yield_bad": KBool()},
            invariant=lambda a, vs, k, cx, st: b_and(b_not(v_truthy(vs["ghost:yield_bad"])), _no_write(st)),
            name=f"C06+C04.{eng}.iter_rewritten.each_file_read_untranslated_utf8_nothing_written",
            props=("C06", "C04", "C13"),
        ),
    )
    c.ensures(f"C04+C06.{eng}.iter_rewritten.yields_rewritten_data_of_every_file_without_writing", lambda a, res, cx: b_and(b_not(v_truthy(cx.ghost["yield_bad"])), _no_write(cx.st)))
    c.exsures(rewrite.NoPatternMatch, f"C06.{eng}.iter_rewritten.no_pattern_match_leaves_files_untouched", _ir_raise_ok(eng))
    c.exsures(OSError, f"C06.{eng}.iter_rewritten.missing_file_leaves_files_untouched", _ir_raise_ok(eng))
    c.as_list = _ir_as_list(eng)
    return c


_ir_contract("v2", "v2rewrite")
_ir_contract("v1", "v1rewrite")


# --------------------------------------------------------------------------- rewrite_files
def _rf_iteration_ok(eng, a, st, k):
    """One iteration of the write loop: open the k-th configured file for writing
    (newline='', utf-8) and write its lines joined with the separator they were split by."""
    ev = _events_since_havoc(st)
    kinds = [e[0] for e in ev]
    if not ev:
        return True
    if kinds != ["Open", "Write", "Close"]:
        return False
    exp = expected_rfd(eng, a.file_patterns, a.new_vinfo, V.z3int(k) - 1)
    want = strmodels.PY_JOIN(field(exp, "line_sep").t, field(exp, "new_lines").t)
    return b_and(_open_ok(ev[0], "wt"), v_eq(ev[0][1], field(exp, "path")), v_eq(ev[1][1], field(exp, "path")), V.z3str(ev[1][2]) == want)


def _rf_raise(eng):
    def fn(a, exc, cx):
        """From the property: if the rewrite phase fails because a pattern has no match or a
        file is missing, every file keeps its bytes: no write happened before the failure."""
        failed_read = any(e[0] == "ReadPhaseFailed" for e in cx.new)
        writes = [e for e in cx.new if e[0] == "Write" or (e[0] == "Open" and "w" in str(e[2])) or e[0] == "LoopHavoc"]
        if failed_read:
            return len(writes) == 0
        if not any(e[0] == "ReadPhase" for e in cx.new):
            # validation interleaved with writing (one fused loop): the failure is harmless only
            # in the very first iteration, before anything was written
            k = cx.ghost.get("loop_k")
            in_iter = [e for e in _events_since_havoc(cx.st) if e[0] == "Write"]
            if k is None or in_iter:
                return False
            if not (issubclass(exc.cls, OSError) and any(e[0] == "OpenFailed" and False for e in cx.new)):
                return v_eq(k, 0)
        # otherwise only an I/O error of the write itself (disk, permissions) may escape, after validation
        return issubclass(exc.cls, OSError) and any(e[0] == "OpenFailed" for e in cx.new)

    return fn


def _rf_contract(eng, mod):
    c = REG.new(f"bumpver.{mod}.rewrite_files")
    c.param("file_patterns", KFilePatterns())
    c.param("new_vinfo", KOpaque("VInfo"))
    c.loop(
        0,
        LoopSpec(
            carried={},
            invariant=lambda a, vs, k, cx, st: _rf_iteration_ok(eng, a, st, k),
            name=f"C04+C03.{eng}.rewrite_files.writes_exactly_the_configured_files_same_separator_utf8",
            props=("C04", "C03", "C06", "C08"),
        ),
    )
    c.loop(
        ("bumpver.rewrite.iter_path_patterns_items", 0),
        LoopSpec(carried={}, invariant=lambda a, vs, k, cx, st: True, name=f"C06.{eng}.rewrite_files.fused_loop", props=("C06",)),
    )
    c.ensures(
        f"C06.{eng}.rewrite_files.all_files_validated_before_first_write",
        lambda a, res, cx: (lambda ev: [e[0] for e in ev if e[0] in ("ReadPhase", "LoopHavoc")] in (["ReadPhase", "LoopHavoc"],))(cx.new),
        internal=True,
    )
    c.exsures(rewrite.NoPatternMatch, f"C06.{eng}.rewrite_files.no_pattern_match_leaves_every_file_untouched", _rf_raise(eng), internal=True)
    c.exsures(OSError, f"C06.{eng}.rewrite_files.missing_file_leaves_every_file_untouched", _rf_raise(eng), internal=True)

    def eff(a, st, outcome):
        st.emit("RewritePhase", eng, outcome, a.file_patterns, a.new_vinfo)

    c.effects = eff
    return c


_rf_contract("v2", "v2rewrite")
_rf_contract("v1", "v1rewrite")
