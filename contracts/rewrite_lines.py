"""rewrite_lines bodies (v2 and v1): C03 (every occurrence replaced), C04 (nothing else touched),
C06 (returns only if every pattern matched).

Lines are modelled as (length, Array Int -> String); the matches yielded by parse.iter_matches as
uninterpreted functions of the match index with the facts iter_matches guarantees (each match lies
within its line; matches on one line are disjoint); sorted(..., reverse=True) as a permutation that
is descending in (lineno, span)."""
import z3

from bumpver import rewrite, parse, patterns as patterns_mod, v2rewrite, v1rewrite, v2patterns, v2version, v1version

from pyvc.symexec import Val, Exc, ExcVal, fresh_name, Outcome, Unsupported
from .common import *  # noqa
from .common import REG

PATS = V.opaque_sort("Pattern")
VI = V.opaque_sort("VInfo")
STR_ARR = z3.ArraySort(z3.IntSort(), z3.StringSort())
PSET = z3.ArraySort(PATS, z3.BoolSort())

RENDER = {"v2": z3.Function("spec_render_v2", VI, z3.StringSort(), z3.StringSort()), "v1": z3.Function("spec_render_v1", VI, z3.StringSort(), z3.StringSort())}
NORM = z3.Function("spec_normalize_pattern", z3.StringSort(), z3.StringSort(), z3.StringSort())
PAT_VP = z3.Function("pattern_version_pattern", PATS, z3.StringSort())
PAT_RAW = z3.Function("pattern_raw_pattern", PATS, z3.StringSort())


# --------------------------------------------------------------------------- values
class SymLines:
    """A Python list of strings of fixed symbolic length: mutable object holding an array term."""

    __pyvc_symbolic_iter__ = True

    def __init__(self, n, arr):
        self.n, self.arr = n, arr

    def __repr__(self):
        return f"SymLines(n={self.n})"

    def __pyvc_len__(self):
        return SInt(self.n)

    def __pyvc_getitem__(self, ex, idx, st, node):
        i = V.z3int(idx)
        t, f = ex.split(z3.And(i >= 0, i < self.n), st)
        out = []
        if t is not None:
            out.append(Val(SStr(z3.Select(self.arr, i)), t))
        if f is not None:
            t2, f2 = ex.split(z3.And(i < 0, i >= -self.n), f)
            if t2 is not None:
                out.append(Val(SStr(z3.Select(self.arr, self.n + i)), t2))
            if f2 is not None:
                out.append(ex.raise_(IndexError, f2))
        return out

    def __pyvc_elem__(self, k):
        return SStr(z3.Select(self.arr, V.z3int(k)))

    def __pyvc_getslice__(self, ex, sl, st, node):
        if sl.lo is None and sl.hi is None and sl.step is None:
            return [Val(SymLines(self.n, self.arr), st)]  # a copy: a new list object with the same elements
        raise Unsupported("slice of lines")

    def __pyvc_setitem__(self, ex, idx, v, st, node):
        i = V.z3int(idx)
        t, f = ex.split(z3.And(i >= 0, i < self.n), st)
        out = []
        if t is not None:
            tgt = ex.models._reeval_container(ex, node, t) if t is not st else self
            tgt.arr = z3.Store(tgt.arr, i, V.z3str(v))
            out.append(Outcome("fall", None, t))
        if f is not None:
            out.append(Outcome("raise", ExcVal(IndexError, ()), f))
        return out

    def __pyvc_clone__(self, memo):
        return SymLines(self.n, self.arr)

    def __pyvc_havoc__(self, name):
        self.n = z3.Int(name + ".len")
        self.arr = z3.Const(name + ".items", STR_ARR)


class KLines(Kind):
    def fresh(self, name, assumptions):
        n = z3.Int(name + ".len")
        assumptions.append(n >= 0)
        return SymLines(n, z3.Const(name + ".items", STR_ARR))


class PatList:
    __pyvc_symbolic_iter__ = True

    def __init__(self, name):
        self.name = name
        self.n = z3.Int(name + ".len")
        self.at = z3.Function(name + ".at", z3.IntSort(), PATS)

    def __pyvc_elem__(self, k):
        return pattern_obj(self.at(V.z3int(k)))

    def __pyvc_toset__(self):
        return PatSet(("list", self))

    def __pyvc_truthy__(self):
        return self.n > 0


def pattern_obj(t):
    return SOpaque("Pattern", t, attrs=dict(version_pattern=SStr(PAT_VP(t)), raw_pattern=SStr(PAT_RAW(t)), regexp=SOpaque("Regex", z3.Const(fresh_name("rx"), V.opaque_sort("Regex")), attrs=dict(pattern=V.sstr(fresh_name("rxsrc"))))))


class KPatList(Kind):
    def fresh(self, name, assumptions):
        p = PatList(name)
        assumptions.append(p.n >= 0)
        return p


class PatSet:
    """A set of patterns: membership predicate as an array Pattern -> Bool (mutable object)."""

    __pyvc_symbolic_iter__ = True

    def __init__(self, src):
        if isinstance(src, tuple) and src[0] == "list":
            self.lst = src[1]
            self.arr = None
        else:
            self.lst = None
            self.arr = src

    def member(self, ex, p, st):
        t = p.t if isinstance(p, SOpaque) else p
        if self.arr is not None:
            return z3.Select(self.arr, t)
        i = z3.Int(fresh_name("i"))
        return z3.Exists([i], z3.And(i >= 0, i < self.lst.n, self.lst.at(i) == t))

    def contains_term(self, t):
        return self.member(None, t, None)

    def __pyvc_method__(self, ex, name, args, kwargs, st, node):
        if name == "add" and self.arr is not None:
            self.arr = z3.Store(self.arr, args[0].t, z3.BoolVal(True))
            return [Val(None, st)]
        raise Unsupported(f"set.{name}")

    def __pyvc_eq__(self, other):
        if not isinstance(other, PatSet):
            return False
        p = z3.Const(fresh_name("p"), PATS)
        return z3.ForAll([p], self.contains_term(p) == other.contains_term(p))

    def __pyvc_binop__(self, ex, op, other, st, node):
        if op == "-" and isinstance(other, PatSet):
            return [Val(PatDiff(self, other), st)]
        raise Unsupported(f"set {op}")

    def __pyvc_len__(self):
        # only `len(found_patterns) > 0` is used: non-emptiness
        p = z3.Const(fresh_name("p"), PATS)
        ne = z3.Exists([p], self.contains_term(p))
        return SInt(z3.If(ne, z3.IntVal(1), z3.IntVal(0)))  # a positive number iff non-empty (exact count not modelled)

    def __pyvc_truthy__(self):
        p = z3.Const(fresh_name("p"), PATS)
        return z3.Exists([p], self.contains_term(p))

    def __pyvc_clone__(self, memo):
        c = PatSet(self.arr if self.arr is not None else ("list", self.lst))
        return c

    def __pyvc_havoc__(self, name):
        self.arr = z3.Const(name + ".members", PSET)


class PatDiff:
    __pyvc_symbolic_iter__ = True

    def __init__(self, a, b):
        self.a, self.b = a, b
        self.n = None

    def __pyvc_truthy__(self):
        p = z3.Const(fresh_name("p"), PATS)
        return z3.Exists([p], z3.And(self.a.contains_term(p), z3.Not(self.b.contains_term(p))))

    def __pyvc_elem__(self, k):
        return pattern_obj(z3.Const(fresh_name("nmp"), PATS))


class MatchList:
    """list(parse.iter_matches(lines, patterns)) / sorted(...): matches as functions of the index."""

    __pyvc_symbolic_iter__ = True

    def __init__(self, name, lines, pats, perm=None):
        self.name, self.lines, self.pats, self.perm = name, lines, pats, perm
        self.n = z3.Int(name + ".count")
        I = z3.IntSort()
        self.LN = z3.Function(name + ".lineno", I, I)
        self.SL = z3.Function(name + ".span_l", I, I)
        self.SR = z3.Function(name + ".span_r", I, I)
        self.PI = z3.Function(name + ".pattern_index", I, I)

    def facts(self):
        k, k2 = z3.Int(fresh_name("k")), z3.Int(fresh_name("k2"))
        line = lambda x: z3.Select(self.lines.arr, self.LN(x))
        inr = lambda x: z3.And(x >= 0, x < self.n)
        return [
            self.n >= 0,
            # every match lies on an existing line, within that line, is non-empty, and belongs to a configured pattern
            z3.ForAll([k], z3.Implies(inr(k), z3.And(self.LN(k) >= 0, self.LN(k) < self.lines.n, self.SL(k) >= 0, self.SL(k) < self.SR(k), self.SR(k) <= z3.Length(line(k)), self.PI(k) >= 0, self.PI(k) < self.pats.n))),
            # matches on the same line do not overlap (parse._has_overlap)
            z3.ForAll([k, k2], z3.Implies(z3.And(inr(k), inr(k2), k != k2, self.LN(k) == self.LN(k2)), z3.Or(self.SR(k) <= self.SL(k2), self.SR(k2) <= self.SL(k)))),
        ]

    def index(self, pos):
        return V.z3int(pos) if self.perm is None else self.perm(V.z3int(pos))

    def __pyvc_elem__(self, pos):
        k = self.index(pos)
        ln = self.LN(k)
        line = z3.Select(self.lines.arr, ln)
        pat = pattern_obj(self.pats.at(self.PI(k)))
        return SRec(parse.PatternMatch, dict(lineno=SInt(ln), line=SStr(line), pattern=pat, span=(SInt(self.SL(k)), SInt(self.SR(k))), match=SStr(z3.SubString(line, self.SL(k), self.SR(k) - self.SL(k)))))

    def __pyvc_sorted__(self, ex, kwargs, st):
        """sorted(matches, key=lambda m: (m.lineno, m.span), reverse=True): a permutation, descending in
        (lineno, span_l, span_r) (A-sort; the key is recognised syntactically)."""
        key, rev = kwargs.get("key"), kwargs.get("reverse", False)
        import ast as _ast

        src = _ast.unparse(key.node.body) if key is not None and hasattr(key, "node") else None
        if src != "(m.lineno, m.span)" or rev is not True:
            raise Unsupported(f"sorted of matches with key {src!r} reverse={rev!r}")
        I = z3.IntSort()
        perm = z3.Function(fresh_name("order"), I, I)
        inv = z3.Function(fresh_name("order_inv"), I, I)
        p, q = z3.Int(fresh_name("p")), z3.Int(fresh_name("q"))
        inr = lambda x: z3.And(x >= 0, x < self.n)
        st.assume(z3.ForAll([p], z3.Implies(inr(p), z3.And(inr(perm(p)), inv(perm(p)) == p))))
        st.assume(z3.ForAll([p], z3.Implies(inr(p), z3.And(inr(inv(p)), perm(inv(p)) == p))))
        a, b = perm(p), perm(q)
        ge = z3.Or(self.LN(a) > self.LN(b), z3.And(self.LN(a) == self.LN(b), z3.Or(self.SL(a) > self.SL(b), z3.And(self.SL(a) == self.SL(b), self.SR(a) >= self.SR(b)))))
        st.assume(z3.ForAll([p, q], z3.Implies(z3.And(inr(p), inr(q), p < q), ge)))
        m = MatchList(self.name, self.lines, self.pats, perm)
        m.n, m.LN, m.SL, m.SR, m.PI, m.inv = self.n, self.LN, self.SL, self.SR, self.PI, inv
        return m


def _iter_matches_as_list(ex, gen, st, node):
    from pyvc.contracts import Args

    env = ex.bind_args(gen.fr, gen.args, gen.kwargs)
    a = Args(env)
    if not isinstance(a.lines, SymLines) or not isinstance(a.patterns, PatList):
        raise Unsupported("iter_matches on non-abstract lines/patterns")
    m = MatchList(fresh_name("matches"), a.lines, a.patterns)
    for f in m.facts():
        st.assume(f)
    st.ghost["matches"] = m
    if "sorted_matches" not in st.ghost:
        ident = MatchList(m.name, m.lines, m.pats, perm=(lambda x: x))
        ident.n, ident.LN, ident.SL, ident.SR, ident.PI, ident.inv = m.n, m.LN, m.SL, m.SR, m.PI, (lambda x: x)
        st.ghost["sorted_matches"] = ident  # iteration in the generator's own order
        return [Val(ident, st)]
    return [Val(m, st)]


c = REG.new("bumpver.parse.iter_matches")
c.as_list = _iter_matches_as_list
c.as_list_in_for = True
c.trusted = "callers' view: every yielded match lies within its line, is non-empty, belongs to a configured pattern; matches on one line are disjoint (from parse._has_overlap; bounded check in checks/c03.py)"


# normalize_pattern / format_version as seen by rewrite_lines
def _norm_hook(ex, a, st, node):
    return [Val(SStr(NORM(V.z3str(a.version_pattern), V.z3str(a.raw_pattern))), st)]


c = REG.new("bumpver.v2patterns.normalize_pattern")
c.param("version_pattern", KStr())
c.param("raw_pattern", KStr())
c.callee_hook = _norm_hook
c.trusted = "callers' view: a function of its two arguments (placeholder expansion itself: C03/C15 bounded layers)"


def _install_format_hooks():
    from .v2version import FMT, rec_terms

    c2 = REG["bumpver.v2version.format_version"]
    orig_effects = c2.effects

    def hook(ex, a, st, node):
        if isinstance(a.vinfo, SOpaque):
            bad = st.fork()
            return [Exc(ExcVal(ValueError, (V.sstr(fresh_name("excmsg")),)), bad), Val(SStr(RENDER["v2"](a.vinfo.t, V.z3str(a.raw_pattern))), st)]
        return None

    c2.partial_hook = hook
    c1 = REG["bumpver.v1version.format_version"]

    def hook1(ex, a, st, node):
        if isinstance(a.vinfo, SOpaque):
            out = [Exc(ExcVal(E, (V.sstr(fresh_name("excmsg")),)), st.fork()) for E in (KeyError, ValueError, IndexError)]
            return out + [Val(SStr(RENDER["v1"](a.vinfo.t, V.z3str(a.raw_pattern))), st)]
        return None

    c1.partial_hook = hook1


_install_format_hooks()


# --------------------------------------------------------------------------- the contract
def _replacement(eng, a, m, k):
    pat = m.pats.at(m.PI(k))
    if eng == "v2":
        return RENDER["v2"](a.new_vinfo.t, NORM(PAT_VP(pat), PAT_RAW(pat)))
    return RENDER["v1"](a.new_vinfo.t, PAT_RAW(pat))


def _rl_setup(a, st):
    st.ghost["skolem_j"] = z3.Int("LINE_j")
    st.ghost["skolem_k0"] = z3.Int("MATCH_k0")
    st.ghost["skolem_k1"] = z3.Int("MATCH_k1")


def _others_not_on_line(m, j, ks):
    k = z3.Int(fresh_name("k"))
    return z3.ForAll([k], z3.Implies(z3.And(k >= 0, k < m.n, *[k != x for x in ks]), m.LN(k) != j))


def _expected_single(eng, a, m, j, k0):
    old = z3.Select(a.old_lines.arr, j)
    return z3.Concat(z3.SubString(old, 0, m.SL(k0)), _replacement(eng, a, m, k0), z3.SubString(old, m.SR(k0), z3.Length(old) - m.SR(k0)))


def _expected_two(eng, a, m, j, k0, k1):
    old = z3.Select(a.old_lines.arr, j)
    return z3.Concat(
        z3.SubString(old, 0, m.SL(k0)),
        _replacement(eng, a, m, k0),
        z3.SubString(old, m.SR(k0), m.SL(k1) - m.SR(k0)),
        _replacement(eng, a, m, k1),
        z3.SubString(old, m.SR(k1), z3.Length(old) - m.SR(k1)),
    )


def _rl_invariant(eng):
    def inv(a, vs, k, cx, st):
        m = st.ghost.get("sorted_matches")
        new_lines, found = vs.get("new_lines"), vs.get("found_patterns")
        if isinstance(found, set) and len(found) == 0:
            found = PatSet(z3.K(PATS, z3.BoolVal(False)))  # the empty Python set before the first add
        if m is None or not isinstance(new_lines, SymLines) or not isinstance(found, PatSet) or found.arr is None:
            return False
        p = V.z3int(k)
        j, k0, k1 = st.ghost["skolem_j"], st.ghost["skolem_k0"], st.ghost["skolem_k1"]
        q = z3.Int(fresh_name("q"))
        pt = z3.Const(fresh_name("pt"), PATS)
        new_j = z3.Select(new_lines.arr, j)
        old_j = z3.Select(a.old_lines.arr, j)
        inr = lambda x: z3.And(x >= 0, x < m.n)
        cs = [new_lines.n == a.old_lines.n]
        # found_patterns = patterns of the matches processed so far
        cs.append(z3.ForAll([pt], z3.Select(found.arr, pt) == z3.Exists([q], z3.And(q >= 0, q < p, m.pats.at(m.PI(m.perm(q))) == pt))))
        # frame: a line none of whose matches was processed yet is unchanged
        cs.append(z3.Implies(z3.And(j >= 0, j < a.old_lines.n, z3.ForAll([q], z3.Implies(z3.And(q >= 0, q < p), m.LN(m.perm(q)) != j))), new_j == old_j))
        # single occurrence on line j
        single = z3.And(inr(k0), m.LN(k0) == j, _others_not_on_line(m, j, [k0]))
        cs.append(z3.Implies(z3.And(single, m.inv(k0) < p), new_j == _expected_single(eng, a, m, j, k0)))
        # two occurrences on line j, k0 left of k1
        two = z3.And(inr(k0), inr(k1), k0 != k1, m.LN(k0) == j, m.LN(k1) == j, m.SR(k0) <= m.SL(k1), _others_not_on_line(m, j, [k0, k1]))
        old_after_k1 = z3.Concat(z3.SubString(old_j, 0, m.SL(k1)), _replacement(eng, a, m, k1), z3.SubString(old_j, m.SR(k1), z3.Length(old_j) - m.SR(k1)))
        cs.append(z3.Implies(z3.And(two, m.inv(k1) < p, m.inv(k0) >= p), new_j == old_after_k1))
        cs.append(z3.Implies(z3.And(two, m.inv(k0) < p), new_j == _expected_two(eng, a, m, j, k0, k1)))
        cs.append(z3.Implies(two, m.inv(k1) < m.inv(k0)))
        return z3.And(*cs)

    return inv


class KSameKind(Kind):
    """Havoc a loop-carried abstract object by a fresh one of the same shape."""

    def __init__(self, what):
        self.what = what

    def fresh(self, name, assumptions):
        if self.what == "lines":
            n = z3.Int(name + ".len")
            return SymLines(n, z3.Const(name + ".items", STR_ARR))
        return PatSet(z3.Const(name + ".members", PSET))


def _all_matched(m, a):
    """Every configured pattern has at least one match (a position in the sorted list of the
    yielded matches, which is a permutation of them)."""
    i, q = z3.Int(fresh_name("i")), z3.Int(fresh_name("q"))
    return z3.ForAll([i], z3.Implies(z3.And(i >= 0, i < a.patterns.n), z3.Exists([q], z3.And(q >= 0, q < m.n, m.pats.at(m.PI(m.perm(q))) == a.patterns.at(i)))))


def _rl_contract(eng, mod):
    c = REG.add(Contract(f"bumpver.{mod}.rewrite_lines", variant="body"))
    c.param("patterns", KPatList())
    c.param("new_vinfo", KOpaque("VInfo"))
    c.param("old_lines", KLines())
    c.setup = _rl_setup
    c.loop(0, LoopSpec(carried={"new_lines": KSameKind("lines"), "found_patterns": KSameKind("set")}, invariant=_rl_invariant(eng), name=f"C03+C04.{eng}.rewrite_lines.loop", props=("C03", "C04", "C06")))
    c.loop(1, LoopSpec(carried={}, invariant=lambda a, vs, k, cx, st: True, name=f"C06.{eng}.rewrite_lines.log_loop", props=("C06",)))

    def ret(kind):
        def fn(a, res, cx):
            m = cx.ghost.get("sorted_matches")
            if m is None or not isinstance(res, SymLines):
                return False
            j, k0, k1 = cx.ghost["skolem_j"], cx.ghost["skolem_k0"], cx.ghost["skolem_k1"]
            inr = lambda x: z3.And(x >= 0, x < m.n)
            new_j, old_j = z3.Select(res.arr, j), z3.Select(a.old_lines.arr, j)
            jin = z3.And(j >= 0, j < a.old_lines.n)
            if kind == "len":
                return res.n == a.old_lines.n
            if kind == "alias":
                # the caller's list is not modified (iter_matches reads it while the loop writes new_lines)
                final_old = cx.ghost["param_objs"]["old_lines"]
                return z3.And(final_old.n == a.old_lines.n, final_old.arr == a.old_lines.arr) if final_old is not res else False
            if kind == "frame":
                return z3.Implies(z3.And(jin, _others_not_on_line(m, j, [])), new_j == old_j)
            if kind == "single":
                return z3.Implies(z3.And(jin, inr(k0), m.LN(k0) == j, _others_not_on_line(m, j, [k0])), new_j == _expected_single(eng, a, m, j, k0))
            if kind == "two":
                two = z3.And(jin, inr(k0), inr(k1), k0 != k1, m.LN(k0) == j, m.LN(k1) == j, m.SR(k0) <= m.SL(k1), _others_not_on_line(m, j, [k0, k1]))
                return z3.Implies(two, new_j == _expected_two(eng, a, m, j, k0, k1))
            if kind == "all":
                return _all_matched(m, a)

        return fn

    c.ensures(f"C04.{eng}.rewrite_lines.number_of_lines_unchanged", ret("len"))
    c.ensures(f"C04.{eng}.rewrite_lines.result_is_a_new_list_old_lines_not_modified", ret("alias"))
    c.ensures(f"C04.{eng}.rewrite_lines.lines_without_a_match_are_unchanged", ret("frame"))
    c.ensures(f"C03+C04.{eng}.rewrite_lines.single_occurrence_replaced_rest_of_line_kept", ret("single"))
    c.ensures(f"C03+C04.{eng}.rewrite_lines.two_occurrences_on_one_line_both_replaced_rest_kept", ret("two"))
    c.ensures(f"C06.{eng}.rewrite_lines.returns_only_if_every_pattern_matched", ret("all"))
    c.exsures(
        rewrite.NoPatternMatch,
        f"C06.{eng}.rewrite_lines.no_pattern_match_only_if_some_pattern_unmatched",
        lambda a, exc, cx: z3.Not(_all_matched(cx.ghost["sorted_matches"], a)) if cx.ghost.get("sorted_matches") is not None else False,
    )
    if eng == "v1":
        for E in (KeyError, ValueError, IndexError):
            c.exsures(E)
    else:
        c.exsures(ValueError)
    return c


_rl_contract("v2", "v2rewrite")
_rl_contract("v1", "v1rewrite")


def _fresh_str_hook(ex, a, st, node):
    return [Val(V.sstr(fresh_name("text")), st)]


for _fn in ("regex101_url", "pyexpr_regex", "format_regex"):
    c = REG.new(f"bumpver.regexfmt.{_fn}")
    c.callee_hook = _fresh_str_hook
    c.trusted = "regexfmt.* only builds text for log messages: opaque, effect-free (DESIGN 1.1)"
