"""Contracts on bumpver.v1version (C20): the legacy bump `incr` and its helpers.

The legacy version record (V1VersionInfo) is a record of optional calendar integers, three
non-negative integers, a build id (digit string) and a tag. `incr#body` is verified against the
record views (`#rec`) of the legacy parser and renderer: uninterpreted functions of their arguments
whose bodies are decided elsewhere (parse_version_info#body in contracts/parse_version.py; the part
tables by enumeration in checks/c20.py)."""
import re as _re

import z3

from bumpver import version, v1version

from .common import *  # noqa
from .common import REG, field
from .lexid_ import s_isdigits, s_int

V1_CAL_FIELDS = tuple(version.V1CalendarInfo._fields)
# written from the README's legacy part list, NOT read from the tuple above, so that a reordering is seen
assert V1_CAL_FIELDS == ("year", "quarter", "month", "dom", "doy", "iso_week", "us_week"), "legacy calendar fields changed: contracts need review"
V1_RANGES = {"year": (1000, 9999), "quarter": (1, 4), "month": (1, 12), "dom": (1, 31), "doy": (1, 366), "iso_week": (0, 53), "us_week": (0, 53)}
V1_TAGS = ("final", "alpha", "beta", "dev", "rc", "post")


def k_v1cal():
    return KRec(version.V1CalendarInfo, {f: KOpt(KInt()) for f in V1_CAL_FIELDS})


def k_v1info():
    fields = {f: KOpt(KInt()) for f in V1_CAL_FIELDS}
    for f in ("major", "minor", "patch"):
        fields[f] = KInt()
    fields["bid"] = KStr()
    fields["tag"] = KStr()
    return KRec(version.V1VersionInfo, fields)


def wf_v1(rec):
    cs = []
    for f in V1_CAL_FIELDS:
        v = field(rec, f)
        lo, hi = V1_RANGES[f]
        if v is None:
            continue
        if isinstance(v, SOpt):
            cs.append(b_or(v.isnone, b_and(v_cmp(">=", v.val, lo), v_cmp("<=", v.val, hi))))
        else:
            cs.append(b_and(v_cmp(">=", v, lo), v_cmp("<=", v, hi)))
    for f in ("major", "minor", "patch"):
        cs.append(v_cmp(">=", field(rec, f), 0))
    cs.append(s_isdigits(field(rec, "bid")))
    return b_and(*cs)


def v1_cal_full(rec):
    cs = []
    for f in V1_CAL_FIELDS:
        v = field(rec, f)
        lo, hi = V1_RANGES[f]
        cs.append(b_not(v_is_none(v)))
        cs.append(b_and(v_cmp(">=", V.unwrap_opt(v), lo), v_cmp("<=", V.unwrap_opt(v), hi)))
    return b_and(*cs)


def v1_cal_gt(l, r):
    """left > right as tuples over the calendar fields that are non-None in both (year first)."""
    res = False
    for f in reversed(V1_CAL_FIELDS):
        lv, rv = field(l, f), field(r, f)
        both = b_and(b_not(v_is_none(lv)), b_not(v_is_none(rv)))
        lu, ru = V.unwrap_opt(lv), V.unwrap_opt(rv)
        res = b_ite(both, b_ite(v_eq(lu, ru), res, v_cmp(">", lu, ru)), res)
    return res


# --------------------------------------------------------------------------- _ver_to_cal_info
c = REG.new("bumpver.v1version._ver_to_cal_info")
c.param("vnfo", k_v1info())
c.returns(k_v1cal())
for _f in V1_CAL_FIELDS:
    # `--pin-date`: "calendar parts are kept as they are" - each calendar field of the result is that field of the version
    c.ensures(f"C20.v1._ver_to_cal_info.keeps_{_f}", lambda a, res, cx, _f=_f: v_eq(field(res, _f), field(a.vnfo, _f)))

# --------------------------------------------------------------------------- _is_cal_gt
c = REG.new("bumpver.v1version._is_cal_gt")
c.prune = False
c.param("left", k_v1info())
c.param("right", k_v1cal())
c.returns(KBool())
c.ensures("C20.v1._is_cal_gt.lexicographic_on_common_fields", lambda a, res, cx: b_iff(v_truthy(res), v1_cal_gt(a.left, a.right)))

# --------------------------------------------------------------------------- cal_info (callers' view)
c = REG.new("bumpver.v1version.cal_info")
c.param("date", KOpaque("date"))
c.returns(k_v1cal())
c.ensures("C20.v1.cal_info.all_fields_in_range", lambda a, res, cx: v1_cal_full(res))
c.trusted = "X: the legacy calendar parts of every date 2000..2099 are rendered and read back in checks/c20.py (strftime is library code, A-lib)"

# --------------------------------------------------------------------------- record views of parser and renderer
V1FMT = z3.Function("V1FMT", *([z3.BoolSort(), z3.IntSort()] * len(V1_CAL_FIELDS) + [z3.IntSort()] * 3 + [z3.StringSort(), z3.StringSort(), z3.StringSort(), z3.StringSort()]))


def v1_terms(rec):
    ts = []
    for f in V1_CAL_FIELDS:
        v = field(rec, f)
        if v is None:
            ts += [z3.BoolVal(True), z3.IntVal(0)]
        elif isinstance(v, SOpt):
            ts += [v.isnone, z3.If(v.isnone, z3.IntVal(0), V.z3int(v.val))]
        else:
            ts += [z3.BoolVal(False), V.z3int(v)]
    for f in ("major", "minor", "patch"):
        ts.append(V.z3int(field(rec, f)))
    ts.append(V.z3str(field(rec, "bid")))
    ts.append(V.z3str(field(rec, "tag")))
    return ts


c = REG.add(Contract("bumpver.v1version.parse_version_info", variant="rec"))
c.param("version_str", KStr())
c.param("raw_pattern", KStr())
c.returns(k_v1info())
c.ensures("C20.v1.parse_version_info.result_wf", lambda a, res, cx: wf_v1(res))
c.exsures(version.PatternError)
c.exsures(_re.error)
c.exsures(KeyError)  # unknown {part} in the pattern
c.exsures(ValueError)
c.exsures(IndexError)
c.trusted = "record view of the legacy parser used by incr#body: some well-formed record or PatternError (acceptance: variant 'body' in contracts/parse_version.py; field values: X/B in checks/c20.py)"


def _v1_fmt_effects(a, st, outcome):
    st.emit("V1Format", a.vinfo, a.raw_pattern)


c = REG.add(Contract("bumpver.v1version.format_version", variant="rec"))
c.param("vinfo", k_v1info())
c.param("raw_pattern", KStr())
c.returns(KStr())
c.effects = _v1_fmt_effects
c.ensures("C20.v1.format_version.function_of_arguments", lambda a, res, cx: V.z3str(res) == V1FMT(*(v1_terms(a.vinfo) + [V.z3str(a.raw_pattern)])))
c.exsures(KeyError)
c.exsures(ValueError)
c.exsures(IndexError)
c.trusted = "record view of the legacy renderer used by incr#body: an uninterpreted pure function of record and pattern (what it renders: X/B in checks/c20.py)"


# --------------------------------------------------------------------------- incr body
def _v1_incr_clause(kind):
    def fn(a, res, cx):
        if res is None:
            return True
        fm = [e for e in cx.new if e[0] == "V1Format"]
        parsed = [e for e in cx.new if e[0] == "CallResult" and e[1] == "bumpver.v1version.parse_version_info"]
        today = [e for e in cx.new if e[0] == "CallResult" and e[1] == "bumpver.v1version.cal_info"]
        if not fm or not parsed:
            return False  # a version was returned without parsing the old one / rendering a record
        R, old = fm[-1][1], parsed[-1][2]
        notnone = b_not(v_is_none(res))
        if kind == "pinned":
            return b_implies(b_and(notnone, v_truthy(a.pin_date)), b_and(*[v_eq(field(R, f), field(old, f)) for f in V1_CAL_FIELDS]))
        if kind == "from_date":
            if not today:
                return b_implies(notnone, v_truthy(a.pin_date))
            # the calendar comes from one cal_info call whose argument is the requested date (maybe_date, else TODAY):
            # not the parameterless "today", not a second look-up
            arg = getattr(today[-1][3], "date", None)
            if len(today) != 1 or arg is None:
                return b_implies(notnone, v_truthy(a.pin_date))
            # a concrete argument (version.TODAY) is right only when no date was requested
            arg_ok = True if V.contains_sym(arg) else v_is_none(a.maybe_date)
            td = today[-1][2]
            same = lambda x: b_and(*[v_eq(field(R, f), field(x, f)) for f in V1_CAL_FIELDS])
            return b_implies(b_and(notnone, b_not(v_truthy(a.pin_date))), b_and(arg_ok, b_ite(v1_cal_gt(old, td), same(old), same(td))))
        if kind == "build":
            return b_implies(notnone, v_cmp(">", s_int(field(R, "bid")), s_int(field(old, "bid"))))
        if kind == "numeric":
            mj, mn, pt = v_truthy(a.major), v_truthy(a.minor), v_truthy(a.patch)
            o = lambda f: field(old, f)
            # README (SemVer parts): --major: MAJOR+1, MINOR=PATCH=0; --minor: MINOR+1, PATCH=0; --patch: PATCH+1
            want_major = V.v_ite(mj, v_arith("+", o("major"), 1), o("major"))
            minor0 = V.v_ite(mj, 0, o("minor"))
            want_minor = V.v_ite(mn, v_arith("+", minor0, 1), minor0)
            patch0 = V.v_ite(b_or(mj, mn), 0, o("patch"))
            want_patch = V.v_ite(pt, v_arith("+", patch0, 1), patch0)
            return b_implies(notnone, b_and(v_eq(field(R, "major"), want_major), v_eq(field(R, "minor"), want_minor), v_eq(field(R, "patch"), want_patch)))
        if kind == "tag":
            has_tag = b_and(b_not(v_is_none(a.tag)), v_ne(V.unwrap_opt(a.tag) if isinstance(a.tag, SOpt) else a.tag, ""))
            return b_implies(notnone, v_eq(field(R, "tag"), V.v_ite(has_tag, V.unwrap_opt(a.tag) if isinstance(a.tag, SOpt) else a.tag, field(old, "tag"))))
        if kind == "rendered":
            return b_implies(notnone, V.z3str(res) == V1FMT(*(v1_terms(R) + [V.z3str(a.raw_pattern)])))
        raise KeyError(kind)

    return fn


c = REG.add(Contract("bumpver.v1version.incr", variant="body"))
c.callee_variants = {"bumpver.v1version.parse_version_info": "rec", "bumpver.v1version.format_version": "rec"}
c.param("old_version", KStr())
c.param("raw_pattern", KStr())
c.param("major", KBool())
c.param("minor", KBool())
c.param("patch", KBool())
c.param("tag", KOpt(KStr()))
c.param("tag_num", KBool())
c.param("pin_date", KBool())
c.param("maybe_date", KOpt(KInt()))  # only passed on to cal_info: an opaque ordinal
c.returns(KOpt(KStr()))
c.record_calls = True
c.ensures("C20+C01.v1.incr.none_or_changed", lambda a, res, cx: b_or(v_is_none(res), v_ne(V.unwrap_opt(res), a.old_version)))
c.ensures("C20.v1.incr.pinned_calendar_parts_unchanged", _v1_incr_clause("pinned"), internal=True)
c.ensures("C20.v1.incr.calendar_from_date_unless_version_is_in_future", _v1_incr_clause("from_date"), internal=True)
c.ensures("C20.v1.incr.build_strictly_increased", _v1_incr_clause("build"), internal=True)
c.ensures("C20.v1.incr.major_minor_patch_follow_the_flags", _v1_incr_clause("numeric"), internal=True)
c.ensures("C20.v1.incr.tag_is_the_requested_one_or_kept", _v1_incr_clause("tag"), internal=True)
c.ensures("C20.v1.incr.result_is_rendering_of_that_record", _v1_incr_clause("rendered"), internal=True)
c.exsures(OverflowError)
c.exsures(NotImplementedError, "C20.v1.incr.not_implemented_only_for_tag_num", lambda a, exc, cx: v_truthy(a.tag_num))
c.exsures(KeyError)
c.exsures(ValueError)
c.exsures(IndexError)
c.exsures(_re.error)
