"""Contracts on bumpver.v2version (C05, C14, C17, C01, C09 use them)."""
import z3

from bumpver import version, v2version, v2patterns

from .common import *  # noqa
from .common import REG, CAL_FIELDS, NUM_FIELDS, STR_FIELDS, CAL_RANGES, k_vinfo, k_calinfo, wf_vinfo, wf_cal, cal_full, field, same_fields

ALL_FIELDS = tuple(version.V2VersionInfo._fields)
RESETTABLE = tuple(version.V2_FIELD_INITIAL_VALUES.keys())

# --------------------------------------------------------------------------- cal_info
# Contract used by callers. The body is decided by complete enumeration of
# datetime.date (X, checks/c14), not by the symbolic executor: strftime is a
# library function (A-lib, evaluated, never axiomatised).
c = REG.new("bumpver.v2version.cal_info")
c.param("date", KOpaque("date"))
c.returns(k_calinfo(version))
c.ensures("C05+C14.cal_info.all_fields_in_range", lambda a, res, cx: cal_full(res))
c.trusted = "X: decided by enumeration of every datetime.date in checks/calendar.py"


# --------------------------------------------------------------------------- _ver_to_cal_info
c = REG.new("bumpver.v2version._ver_to_cal_info")
c.param("vinfo", k_vinfo(version))
c.requires("wf_vinfo", lambda a: wf_vinfo(version, a.vinfo))
c.returns(k_calinfo(version))
for _f in CAL_FIELDS:
    # README: "calendar parts taken from the given date unless pinned (then unchanged)"
    c.ensures(
        f"C05._ver_to_cal_info.keeps_{_f}",
        lambda a, res, cx, _f=_f: b_implies(b_not(v_is_none(field(a.vinfo, _f))), v_eq(field(res, _f), field(a.vinfo, _f))),
    )
c.ensures("C05._ver_to_cal_info.result_full", lambda a, res, cx: cal_full(res))


# --------------------------------------------------------------------------- _is_cal_gt
def spec_cal_gt(l, r):
    """left > right as tuples over the calendar fields that are non-None in both."""
    res = False
    for f in reversed(CAL_FIELDS):
        lv, rv = field(l, f), field(r, f)
        both = b_and(b_not(v_is_none(lv)), b_not(v_is_none(rv)))
        lu, ru = V.unwrap_opt(lv), V.unwrap_opt(rv)
        res = b_ite(both, b_ite(v_eq(lu, ru), res, v_cmp(">", lu, ru)), res)
    return res


def spec_cal_ge(l, r):
    res = True
    for f in reversed(CAL_FIELDS):
        lv, rv = field(l, f), field(r, f)
        both = b_and(b_not(v_is_none(lv)), b_not(v_is_none(rv)))
        lu, ru = V.unwrap_opt(lv), V.unwrap_opt(rv)
        res = b_ite(both, b_ite(v_eq(lu, ru), res, v_cmp(">", lu, ru)), res)
    return res


c = REG.new("bumpver.v2version._is_cal_gt")
c.param("left", k_vinfo(version))
c.param("right", k_calinfo(version))
c.returns(KBool())
c.ensures("C05+C14._is_cal_gt.lexicographic_on_common_fields", lambda a, res, cx: b_iff(v_truthy(res), spec_cal_gt(a.left, a.right)))


# --------------------------------------------------------------------------- _parse_pattern_fields
# String search over unbounded pattern text: out of the solvers' reach (DESIGN 2/C05,
# "bounded helper"). Callers see only: the result is a sequence of field names.
# The left-to-right order claim is checked by the bounded shadow in checks/c05.py.
FIELD_DOMAIN = ALL_FIELDS
c = REG.new("bumpver.v2version._parse_pattern_fields")
c.param("raw_pattern", KStr())
c.returns(KSeq(("enum", FIELD_DOMAIN)))
c.trusted = "B: order of fields = left-to-right order of parts, bounded check on the grammar enumeration"


# --------------------------------------------------------------------------- _iter_reset_field_items
# Ghost definitions (conservative, by recursion on the prefix length k; unfolded
# at k by the loop lemmas - never quantified):
#   chg(k)   := some field among F[0..k) differs between old and cur
#   Y_f(k)   := f was yielded while processing F[0..k)
#             = exists j < k. chg(j) and F[j] = f          (f resettable)
# so Y_f(len F) says: "f occurs to the right of a changed part".
_F_SEQ = z3.SeqSort(z3.IntSort())
# the ghost functions take the field sequence and the 20 "field differs" bits as
# arguments, so that two different (old, cur) pairs can never be confused
_GSIG = [_F_SEQ] + [z3.BoolSort()] * len(ALL_FIELDS) + [z3.IntSort(), z3.BoolSort()]
G_CHG = z3.Function("ghost_chg", *_GSIG)
G_Y = {f: z3.Function(f"ghost_Y_{f}", *_GSIG) for f in RESETTABLE}


def _diff_bits(a):
    return [V.to_z3_bool(v_ne(field(a.old_vinfo, f), field(a.cur_vinfo, f))) for f in ALL_FIELDS]


def _g(fn, a, k):
    return fn(a.fields.t, *_diff_bits(a), V.z3int(k))


def _changed_at(a, k):
    """old.F[k] != cur.F[k] as a formula over the symbolic field index F[k]."""
    e = a.fields.t[V.z3int(k)]
    bits = _diff_bits(a)
    return z3.Or(*[z3.And(e == i, bits[i]) for i in range(len(ALL_FIELDS))])


def _reset_defs_at(a, k):
    """Definitional unfoldings of chg and Y_f at 0 and at k -> k+1."""
    kt = V.z3int(k)
    e = a.fields.t[kt]
    out = [_g(G_CHG, a, 0) == z3.BoolVal(False), _g(G_CHG, a, kt + 1) == z3.Or(_g(G_CHG, a, kt), _changed_at(a, k))]
    for f in RESETTABLE:
        fi = FIELD_DOMAIN.index(f)
        out.append(_g(G_Y[f], a, 0) == z3.BoolVal(False))
        out.append(_g(G_Y[f], a, kt + 1) == z3.Or(_g(G_Y[f], a, kt), z3.And(_g(G_CHG, a, kt), e == fi)))
    return out


def right_of_change(a, f):
    """README: 'every resettable part to the right of any changed part'."""
    if f not in G_Y:
        return False
    return _g(G_Y[f], a, z3.Length(a.fields.t))


def _reset_inv(a, vars_, k, cx, st):
    kt = V.z3int(k)
    cs = [b_iff(v_truthy(vars_["has_reset"]), _g(G_CHG, a, kt))]
    y = vars_["ghost:yielded"]
    for f in RESETTABLE:
        cs.append(b_iff(y[f], _g(G_Y[f], a, kt)))
    return b_and(*cs)


class KBoolDict(Kind):
    def __init__(self, keys):
        self.keys = keys

    def fresh(self, name, assumptions):
        return {k: z3.Bool(f"{name}.{k}") for k in self.keys}


def _reset_on_yield(a, v, st):
    fld, initial = v
    y = dict(st.ghost["yielded"])
    for f in RESETTABLE:
        y[f] = b_or(y[f], v_eq(fld, f))
    st.ghost["yielded"] = y
    bad = st.ghost.get("yield_bad", False)
    # every yielded pair carries the documented initial value of that field
    ok = b_or(*[b_and(v_eq(fld, f), v_eq(initial, version.V2_FIELD_INITIAL_VALUES[f])) for f in RESETTABLE])
    st.ghost["yield_bad"] = b_or(bad, b_not(ok))


def _reset_setup(a, st):
    st.ghost["yielded"] = {f: False for f in RESETTABLE}
    st.ghost["yield_bad"] = False


c = REG.new("bumpver.v2version._iter_reset_field_items")
c.param("fields", KSeq(("enum", FIELD_DOMAIN)))
c.param("old_vinfo", k_vinfo(version))
c.param("cur_vinfo", k_vinfo(version))
c.setup = _reset_setup
c.on_yield = _reset_on_yield
c.loop(
    0,
    LoopSpec(
        carried={"has_reset": KBool(), "ghost:yielded": KBoolDict(RESETTABLE), "ghost:yield_bad": KBool()},
        invariant=lambda a, vs, k, cx, st: b_and(_reset_inv(a, vs, k, cx, st), b_not(v_truthy(vs["ghost:yield_bad"]))),
        name="C05._iter_reset_field_items.loop",
        props=("C05",),
        lemmas=lambda a, k, st: _reset_defs_at(a, k),
    ),
)
for _f in RESETTABLE:
    c.ensures(
        f"C05._iter_reset_field_items.yields_{_f}_iff_right_of_change",
        lambda a, res, cx, _f=_f: b_iff(cx.ghost["yielded"][_f], right_of_change(a, _f)),
    )
c.ensures("C05._iter_reset_field_items.yields_documented_initial_values", lambda a, res, cx: b_not(v_truthy(cx.ghost["yield_bad"])))


def _reset_items_callee(ex, gen, st, node, consume=None):
    """How callers see dict(_iter_reset_field_items(F, old, cur)): a finite-domain
    dict whose key set is given by the contract above."""
    from pyvc.abstractions import FDict
    from pyvc.contracts import Args

    env = ex.bind_args(gen.fr, gen.args, gen.kwargs)
    a = Args(env)
    present = {f: right_of_change(a, f) for f in RESETTABLE}
    value = {f: version.V2_FIELD_INITIAL_VALUES[f] for f in RESETTABLE}
    return FDict(present, value)


c.as_dict = _reset_items_callee


# --------------------------------------------------------------------------- _reset_rollover_fields
INITIAL_INT = {f: int(v) for f, v in version.V2_FIELD_INITIAL_VALUES.items()}


def spec_reset(a_fields_args, old, cur, res):
    """README rule: resettable parts right of a changed part get their initial value
    (MAJOR, MINOR, PATCH, NUM, INC0 -> 0, INC1 -> 1); everything else is unchanged."""
    cs = []
    for f in ALL_FIELDS:
        if f in RESETTABLE:
            roc = right_of_change(a_fields_args, f)
            cs.append(b_ite(roc, v_eq(field(res, f), INITIAL_INT[f]), v_eq(field(res, f), field(cur, f))))
        else:
            cs.append(v_eq(field(res, f), field(cur, f)))
    return cs


class _FieldsArgs:
    def __init__(self, fields, old, cur):
        self.fields, self.old_vinfo, self.cur_vinfo = fields, old, cur


def pattern_fields(raw_pattern):
    """The (uninterpreted) field sequence of a pattern: one symbolic sequence per pattern string."""
    fn = z3.Function("pattern_fields", z3.StringSort(), _F_SEQ)
    return SSeq(fn(V.z3str(raw_pattern)), ("enum", FIELD_DOMAIN))


REG["bumpver.v2version._parse_pattern_fields"].ensures(
    "C05._parse_pattern_fields.is_function_of_pattern", lambda a, res, cx: res.t == pattern_fields(a.raw_pattern).t
)

c = REG.new("bumpver.v2version._reset_rollover_fields")
c.param("raw_pattern", KStr())
c.param("old_vinfo", k_vinfo(version))
c.param("cur_vinfo", k_vinfo(version))
c.requires("wf_old", lambda a: wf_vinfo(version, a.old_vinfo))
c.returns(k_vinfo(version))
for _i, _f in enumerate(ALL_FIELDS):
    c.ensures(
        f"C05._reset_rollover_fields.{_f}_{'reset_iff_right_of_change' if _f in RESETTABLE else 'unchanged'}",
        lambda a, res, cx, _i=_i: spec_reset(_FieldsArgs(pattern_fields(a.raw_pattern), a.old_vinfo, a.cur_vinfo), a.old_vinfo, a.cur_vinfo, res)[_i],
    )


# --------------------------------------------------------------------------- _incr_numeric
from .lexid_ import s_int, s_isdigits, s_allnines  # noqa: E402

TAG_VALUES = ("alpha", "beta", "dev", "rc", "post", "final")  # cli.VALID_RELEASE_TAG_VALUES (compared in contracts/cli.py)


def spec_pre_reset(a, res_bid):
    """The record the README prescribes before the roll-over reset is applied."""
    cur = a.cur_vinfo
    tag_given = b_not(v_is_none(a.tag))
    tag_changes = b_and(tag_given, v_ne(a.tag, field(cur, "tag")))
    f = dict(cur.fields)
    f["major"] = v_ite(v_truthy(a.major), v_arith("+", field(cur, "major"), 1), field(cur, "major"))
    f["minor"] = v_ite(v_truthy(a.minor), v_arith("+", field(cur, "minor"), 1), field(cur, "minor"))
    f["patch"] = v_ite(v_truthy(a.patch), v_arith("+", field(cur, "patch"), 1), field(cur, "patch"))
    bumped_num = v_ite(v_truthy(a.tag_num), v_arith("+", field(cur, "num"), 1), field(cur, "num"))
    f["num"] = v_ite(tag_changes, 0, bumped_num)
    f["tag"] = v_ite(tag_given, a.tag, field(cur, "tag"))
    f["pytag"] = v_ite(tag_given, V.v_map(lambda t: "" if t is None else version.PEP440_TAG_BY_TAG[t], a.tag), field(cur, "pytag"))
    f["inc0"] = v_ite(v_truthy(a.pin_increments), field(cur, "inc0"), v_arith("+", field(cur, "inc0"), 1))
    f["inc1"] = v_ite(v_truthy(a.pin_increments), field(cur, "inc1"), v_arith("+", field(cur, "inc1"), 1))
    f["bid"] = res_bid
    return SRec(version.V2VersionInfo, f)


def _incr_numeric_clause(i):
    def fn(a, res, cx):
        pre = spec_pre_reset(a, field(res, "bid"))
        fa = _FieldsArgs(pattern_fields(a.raw_pattern), a.old_vinfo, pre)
        return spec_reset(fa, a.old_vinfo, pre, res)[i]

    return fn


c = REG.new("bumpver.v2version._incr_numeric")
c.param("raw_pattern", KStr())
c.param("old_vinfo", k_vinfo(version))
c.param("cur_vinfo", k_vinfo(version))
c.param("major", KBool())
c.param("minor", KBool())
c.param("patch", KBool())
c.param("tag", KEnum((None,) + TAG_VALUES))
c.param("tag_num", KBool())
c.param("pin_increments", KBool())
c.requires("wf_old", lambda a: wf_vinfo(version, a.old_vinfo))
c.requires("wf_cur", lambda a: wf_vinfo(version, a.cur_vinfo))
c.returns(k_vinfo(version))
for _i, _f in enumerate(ALL_FIELDS):
    if _f == "bid":
        continue
    c.ensures(f"C05._incr_numeric.{_f}_follows_readme_rule", _incr_numeric_clause(_i))
c.ensures("C05+C17._incr_numeric.build_strictly_increased", lambda a, res, cx: v_cmp(">", s_int(field(res, "bid")), s_int(field(a.cur_vinfo, "bid"))))
c.ensures("C05+C17._incr_numeric.build_stays_digits", lambda a, res, cx: s_isdigits(field(res, "bid")))
c.ensures("C05._incr_numeric.result_wf", lambda a, res, cx: wf_vinfo(version, res))
# the documented maximum of the BUILD scheme (all digits 9, after padding) is the only way out
c.exsures(
    OverflowError,
    "C05+C17._incr_numeric.overflow_only_at_documented_maximum",
    lambda a, exc, cx: b_and(s_allnines(field(a.cur_vinfo, "bid")), v_cmp(">=", s_int(field(a.cur_vinfo, "bid")), 1000)),
)
