"""Contracts on bumpver.v2version (C05, C14, C17, C01, C09 use them)."""
import z3

from bumpver import version, v2version, v2patterns

from .common import *  # noqa
from .common import REG, CAL_FIELDS, NUM_FIELDS, STR_FIELDS, CAL_RANGES, k_vinfo, k_calinfo, wf_vinfo, wf_cal, cal_full, field, same_fields

ALL_FIELDS = tuple(version.V2VersionInfo._fields)
RESETTABLE = tuple(version.V2_FIELD_INITIAL_VALUES.keys())

# README ("resettable part ... MAJOR, MINOR, PATCH, NUM, INC0 to 0, INC1 to 1"); written from the
# property statement, NOT read from version.V2_FIELD_INITIAL_VALUES, so that an edit of the table is seen
INITIAL_INT = {"major": 0, "minor": 0, "patch": 0, "num": 0, "inc0": 0, "inc1": 1}
assert set(INITIAL_INT) == set(RESETTABLE), "resettable fields changed: contracts need review"

# --------------------------------------------------------------------------- cal_info
# Contract used by callers. The body is decided by complete enumeration of
# datetime.date (X, checks/c14), not by the symbolic executor: strftime is a
# library function (A-lib, evaluated, never axiomatised).
c = REG.new("bumpver.v2version.cal_info")
c.param("date", KOpaque("date"))
c.returns(k_calinfo(version))
c.ensures("C05+C14.cal_info.all_fields_in_range", lambda a, res, cx: cal_full(res))
c.trusted = "X: decided by enumeration of every datetime.date in checks/calendar.py"


# --------------------------------------------------------------------------- _ver_to_cal_info
c = REG.new("bumpver.v2version._ver_to_cal_info")
c.param("vinfo", k_vinfo(version))
c.requires("wf_vinfo", lambda a: wf_vinfo(version, a.vinfo))
c.returns(k_calinfo(version))
for _f in CAL_FIELDS:
    # README: "calendar parts taken from the given date unless pinned (then unchanged)"
    c.ensures(
        f"C05._ver_to_cal_info.keeps_{_f}",
        lambda a, res, cx, _f=_f: b_implies(b_not(v_is_none(field(a.vinfo, _f))), v_eq(field(res, _f), field(a.vinfo, _f))),
    )
c.ensures("C05._ver_to_cal_info.result_full", lambda a, res, cx: cal_full(res))


# --------------------------------------------------------------------------- _is_cal_gt
def spec_cal_gt(l, r):
    """left > right as tuples over the calendar fields that are non-None in both."""
    res = False
    for f in reversed(CAL_FIELDS):
        lv, rv = field(l, f), field(r, f)
        both = b_and(b_not(v_is_none(lv)), b_not(v_is_none(rv)))
        lu, ru = V.unwrap_opt(lv), V.unwrap_opt(rv)
        res = b_ite(both, b_ite(v_eq(lu, ru), res, v_cmp(">", lu, ru)), res)
    return res


def spec_cal_ge(l, r):
    res = True
    for f in reversed(CAL_FIELDS):
        lv, rv = field(l, f), field(r, f)
        both = b_and(b_not(v_is_none(lv)), b_not(v_is_none(rv)))
        lu, ru = V.unwrap_opt(lv), V.unwrap_opt(rv)
        res = b_ite(both, b_ite(v_eq(lu, ru), res, v_cmp(">", lu, ru)), res)
    return res


c = REG.new("bumpver.v2version._is_cal_gt")
c.prune = False
c.param("left", k_vinfo(version))
c.param("right", k_calinfo(version))
c.returns(KBool())
c.ensures("C05+C14._is_cal_gt.lexicographic_on_common_fields", lambda a, res, cx: b_iff(v_truthy(res), spec_cal_gt(a.left, a.right)))


# --------------------------------------------------------------------------- _parse_pattern_fields
# String search over unbounded pattern text: out of the solvers' reach (DESIGN 2/C05,
# "bounded helper"). Callers see only: the result is a sequence of field names.
# The left-to-right order claim is checked by the bounded shadow in checks/c05.py.
FIELD_DOMAIN = ALL_FIELDS
c = REG.new("bumpver.v2version._parse_pattern_fields")
c.param("raw_pattern", KStr())
c.returns(KSeq(("enum", FIELD_DOMAIN)))
c.trusted = "B: order of fields = left-to-right order of parts, bounded check on the grammar enumeration"


# --------------------------------------------------------------------------- _iter_reset_field_items
# Ghost definitions (conservative, by recursion on the prefix length k; unfolded
# at k by the loop lemmas - never quantified):
#   chg(k)   := some field among F[0..k) differs between old and cur
#   Y_f(k)   := f was yielded while processing F[0..k)
#             = exists j < k. chg(j) and F[j] = f          (f resettable)
# so Y_f(len F) says: "f occurs to the right of a changed part".
_F_SEQ = z3.SeqSort(z3.IntSort())
# the ghost functions take the field sequence and the 20 "field differs" bits as
# arguments, so that two different (old, cur) pairs can never be confused
_GSIG = [_F_SEQ] + [z3.BoolSort()] * len(ALL_FIELDS) + [z3.IntSort(), z3.BoolSort()]
G_CHG = z3.Function("ghost_chg", *_GSIG)
G_Y = {f: z3.Function(f"ghost_Y_{f}", *_GSIG) for f in RESETTABLE}


def _diff_bits(a):
    return [V.to_z3_bool(v_ne(field(a.old_vinfo, f), field(a.cur_vinfo, f))) for f in ALL_FIELDS]


def _g(fn, a, k):
    return fn(a.fields.t, *_diff_bits(a), V.z3int(k))


def _changed_at(a, k):
    """old.F[k] != cur.F[k] as a formula over the symbolic field index F[k]."""
    e = a.fields.t[V.z3int(k)]
    bits = _diff_bits(a)
    return z3.Or(*[z3.And(e == i, bits[i]) for i in range(len(ALL_FIELDS))])


def _reset_defs_at(a, k):
    """Definitional unfoldings of chg and Y_f at 0 and at k -> k+1."""
    kt = V.z3int(k)
    e = a.fields.t[kt]
    out = [_g(G_CHG, a, 0) == z3.BoolVal(False), _g(G_CHG, a, kt + 1) == z3.Or(_g(G_CHG, a, kt), _changed_at(a, k))]
    for f in RESETTABLE:
        fi = FIELD_DOMAIN.index(f)
        out.append(_g(G_Y[f], a, 0) == z3.BoolVal(False))
        out.append(_g(G_Y[f], a, kt + 1) == z3.Or(_g(G_Y[f], a, kt), z3.And(_g(G_CHG, a, kt), e == fi)))
    return out


def right_of_change(a, f):
    """README: 'every resettable part to the right of any changed part'."""
    if f not in G_Y:
        return False
    return _g(G_Y[f], a, z3.Length(a.fields.t))


def _reset_inv(a, vars_, k, cx, st):
    kt = V.z3int(k)
    cs = [b_iff(v_truthy(vars_["has_reset"]), _g(G_CHG, a, kt))]
    y = vars_["ghost:yielded"]
    for f in RESETTABLE:
        cs.append(b_iff(y[f], _g(G_Y[f], a, kt)))
    return b_and(*cs)


class KBoolDict(Kind):
    def __init__(self, keys):
        self.keys = keys

    def fresh(self, name, assumptions):
        return {k: z3.Bool(f"{name}.{k}") for k in self.keys}


def _reset_on_yield(a, v, st):
    fld, initial = v
    y = dict(st.ghost["yielded"])
    for f in RESETTABLE:
        y[f] = b_or(y[f], v_eq(fld, f))
    st.ghost["yielded"] = y
    bad = st.ghost.get("yield_bad", False)
    # every yielded pair carries the documented initial value of that field
    ok = b_or(*[b_and(v_eq(fld, f), v_eq(initial, str(INITIAL_INT[f]))) for f in RESETTABLE])
    st.ghost["yield_bad"] = b_or(bad, b_not(ok))


def _reset_setup(a, st):
    st.ghost["yielded"] = {f: False for f in RESETTABLE}
    st.ghost["yield_bad"] = False


c = REG.new("bumpver.v2version._iter_reset_field_items")
c.param("fields", KSeq(("enum", FIELD_DOMAIN)))
c.param("old_vinfo", k_vinfo(version))
c.param("cur_vinfo", k_vinfo(version))
c.setup = _reset_setup
c.on_yield = _reset_on_yield
c.loop(
    0,
    LoopSpec(
        carried={"has_reset": KBool(), "ghost:yielded": KBoolDict(RESETTABLE), "ghost:yield_bad": KBool()},
        invariant=lambda a, vs, k, cx, st: b_and(_reset_inv(a, vs, k, cx, st), b_not(v_truthy(vs["ghost:yield_bad"]))),
        name="C05._iter_reset_field_items.loop",
        props=("C05",),
        lemmas=lambda a, k, st: _reset_defs_at(a, k),
    ),
)
for _f in RESETTABLE:
    c.ensures(
        f"C05._iter_reset_field_items.yields_{_f}_iff_right_of_change",
        lambda a, res, cx, _f=_f: b_iff(cx.ghost["yielded"][_f], right_of_change(a, _f)),
    )
c.ensures("C05._iter_reset_field_items.yields_documented_initial_values", lambda a, res, cx: b_not(v_truthy(cx.ghost["yield_bad"])))


def _reset_items_callee(ex, gen, st, node, consume=None):
    """How callers see dict(_iter_reset_field_items(F, old, cur)): a finite-domain
    dict whose key set is given by the contract above."""
    from pyvc.abstractions import FDict
    from pyvc.contracts import Args

    env = ex.bind_args(gen.fr, gen.args, gen.kwargs)
    a = Args(env)
    present = {f: right_of_change(a, f) for f in RESETTABLE}
    value = {f: str(INITIAL_INT[f]) for f in RESETTABLE}
    return FDict(present, value)


c.as_dict = _reset_items_callee


# --------------------------------------------------------------------------- _reset_rollover_fields


def spec_reset(a_fields_args, old, cur, res):
    """README rule: resettable parts right of a changed part get their initial value
    (MAJOR, MINOR, PATCH, NUM, INC0 -> 0, INC1 -> 1); everything else is unchanged."""
    cs = []
    for f in ALL_FIELDS:
        if f in RESETTABLE:
            roc = right_of_change(a_fields_args, f)
            cs.append(b_ite(roc, v_eq(field(res, f), INITIAL_INT[f]), v_eq(field(res, f), field(cur, f))))
        else:
            cs.append(v_eq(field(res, f), field(cur, f)))
    return cs


class _FieldsArgs:
    def __init__(self, fields, old, cur):
        self.fields, self.old_vinfo, self.cur_vinfo = fields, old, cur


def pattern_fields(raw_pattern):
    """The (uninterpreted) field sequence of a pattern: one symbolic sequence per pattern string."""
    fn = z3.Function("pattern_fields", z3.StringSort(), _F_SEQ)
    return SSeq(fn(V.z3str(raw_pattern)), ("enum", FIELD_DOMAIN))


REG["bumpver.v2version._parse_pattern_fields"].ensures(
    "C05._parse_pattern_fields.is_function_of_pattern", lambda a, res, cx: res.t == pattern_fields(a.raw_pattern).t
)

c = REG.new("bumpver.v2version._reset_rollover_fields")
c.param("raw_pattern", KStr())
c.param("old_vinfo", k_vinfo(version))
c.param("cur_vinfo", k_vinfo(version))
c.requires("wf_old", lambda a: wf_vinfo(version, a.old_vinfo))
c.returns(k_vinfo(version))
for _i, _f in enumerate(ALL_FIELDS):
    c.ensures(
        f"C05._reset_rollover_fields.{_f}_{'reset_iff_right_of_change' if _f in RESETTABLE else 'unchanged'}",
        lambda a, res, cx, _i=_i: spec_reset(_FieldsArgs(pattern_fields(a.raw_pattern), a.old_vinfo, a.cur_vinfo), a.old_vinfo, a.cur_vinfo, res)[_i],
    )


# --------------------------------------------------------------------------- _incr_numeric
from .lexid_ import s_int, s_isdigits, s_allnines  # noqa: E402

TAG_VALUES = ("alpha", "beta", "dev", "rc", "post", "final")  # cli.VALID_RELEASE_TAG_VALUES (compared in contracts/cli.py)


def spec_pre_reset(a, res_bid):
    """The record the README prescribes before the roll-over reset is applied."""
    cur = a.cur_vinfo
    tag_given = b_not(v_is_none(a.tag))
    tag_changes = b_and(tag_given, v_ne(a.tag, field(cur, "tag")))
    f = dict(cur.fields) if isinstance(cur, SRec) else dict(cur._asdict())
    f["major"] = v_ite(v_truthy(a.major), v_arith("+", field(cur, "major"), 1), field(cur, "major"))
    f["minor"] = v_ite(v_truthy(a.minor), v_arith("+", field(cur, "minor"), 1), field(cur, "minor"))
    f["patch"] = v_ite(v_truthy(a.patch), v_arith("+", field(cur, "patch"), 1), field(cur, "patch"))
    bumped_num = v_ite(v_truthy(a.tag_num), v_arith("+", field(cur, "num"), 1), field(cur, "num"))
    f["num"] = v_ite(tag_changes, 0, bumped_num)
    f["tag"] = v_ite(tag_given, a.tag, field(cur, "tag"))
    f["pytag"] = v_ite(tag_given, V.v_map(lambda t: "" if t is None else version.PEP440_TAG_BY_TAG[t], a.tag), field(cur, "pytag"))
    f["inc0"] = v_ite(v_truthy(a.pin_increments), field(cur, "inc0"), v_arith("+", field(cur, "inc0"), 1))
    f["inc1"] = v_ite(v_truthy(a.pin_increments), field(cur, "inc1"), v_arith("+", field(cur, "inc1"), 1))
    f["bid"] = res_bid
    return SRec(version.V2VersionInfo, f)


def _incr_numeric_clause(i):
    def fn(a, res, cx):
        pre = spec_pre_reset(a, field(res, "bid"))
        fa = _FieldsArgs(pattern_fields(a.raw_pattern), a.old_vinfo, pre)
        return spec_reset(fa, a.old_vinfo, pre, res)[i]

    return fn


c = REG.new("bumpver.v2version._incr_numeric")
c.param("raw_pattern", KStr())
c.param("old_vinfo", k_vinfo(version))
c.param("cur_vinfo", k_vinfo(version))
c.param("major", KBool())
c.param("minor", KBool())
c.param("patch", KBool())
c.param("tag", KEnum((None,) + TAG_VALUES))
c.param("tag_num", KBool())
c.param("pin_increments", KBool())
c.requires("wf_old", lambda a: wf_vinfo(version, a.old_vinfo))
c.requires("wf_cur", lambda a: wf_vinfo(version, a.cur_vinfo))
c.returns(k_vinfo(version))
for _i, _f in enumerate(ALL_FIELDS):
    if _f == "bid":
        continue
    c.ensures(f"C05._incr_numeric.{_f}_follows_readme_rule", _incr_numeric_clause(_i))
c.ensures("C05+C17._incr_numeric.build_strictly_increased", lambda a, res, cx: v_cmp(">", s_int(field(res, "bid")), s_int(field(a.cur_vinfo, "bid"))))
c.ensures("C05+C17._incr_numeric.build_stays_digits", lambda a, res, cx: s_isdigits(field(res, "bid")))
c.ensures("C05._incr_numeric.result_wf", lambda a, res, cx: wf_vinfo(version, res))
# the documented maximum of the BUILD scheme (all digits 9, after padding) is the only way out
c.exsures(
    OverflowError,
    "C05+C17._incr_numeric.overflow_only_at_documented_maximum",
    lambda a, exc, cx: b_and(s_allnines(field(a.cur_vinfo, "bid")), v_cmp(">=", s_int(field(a.cur_vinfo, "bid")), 1000)),
)


# --------------------------------------------------------------------------- is_valid_week_pattern
def spec_valid_week(p):
    """C14: calendar year with ISO week, or ISO year with Monday/Sunday week, is rejected."""
    has = lambda parts: b_or(*[v_contains(x, p) for x in parts])
    yy, ww = has(["YYYY", "YY", "0Y"]), has(["WW", "0W", "UU", "0U"])
    gg, vv = has(["GGGG", "GG", "0G"]), has(["VV", "0V"])
    return b_not(b_or(b_and(yy, vv), b_and(gg, ww)))


c = REG.new("bumpver.v2version.is_valid_week_pattern")
c.param("raw_pattern", KStr())
c.returns(KBool())
c.ensures("C14.is_valid_week_pattern.rejects_incoherent_year_week_pairs", lambda a, res, cx: b_iff(v_truthy(res), spec_valid_week(a.raw_pattern)))


# --------------------------------------------------------------------------- parse_version_info / format_version (as seen by callers)
def rec_terms(rec):
    """Flatten a V2VersionInfo/V2CalendarInfo into z3 terms (optionals as two terms)."""
    out = []
    for f in (rec.fields if isinstance(rec, SRec) else rec._asdict()):
        v = field(rec, f)
        if f in CAL_FIELDS:
            if v is None:
                out += [z3.BoolVal(True), z3.IntVal(0)]
            elif isinstance(v, SOpt):
                out += [v.isnone, z3.If(v.isnone, z3.IntVal(0), V.z3int(v.val))]
            else:
                out += [z3.BoolVal(False), V.z3int(v)]
        elif f in NUM_FIELDS:
            out.append(V.z3int(v))
        elif f == "tag":
            if isinstance(v, SEnum):
                out.append(v.idx)
            elif isinstance(v, str):
                out.append(z3.IntVal(sorted(version.PEP440_TAG_BY_TAG).index(v)))
            else:
                # guarded tag value: index via if-then-else
                dom = sorted(version.PEP440_TAG_BY_TAG)
                t = z3.IntVal(0)
                for g, x in V.as_guards(v):
                    t = z3.If(V.to_z3_bool(g), _tag_index(x, dom), t)
                out.append(t)
        else:
            out.append(V.z3str(v))
    return out


def _tag_index(x, dom):
    if isinstance(x, SEnum):
        if x.domain == tuple(dom):
            return x.idx
        t = z3.IntVal(0)
        for i, d in enumerate(x.domain):
            if d is not None:
                t = z3.If(x.idx == i, z3.IntVal(dom.index(d)), t)
        return t
    return z3.IntVal(dom.index(x))


_VINFO_SORTS = []
for _f in ALL_FIELDS:
    if _f in CAL_FIELDS:
        _VINFO_SORTS += [z3.BoolSort(), z3.IntSort()]
    elif _f in NUM_FIELDS or _f == "tag":
        _VINFO_SORTS.append(z3.IntSort())
    else:
        _VINFO_SORTS.append(z3.StringSort())
FMT = z3.Function("spec_format_version", *(_VINFO_SORTS + [z3.StringSort(), z3.StringSort()]))
# PARSED_<field>(version, pattern): the record parse_version_info returns is a function of its arguments
_PARSED = {}
for _f, _srt in zip(ALL_FIELDS, [None] * len(ALL_FIELDS)):
    pass


def parsed_eq(res, version_str, raw_pattern):
    """res is the (unique) record that parse_version_info(version_str, raw_pattern) returns."""
    vs, ps = V.z3str(version_str), V.z3str(raw_pattern)
    terms = rec_terms(res)
    cs = []
    for i, (t, srt) in enumerate(zip(terms, _VINFO_SORTS)):
        fn = z3.Function(f"spec_parsed_{i}", z3.StringSort(), z3.StringSort(), srt)
        cs.append(fn(vs, ps) == t)
    return z3.And(*cs)


ACCEPTS = z3.Function("spec_accepts", z3.StringSort(), z3.StringSort(), z3.BoolSort())  # accepts(pattern, version)

import re as _re  # noqa: E402

c = REG.new("bumpver.v2version.parse_version_info")
c.param("version_str", KStr())
c.param("raw_pattern", KStr())
c.returns(k_vinfo(version))
c.ensures("C02.parse_version_info.result_wf", lambda a, res, cx: wf_vinfo(version, res))
c.ensures("C02.parse_version_info.function_of_arguments", lambda a, res, cx: parsed_eq(res, a.version_str, a.raw_pattern))
c.ensures("C01.parse_version_info.returns_only_if_accepted", lambda a, res, cx: ACCEPTS(V.z3str(a.raw_pattern), V.z3str(a.version_str)))
c.exsures(version.PatternError, "C01.parse_version_info.pattern_error_iff_not_accepted", lambda a, exc, cx: z3.Not(ACCEPTS(V.z3str(a.raw_pattern), V.z3str(a.version_str))))
c.exsures(_re.error)  # malformed pattern text (unbalanced brackets): re.compile fails
c.trusted = "callers' view; the body is verified separately (contract variant 'body' in contracts/parse_version.py) against the regex-match model A-re"


def _fmt_effects(a, st, outcome):
    st.emit("Format", a.vinfo, a.raw_pattern)


c = REG.new("bumpver.v2version.format_version")
c.param("vinfo", k_vinfo(version))
c.param("raw_pattern", KStr())
c.returns(KStr())
c.effects = _fmt_effects
c.ensures("C02.format_version.function_of_arguments", lambda a, res, cx: V.z3str(res) == FMT(*(rec_terms(a.vinfo) + [V.z3str(a.raw_pattern)])))
c.exsures(ValueError)  # unbalanced brackets in the pattern (_parse_segtree)
c.trusted = "callers' view (uninterpreted rendering function); rendering itself is C02"


# --------------------------------------------------------------------------- incr
def _calinfo_effects(a, st, outcome):
    pass


def _formatted_record(cx):
    evs = [e for e in cx.new if e[0] == "Format"]
    return evs[-1][1] if evs else None


def _incr_ghost(cx, key):
    return cx.ghost.get(key)


def _incr_setup(a, st):
    pass


def _incr_base(old, R):
    f = dict(old.fields)
    for cf in CAL_FIELDS:
        f[cf] = field(R, cf)
    return SRec(version.V2VersionInfo, f)


class _IncrArgs:
    pass


def _incr_numeric_view(a, old, R):
    v = _IncrArgs()
    v.raw_pattern, v.old_vinfo, v.cur_vinfo = a.raw_pattern, old, _incr_base(old, R)
    v.major, v.minor, v.patch, v.tag, v.tag_num, v.pin_increments = a.major, a.minor, a.patch, a.tag, a.tag_num, a.pin_increments
    return v


def _incr_clause(kind, idx=None):
    def fn(a, res, cx):
        if res is None:
            return True
        R = _formatted_record(cx)
        parsed = [e for e in cx.new if e[0] == "CallResult" and e[1] == "bumpver.v2version.parse_version_info"]
        today = [e for e in cx.new if e[0] == "CallResult" and e[1] == "bumpver.v2version.cal_info"]
        if R is None or not parsed:
            return False  # a version was returned without parsing the old one / rendering a record
        old = parsed[-1][2]
        notnone = b_not(v_is_none(res))
        if kind == "pinned":
            return b_implies(b_and(notnone, v_truthy(a.pin_date)), b_and(*[b_implies(b_not(v_is_none(field(old, f))), v_eq(field(R, f), field(old, f))) for f in CAL_FIELDS]))
        if kind == "never_backwards":
            return b_implies(notnone, spec_cal_ge(R, old))
        if kind == "from_date":
            if not today:
                return b_implies(notnone, v_truthy(a.pin_date))
            # the calendar comes from one cal_info call whose argument is the requested date (maybe_date, else TODAY):
            # not the parameterless "today", not a second look-up
            arg = getattr(today[-1][3], "date", None)
            if len(today) != 1 or arg is None:
                return b_implies(notnone, v_truthy(a.pin_date))
            # a concrete argument (version.TODAY) is right only when no date was requested
            arg_ok = True if V.contains_sym(arg) else v_is_none(a.maybe_date)
            td = today[-1][2]
            return b_implies(
                b_and(notnone, b_not(v_truthy(a.pin_date))),
                b_and(arg_ok, b_ite(spec_cal_gt(old, td), same_fields(R, old, CAL_FIELDS), same_fields(R, td, CAL_FIELDS))),
            )
        if kind == "numeric":
            v = _incr_numeric_view(a, old, R)
            pre = spec_pre_reset(v, field(R, "bid"))
            fa = _FieldsArgs(pattern_fields(a.raw_pattern), old, pre)
            return b_implies(notnone, spec_reset(fa, old, pre, R)[idx])
        if kind == "build":
            return b_implies(notnone, v_cmp(">", s_int(field(R, "bid")), s_int(field(old, "bid"))))
        if kind == "rendered":
            return b_implies(notnone, V.z3str(res) == FMT(*(rec_terms(R) + [V.z3str(a.raw_pattern)])))
        raise KeyError(kind)

    return fn


c = REG.new("bumpver.v2version.incr")
c.param("old_version", KStr())
c.param("raw_pattern", KStr())
c.param("major", KBool())
c.param("minor", KBool())
c.param("patch", KBool())
c.param("tag", KEnum((None,) + TAG_VALUES))
c.param("tag_num", KBool())
c.param("pin_increments", KBool())
c.param("pin_date", KBool())
c.param("maybe_date", KOpt(KInt()))  # a date is only passed on to cal_info: modelled as an opaque ordinal
c.returns(KOpt(KStr()))
c.record_calls = True
c.ensures("C01.incr.none_or_nonempty_and_changed", lambda a, res, cx: b_or(v_is_none(res), b_and(v_ne(res, ""), v_ne(res, a.old_version))))
c.ensures("C14.incr.incoherent_week_pattern_gives_no_version", lambda a, res, cx: b_implies(b_not(spec_valid_week(a.raw_pattern)), v_is_none(res)))
c.ensures("C05.incr.pinned_calendar_parts_unchanged", _incr_clause("pinned"), internal=True)
c.ensures("C05+C14.incr.calendar_never_moves_backwards", _incr_clause("never_backwards"), internal=True)
c.ensures("C05.incr.calendar_from_date_unless_version_is_in_future", _incr_clause("from_date"), internal=True)
for _i, _f in enumerate(ALL_FIELDS):
    if _f in CAL_FIELDS or _f == "bid":
        continue
    c.ensures(f"C05.incr.{_f}_follows_readme_rule", _incr_clause("numeric", _i), internal=True)
c.ensures("C05+C17.incr.build_strictly_increased", _incr_clause("build"), internal=True)
c.ensures("C05.incr.result_is_rendering_of_that_record", _incr_clause("rendered"), internal=True)
c.ensures(
    "C05.incr.tag_num_needs_a_tag",
    lambda a, res, cx: b_implies(
        b_and(v_truthy(a.tag_num), v_is_none(a.tag), *[v_eq(field(e[2], "tag"), "final") for e in cx.new if e[0] == "CallResult" and e[1] == "bumpver.v2version.parse_version_info"][-1:]),
        v_is_none(res),
    ),
    internal=True,
)
c.exsures(OverflowError)  # BUILD at its documented maximum (C17)
c.exsures(ValueError)  # malformed pattern
c.exsures(_re.error)
