"""Contracts on bumpver.vcs and bumpver.hooks (C10, C11, C12, C08)."""
import subprocess as sp

import z3

from bumpver import vcs, hooks, config

from pyvc.symexec import SObj
from .common import *  # noqa
from .common import REG

# --------------------------------------------------------------------------- kinds
VCS_NAMES = tuple(vcs.VCS_SUBCOMMANDS_BY_NAME.keys())  # ('git', 'hg')


class KVcsApi(Kind):
    """A VCSAPI instance for git or hg with the real subcommand table of the tree."""

    def fresh(self, name, assumptions):
        nm = KEnum(VCS_NAMES).fresh(name + ".name", assumptions)
        sub = V.v_map(lambda n: vcs.VCS_SUBCOMMANDS_BY_NAME[n], nm)
        return SObj(vcs.VCSAPI, {"name": nm, "subcommands": sub})



# --------------------------------------------------------------------------- VCSAPI.__call__ as seen by callers
# Every VCS command the code issues appears as one event
#   ("Vcs", vcs_name, cmd_name, kwargs)
# in the effect log, whether it succeeds or fails (A-proc: check_output either returns
# the output or raises CalledProcessError / OSError after the command was attempted).
def _call_effects(a, st, outcome):
    st.emit("Vcs", a.self.attrs["name"], a.cmd_name, dict(a.kwargs), a.env)


c = REG.new("bumpver.vcs.VCSAPI.__call__")
c.param("self", KVcsApi())
c.param("cmd_name", KStr())
c.returns(KStr())
c.effects = _call_effects
c.exsures(sp.CalledProcessError)
c.exsures(OSError)
c.trusted = "callers' view of __call__; its body (argv construction) is C12"


# --------------------------------------------------------------------------- simple wrappers
def _events(cx, kind=None):
    return [e for e in cx.new if e[0] == "Vcs" and (kind is None or e[2] == kind)]


def _vcs_names(cx):
    return [e[2] for e in cx.new if e[0] == "Vcs"]


MUTATING = ("add_path", "commit", "tag", "tag_light", "push", "push_tag")


# get_remote: swallows every exception; only reads
c = REG.new("bumpver.vcs.VCSAPI.get_remote")
c.param("self", KVcsApi())
c.returns(KOpt(KStr()))
c.ensures("C10.get_remote.read_only", lambda a, res, cx: all(n in ("ls_branches", "show_remotes") for n in _vcs_names(cx)))
c.ensures("C10.get_remote.git_branch_listing_only_for_git", lambda a, res, cx: b_and(*[v_eq(e[1], "git") for e in _events(cx, "ls_branches")]))


def _get_remote_effects(a, st, outcome):
    st.emit("VcsRead", a.self.attrs["name"], "get_remote")


REG["bumpver.vcs.VCSAPI.get_remote"].effects = _get_remote_effects
REG["bumpver.vcs.VCSAPI.get_remote"].loop(0, LoopSpec(carried={}, invariant=lambda a, vs, k, cx, st: True, name="C10.get_remote.loop", props=("C10",)))

# fetch: only if a remote exists
c = REG.new("bumpver.vcs.VCSAPI.fetch")
c.param("self", KVcsApi())
c.ensures("C10.fetch.only_fetch_command", lambda a, res, cx: all(n == "fetch" for n in _vcs_names(cx)))
c.ensures(
    "C10.fetch.only_if_remote_present",
    lambda a, res, cx: b_implies(len(_events(cx, "fetch")) > 0, b_and(*[v_truthy(e[2]) for e in cx.new if e[0] == "CallResult" and e[1] == "bumpver.vcs.VCSAPI.get_remote"])),
)
c.exsures(sp.CalledProcessError, "C10.fetch.failure_after_fetch_attempt", lambda a, exc, cx: len(_events(cx, "fetch")) == 1)
c.exsures(OSError)


def _fetch_effects(a, st, outcome):
    st.emit("VcsStep", "fetch", outcome)


REG["bumpver.vcs.VCSAPI.fetch"].effects = _fetch_effects

# add / commit / tag / push_tag / push
c = REG.new("bumpver.vcs.VCSAPI.add")
c.param("self", KVcsApi())
c.param("path", KStr())
c.ensures("C10+C12.add.exactly_one_add_path_with_that_path", lambda a, res, cx: b_and(len(_events(cx)) == 1, _vcs_names(cx) == ["add_path"], v_eq(_events(cx)[0][3].get("path"), a.path) if _events(cx) else False))
c.exsures(sp.CalledProcessError, "C10.add.failure_after_single_attempt", lambda a, exc, cx: _vcs_names(cx) == ["add_path"])
c.exsures(OSError, "C10.add.oserror_after_single_attempt", lambda a, exc, cx: _vcs_names(cx) == ["add_path"])

c = REG.new("bumpver.vcs.VCSAPI.tag")
c.param("self", KVcsApi())
c.param("tag_name", KStr())
c.param("tag_message", KStr())


def _tag_ok(a, cx):
    ev = _events(cx)
    if len(ev) != 1:
        return False
    e = ev[0]
    annotated = e[2] == "tag"
    light = e[2] == "tag_light"
    if not (annotated or light):
        return False
    cs = [v_eq(e[3].get("tag"), a.tag_name)]
    # annotated iff a tag message is given
    cs.append(b_iff(annotated, v_truthy(a.tag_message)))
    if annotated:
        cs.append(v_eq(e[3].get("message"), a.tag_message))
    return b_and(*cs)


c.ensures("C10+C12.tag.one_tag_command_named_new_version_annotated_iff_message", lambda a, res, cx: _tag_ok(a, cx))
c.exsures(sp.CalledProcessError, "C10.tag.failure_after_single_attempt", lambda a, exc, cx: _tag_ok(a, cx))
c.exsures(OSError, "C10.tag.oserror_after_single_attempt", lambda a, exc, cx: _tag_ok(a, cx))


def _push_ok(a, cx, cmd, with_tag):
    ev = [e for e in _events(cx) if e[2] in MUTATING]
    remotes = [e[2] for e in cx.new if e[0] == "CallResult" and e[1] == "bumpver.vcs.VCSAPI.get_remote"]
    if len(ev) > 1:
        return False
    if not ev:
        return b_and(*[b_not(v_truthy(r)) for r in remotes])  # no push: remote absent
    e = ev[0]
    if e[2] != cmd:
        return False
    cs = [v_truthy(r) for r in remotes] + [len(remotes) == 1]
    if remotes:
        cs.append(v_eq(e[3].get("remote"), V.unwrap_opt(remotes[0])))
    if with_tag:
        cs.append(v_eq(e[3].get("tag"), a.tag_name))
    return b_and(*cs)


c = REG.new("bumpver.vcs.VCSAPI.push_tag")
c.param("self", KVcsApi())
c.param("tag_name", KStr())
c.ensures("C10+C12.push_tag.pushes_that_tag_only_if_remote_present", lambda a, res, cx: _push_ok(a, cx, "push_tag", True))
c.exsures(sp.CalledProcessError, "C10.push_tag.failure_after_single_attempt", lambda a, exc, cx: _push_ok(a, cx, "push_tag", True))
c.exsures(OSError, "C10.push_tag.oserror_after_single_attempt", lambda a, exc, cx: _push_ok(a, cx, "push_tag", True))

c = REG.new("bumpver.vcs.VCSAPI.push")
c.param("self", KVcsApi())
c.ensures("C10.push.pushes_only_if_remote_present", lambda a, res, cx: _push_ok(a, cx, "push", False))
c.exsures(sp.CalledProcessError, "C10.push.failure_after_single_attempt", lambda a, exc, cx: _push_ok(a, cx, "push", False))
c.exsures(OSError, "C10.push.oserror_after_single_attempt", lambda a, exc, cx: _push_ok(a, cx, "push", False))


def _step_effects(kind):
    def eff(a, st, outcome):
        d = {k: v for k, v in a.__dict__.items() if k != "self"}
        st.emit("VcsStep", kind, outcome, d)

    return eff


for _k in ("add", "tag", "push_tag", "push", "commit"):
    pass
REG["bumpver.vcs.VCSAPI.add"].effects = _step_effects("add")
REG["bumpver.vcs.VCSAPI.tag"].effects = _step_effects("tag")
REG["bumpver.vcs.VCSAPI.push_tag"].effects = _step_effects("push_tag")
REG["bumpver.vcs.VCSAPI.push"].effects = _step_effects("push")


# --------------------------------------------------------------------------- C11: status / assert_not_dirty
from pyvc.abstractions import SymStrSet, SymMapped  # noqa: E402
from pyvc import strmodels  # noqa: E402


def _status_lines_are_output_lines(a, res, cx):
    """A-git speaks about the lines of the command's output: the list that is parsed must be
    exactly output.splitlines() of what `status` printed (not of an edited copy of it)."""
    outs = [e[2] for e in cx.new if e[0] == "CallResult" and e[1] == "bumpver.vcs.VCSAPI.__call__"]
    if len(outs) != 1 or not isinstance(res, SymMapped):
        return False
    root = res.root()
    return isinstance(root, SSeq) and root.t.eq(strmodels.SPLITLINES(V.z3str(outs[0])))


class KStrSet(Kind):
    def fresh(self, name, assumptions):
        return SymStrSet(SSeq(z3.Const(name, z3.SeqSort(z3.StringSort())), "str"))


# A-git: `git status --porcelain` (v1) prints one line per path: two status characters
# X and Y (either may be a blank), one blank, the path. Codes that can occur:
PORCELAIN_CODES = " MADU?!"  # R/C (rename/copy) lines carry 'ORIG -> PATH': clauses of their own below


ARROW = z3.StringVal(" -> ")


def _status_line_clause(X, Y, rename=False):
    XY = X + Y

    def fn(a, res, cx):
        if not isinstance(res, SymMapped):
            return False
        ex = cx.ghost["__ex__"]
        st = cx.st
        path = V.sstr(f"PATH_{X}{Y}".replace(" ", "_"))
        cx.ghost.setdefault("extra_inputs", {})[f"path_on_line_{XY!r}"] = path
        pre = z3.And(
            strmodels.first_nonws(path.t),
            strmodels.last_nonws(path.t),
            z3.Not(z3.Contains(path.t, z3.StringVal("\n"))),
            z3.Not(z3.Contains(path.t, z3.StringVal("\r"))),
        )
        if rename:
            # renamed/copied entry: "XY <orig path> -> <path>"; the file that now exists (and that a glob finds) is <path>
            orig = V.sstr(f"ORIG_{X}{Y}".replace(" ", "_"))
            cx.ghost["extra_inputs"][f"orig_on_line_{XY!r}"] = orig
            pre = z3.And(pre, strmodels.first_nonws(orig.t), strmodels.last_nonws(orig.t), z3.Not(z3.Contains(orig.t, z3.StringVal("\n"))), z3.Not(z3.Contains(orig.t, z3.StringVal("\r"))), z3.Not(z3.Contains(orig.t, z3.StringVal(" "))))
            line = SStr(z3.Concat(z3.StringVal(XY + " "), orig.t, ARROW, path.t))
            # instance of the lemma proved as its own obligation (C11.status.lemma...): the first ' -> ' of the line is the separator
            pre = z3.And(pre, z3.IndexOf(z3.Concat(orig.t, ARROW, path.t), ARROW, 0) == z3.Length(orig.t))
        else:
            # A-git: names containing blanks are printed quoted, so ' -> ' occurs in a line only as the rename separator
            pre = z3.And(pre, z3.Not(z3.Contains(path.t, ARROW)))
            line = SStr(z3.Concat(z3.StringVal(XY + " "), path.t))
        base = st.fork()
        base.assume(pre)
        n0 = len(base.pc)
        want_keep = b_or(a.required_files.__pyvc_contains__(path), XY != "??")
        cs = []
        for s1, kind, val in res.elementwise(ex, line, base):
            extra = z3.And(*([pre] + s1.pc[n0:]))
            if kind == "raise":
                cs.append(z3.Not(extra))
            elif kind == "keep":
                cs.append(z3.Implies(extra, V.to_z3_bool(b_and(want_keep, v_eq(val, path)))))
            else:
                cs.append(z3.Implies(extra, V.to_z3_bool(b_not(want_keep))))
        is_git = v_eq(a.self.attrs["name"], "git")
        return b_implies(is_git, z3.And(*cs))

    return fn


c = REG.new("bumpver.vcs.VCSAPI.status")
c.param("self", KVcsApi())
c.param("required_files", KStrSet())
for _X in PORCELAIN_CODES:
    for _Y in PORCELAIN_CODES:
        if _X + _Y == "  ":
            continue
        if (_X == "?") != (_Y == "?") or (_X == "!") != (_Y == "!"):
            continue  # git only prints ?? and !! as pairs
        _nm = (_X + _Y).replace(" ", "_").replace("?", "q").replace("!", "i")
        # from the property: a path is reported iff it carries a pattern or is not merely untracked,
        # and it is reported under its own name
        c.ensures(f"C11.status.porcelain_line_{_nm}_reports_path_iff_dirty_or_required", _status_line_clause(_X, _Y))
for _X in "RC":
    for _Y in " MD":
        _nm = (_X + _Y).replace(" ", "_")
        # "renamed" is one of the states the property lists: the file at its new name is reported
        c.ensures(f"C11.status.porcelain_rename_line_{_nm}_reports_the_new_path", _status_line_clause(_X, _Y, rename=True))
def _arrow_lemma():
    o, p = z3.String("lemma_orig"), z3.String("lemma_path")
    return z3.Implies(z3.Not(z3.Contains(o, z3.StringVal(" "))), z3.IndexOf(z3.Concat(o, ARROW, p), ARROW, 0) == z3.Length(o))


c.lemma("C11.status.lemma.first_arrow_of_a_rename_line_is_the_separator", _arrow_lemma)
c.ensures("C11.status.parses_the_lines_of_the_status_output_itself", _status_lines_are_output_lines)
c.ensures("C11.status.only_status_command", lambda a, res, cx: _vcs_names(cx) == ["status"])
# a malformed line can only break the (non-porcelain) hg parser; never the git one
c.exsures(ValueError, "C11.status.git_lines_never_break_the_parser", lambda a, exc, cx: v_ne(a.self.attrs["name"], "git"))
c.exsures(sp.CalledProcessError)
c.exsures(OSError)


def _status_replayer(contract, ob, model_py, z3model=None):
    """Feed the porcelain line of the counterexample to the real VCSAPI.status."""
    import bumpver.vcs as rv

    key = [k for k in model_py if k.startswith("path_on_line_")]
    if not key:
        return dict(note="no line in model")
    out = {}
    for k in key:
        xy = eval(k[len("path_on_line_") :])
        path = model_py[k] or "A"
        req = set(model_py.get("required_files") or [])
        orig = model_py.get(f"orig_on_line_{xy!r}")
        line = f"{xy} {orig or 'B'} -> {path}" if xy[0] in "RC" else f"{xy} {path}"
        saved = rv.sp.check_output
        rv.sp.check_output = lambda *a_, **k_: (line + "\n").encode("utf-8")
        try:
            got = rv.VCSAPI("git").status(required_files=req)
        except Exception as e:  # noqa
            got = f"raised {type(e).__name__}"
        finally:
            rv.sp.check_output = saved
        want = [path] if (path in req or xy != "??") else []
        if got != want:
            return dict(reproduced=True, inputs=dict(status_output=line, required_files=sorted(req)), observed=got, expected=want)
        out = dict(inputs=dict(status_output=line), observed=got)
    out["reproduced"] = False
    return out


c.replayer = _status_replayer


def _status_callee(ex, a, st, node):
    """Callers' view: the list of dirty paths, an arbitrary sequence of strings
    (what it contains is the clause above)."""
    from pyvc.symexec import Val, Exc, ExcVal, fresh_name

    _call_effects(type("A", (), dict(self=a.self, cmd_name="status", kwargs={}, env=None))(), st, "return")
    out = []
    for cls in (sp.CalledProcessError, OSError):
        s2 = st.fork()
        out.append(Exc(ExcVal(cls, (V.sstr(fresh_name("excmsg")),)), s2))
    res = SSeq(z3.Const(fresh_name("dirty_files"), z3.SeqSort(z3.StringSort())), "str")
    st.emit("CallResult", "bumpver.vcs.VCSAPI.status", res, a)
    out.append(Val(res, st))
    return out


c.callee_hook = _status_callee


# assert_not_dirty
def _dirty(cx):
    r = [e[2] for e in cx.new if e[0] == "CallResult" and e[1] == "bumpver.vcs.VCSAPI.status"]
    return r[-1] if r else None


def _no_writes(cx):
    return all(e[0] != "Write" for e in cx.new)


def _intersects(d, fp):
    from pyvc.abstractions import _intersects as I

    return I()(d.t, fp.seq.t)


c = REG.new("bumpver.vcs.assert_not_dirty")
c.param("vcs_api", KVcsApi())
c.param("filepaths", KStrSet())
c.param("allow_dirty", KBool())
c.ensures("C11.assert_not_dirty.returns_only_if_clean_or_allowed", lambda a, res, cx: b_or(b_not(v_truthy(_dirty(cx))), v_truthy(a.allow_dirty)) if _dirty(cx) is not None else False)
c.ensures("C11.assert_not_dirty.never_returns_when_a_pattern_file_is_dirty", lambda a, res, cx: b_not(_intersects(_dirty(cx), a.filepaths)) if _dirty(cx) is not None else False)
c.ensures("C11.assert_not_dirty.return_writes_nothing", lambda a, res, cx: _no_writes(cx))
c.ensures("C11+C10.assert_not_dirty.only_status_command", lambda a, res, cx: _vcs_names(cx) == ["status"])
c.exsures(
    SystemExit,
    "C11.assert_not_dirty.exit_1_only_when_dirty",
    lambda a, exc, cx: b_and(v_eq(exc.args[0], 1), v_truthy(_dirty(cx)), b_or(b_not(v_truthy(a.allow_dirty)), _intersects(_dirty(cx), a.filepaths)), _no_writes(cx)) if _dirty(cx) is not None else False,
)
c.exsures(sp.CalledProcessError, "C11.assert_not_dirty.vcs_failure_writes_nothing", lambda a, exc, cx: _no_writes(cx))
c.exsures(OSError, "C11.assert_not_dirty.oserror_writes_nothing", lambda a, exc, cx: _no_writes(cx))
c.loop(0, LoopSpec(carried={}, invariant=lambda a, vs, k, cx, st: True, name="C11.assert_not_dirty.log_loop0", props=("C11",)))
c.loop(1, LoopSpec(carried={}, invariant=lambda a, vs, k, cx, st: True, name="C11.assert_not_dirty.log_loop1", props=("C11",)))


def _and_effects(a, st, outcome):
    st.emit("VcsStep", "dirty_check", outcome)


c.effects = _and_effects


# --------------------------------------------------------------------------- hooks.run
def _hook_effects(a, st, outcome):
    st.emit("Hook", a.path, a.old_version, a.new_version, outcome)


def _popen_events(cx):
    return [e for e in cx.new if e[0] == "Popen"]


def _hook_env_ok(a, cx):
    ev = _popen_events(cx)
    if len(ev) != 1:
        return False
    env = ev[0][2]
    if not isinstance(env, dict) or not env.get("<os.environ>"):
        return False
    if "BUMPVER_OLD_VERSION" not in env or "BUMPVER_NEW_VERSION" not in env:
        return False
    return b_and(v_eq(env["BUMPVER_OLD_VERSION"], a.old_version), v_eq(env["BUMPVER_NEW_VERSION"], a.new_version))


c = REG.new("bumpver.hooks.run")
c.param("path", KStr())
c.param("old_version", KStr())
c.param("new_version", KStr())
c.effects = _hook_effects
c.ensures("C10.hooks.run.script_started_once_with_old_and_new_version_in_env", lambda a, res, cx: _hook_env_ok(a, cx))
c.ensures(
    "C10.hooks.run.returns_only_on_exit_status_0",
    lambda a, res, cx: b_and(*[v_eq(e[2].returncode, 0) for e in cx.new if e[0] == "ProcResult"]) if any(e[0] == "ProcResult" for e in cx.new) else False,
)
c.exsures(SystemExit, "C10.hooks.run.failure_exits_1", lambda a, exc, cx: b_and(v_eq(exc.args[0], 1), _hook_env_ok(a, cx)))


# --------------------------------------------------------------------------- VCSAPI.commit
def _commit_ok(a, cx):
    ev = _events(cx)
    name = a.self.attrs["name"]
    if len(ev) != 1 or ev[0][2] != "commit":
        return False
    e = ev[0]
    writes = [x for x in cx.new if x[0] == "Write"]
    unlinks = [x for x in cx.new if x[0] == "Unlink"]
    if "message" in e[3]:
        # git: the message is the argument itself; no temporary file
        return b_and(v_eq(name, "git"), v_eq(e[3]["message"], a.message), len(writes) == 0)
    # hg: message written verbatim (utf-8) to a temporary log file which is removed afterwards
    if len(writes) != 1 or len(unlinks) != 1 or "path" not in e[3]:
        return False
    w = writes[0]
    return b_and(v_ne(name, "git"), v_eq(w[2], a.message), v_eq(e[3]["path"], w[1]), v_eq(unlinks[0][1], w[1]))


c = REG.new("bumpver.vcs.VCSAPI.commit")
c.param("self", KVcsApi())
c.param("message", KStr())
c.effects = _step_effects("commit")
c.ensures("C10+C12.VCSAPI.commit.one_commit_with_message_verbatim", lambda a, res, cx: _commit_ok(a, cx))
c.exsures(sp.CalledProcessError, "C10.VCSAPI.commit.failure_after_single_attempt_tmpfile_removed", lambda a, exc, cx: _commit_ok(a, cx))
c.exsures(OSError, "C10.VCSAPI.commit.oserror_tmpfile_removed", lambda a, exc, cx: b_or(_commit_ok(a, cx), len(_events(cx)) == 0))
c.exsures(AssertionError, "C10.VCSAPI.commit.guard_against_blank_in_tmp_name", lambda a, exc, cx: len(_events(cx)) == 0)


# --------------------------------------------------------------------------- vcs.commit (the ordered steps of C10)
from .cli_kinds import k_config  # noqa: E402

STEP_ORDER = ("pre_hook", "add", "commit", "post_hook", "tag", "push_tag", "push")


def _observed_steps(cx):
    """Project the effect log on step kinds, in order. Returns (kinds, events) or None if malformed."""
    kinds, events = [], []
    seen_commit = False
    for e in cx.new:
        if e[0] == "Hook":
            kinds.append("post_hook" if seen_commit else "pre_hook")
            events.append(e)
        elif e[0] == "LoopHavoc":
            kinds.append("add")
            events.append(e)
        elif e[0] == "VcsStep":
            if e[1] == "add":
                if not kinds or kinds[-1] != "add":
                    kinds.append("add")
                    events.append(e)
                continue
            if e[1] == "commit":
                seen_commit = True
            kinds.append(e[1])
            events.append(e)
        elif e[0] in ("Vcs", "Write", "Popen", "Exec"):
            return None  # vcs.commit itself must not issue raw commands or write files
    return kinds, events


def _enabled(a):
    cfg = a.cfg
    commit = v_truthy(field(cfg, "commit"))
    tag = v_truthy(field(cfg, "tag"))
    push = v_truthy(field(cfg, "push"))
    return dict(
        pre_hook=b_and(commit, v_truthy(field(cfg, "pre_commit_hook"))),
        add=commit,
        commit=commit,
        post_hook=b_and(commit, v_truthy(field(cfg, "post_commit_hook"))),
        tag=b_and(commit, tag),
        push_tag=b_and(commit, push, tag),
        push=b_and(commit, push, b_not(tag)),
    )


def _steps_clause(raised):
    def fn(a, res, cx):
        obs = _observed_steps(cx)
        if obs is None:
            return False
        kinds, events = obs
        idx = [STEP_ORDER.index(k) if k in STEP_ORDER else -1 for k in kinds]
        if -1 in idx or any(i >= j for i, j in zip(idx, idx[1:])):
            return False  # unknown step, wrong order or repetition
        en = _enabled(a)
        cs = [en[k] for k in kinds]
        last = idx[-1] if idx else -1
        for i, k in enumerate(STEP_ORDER):
            if k in kinds:
                continue
            if not raised or i < last:
                cs.append(b_not(en[k]))  # an enabled step may be missing only after the failing one
        # step arguments: hooks get old/new version, tag and push carry the new version
        cfg = a.cfg
        for k, e in zip(kinds, events):
            if k == "pre_hook":
                cs += [v_eq(e[1], field(cfg, "pre_commit_hook")), v_eq(e[2], field(cfg, "current_version")), v_eq(e[3], a.new_version)]
            if k == "post_hook":
                cs += [v_eq(e[1], field(cfg, "post_commit_hook")), v_eq(e[2], field(cfg, "current_version")), v_eq(e[3], a.new_version)]
            if k == "commit":
                cs.append(v_eq(e[3]["message"], a.commit_message))
            if k == "tag":
                cs += [v_eq(e[3]["tag_name"], a.new_version), v_eq(e[3]["tag_message"], a.tag_message)]
            if k == "push_tag":
                cs.append(v_eq(e[3]["tag_name"], a.new_version))
        if raised and kinds:
            # every step before the last observed one succeeded
            for k, e in list(zip(kinds, events))[:-1]:
                if e[0] in ("VcsStep",) and e[2] != "return":
                    return False
                if e[0] == "Hook" and e[4] != "return":
                    return False
        return b_and(*cs)

    return fn


def _add_loop_inv(a, vs, k, cx, st):
    """Each iteration stages exactly one of the configured paths (C08/C10/C12)."""
    ev = st.log
    i = max([j for j, e in enumerate(ev) if e[0] == "LoopHavoc"], default=None)
    if i is None:
        return True
    tail = [e for e in ev[i + 1 :] if e[0] not in ("Log", "CallResult")]
    if not tail:
        return True
    if len(tail) != 1 or tail[0][0] != "VcsStep" or tail[0][1] != "add" or tail[0][2] != "return":
        return False
    elem = SStr(a.filepaths.seq.t[V.z3int(k) - 1])
    return v_eq(tail[0][3]["path"], elem)


c = REG.new("bumpver.vcs.commit")
c.param("cfg", k_config())
c.param("vcs_api", KVcsApi())
c.param("filepaths", KStrSet())
c.param("new_version", KStr())
c.param("commit_message", KStr())
c.param("tag_message", KStr())
c.loop(0, LoopSpec(carried={}, invariant=_add_loop_inv, name="C10+C12.vcs.commit.stages_exactly_the_configured_paths", props=("C10", "C12", "C08")))
c.ensures("C10+C08.vcs.commit.steps_only_if_enabled_in_documented_order_all_performed", _steps_clause(False))
for _E in (sp.CalledProcessError, OSError, SystemExit, AssertionError):
    c.exsures(_E, f"C10.vcs.commit.stops_at_first_failure_{_E.__name__}", _steps_clause(True))


def _vcs_commit_effects(a, st, outcome):
    st.emit("CommitPhase", outcome, a)


c.effects = _vcs_commit_effects




# --------------------------------------------------------------------------- get_vcs_api / get_tags / ls_tags
def _exec_events(cx):
    return [e for e in cx.new if e[0] in ("Exec", "Popen")]


c = REG.new("bumpver.vcs.VCSAPI.is_usable", inline=True)

c = REG.new("bumpver.vcs.VCSAPI.__init__", inline=True)


def _probe_only(cx):
    """Only the read-only 'is_usable' probes of the command tables are executed."""
    probes = [v["is_usable"].split() for v in vcs.VCS_SUBCOMMANDS_BY_NAME.values()]
    for e in _exec_events(cx):
        if e[0] != "Exec" or e[1] not in probes:
            return False
    return all(e[0] not in ("Vcs", "Write", "Hook") for e in cx.new)


c = REG.new("bumpver.vcs.get_vcs_api")
c.returns(KVcsApi())
c.ensures("C10.get_vcs_api.only_probes", lambda a, res, cx: _probe_only(cx))
c.exsures(OSError, "C10.get_vcs_api.oserror_only_probes", lambda a, exc, cx: _probe_only(cx))


def _tag_line_clause(a, res, cx):
    """Every output line that is a tag name (no blanks) is returned as that tag (C09)."""
    if not isinstance(res, SymMapped):
        return False
    ex, st = cx.ghost["__ex__"], cx.st
    tag = V.sstr("TAG_LINE")
    cx.ghost.setdefault("extra_inputs", {})["tag_line"] = tag
    pre = z3.And(strmodels.first_nonws(tag.t), strmodels.last_nonws(tag.t), z3.Not(z3.Contains(tag.t, z3.StringVal(" "))))
    base = st.fork()
    base.assume(pre)
    n0 = len(base.pc)
    cs = []
    for s1, kind, val in res.elementwise(ex, tag, base):
        extra = z3.And(*([pre] + s1.pc[n0:]))
        if kind == "keep":
            cs.append(z3.Implies(extra, V.to_z3_bool(v_eq(val, tag))))
        else:
            cs.append(z3.Not(extra))
    return z3.And(*cs)


def _ls_effects(kind):
    def eff(a, st, outcome):
        st.emit("VcsStep", kind, outcome, {})

    return eff


for _nm in ("ls_tags", "ls_tags_branch"):
    c = REG.new(f"bumpver.vcs.VCSAPI.{_nm}")
    c.param("self", KVcsApi())
    c.returns(KSeq("str"))
    c.effects = _ls_effects(_nm)
    c.ensures(f"C09.{_nm}.each_tag_line_is_returned_verbatim", _tag_line_clause)
    c.ensures(f"C09.{_nm}.parses_the_lines_of_the_listing_output_itself", _status_lines_are_output_lines)
    c.ensures(f"C09+C10.{_nm}.issues_only_that_listing_command", lambda a, res, cx, _nm=_nm: _vcs_names(cx) == [_nm])
    c.exsures(sp.CalledProcessError)
    c.exsures(OSError)
    

def _get_tags_clause(a, res, cx, raised=None):
    steps = [e for e in cx.new if e[0] == "VcsStep"]
    kinds = [e[1] for e in steps]
    probe_failed = any(e[0] == "ProbeFailed" for e in cx.new)
    cs = []
    # --no-fetch never fetches; a fetch happens at most once and before the listing
    nfetch = kinds.count("fetch")
    if nfetch > 1:
        return False
    if nfetch == 1:
        cs.append(v_truthy(a.fetch))
        if kinds[0] != "fetch":
            return False
    listing = [k for k in kinds if k in ("ls_tags", "ls_tags_branch")]
    if len(listing) > 1 or any(k not in ("fetch", "ls_tags", "ls_tags_branch") for k in kinds):
        return False
    is_branch = v_eq(a.scope, config.TagScope.BRANCH)
    if listing:
        cs.append(b_iff(listing[0] == "ls_tags_branch", is_branch))
    if raised is None and not listing:
        # no listing at all: an OSError (no VCS found, or raised by a step) was swallowed; the result is empty
        cs.append(isinstance(res, list) and res == [])
    if raised is None and listing:
        cs.append(b_implies(v_truthy(a.fetch), nfetch == 1))
    return b_and(*cs)


def _get_vcs_api_effects(a, st, outcome):
    if outcome != "return":
        st.emit("ProbeFailed")
    else:
        st.emit("Probe")


REG["bumpver.vcs.get_vcs_api"].effects = _get_vcs_api_effects

c = REG.new("bumpver.vcs.get_tags")
c.param("fetch", KBool())
c.param("scope", KEnum(list(config.TagScope)))
c.returns(KSeq("str"))
c.ensures("C09+C10.get_tags.fetch_only_if_requested_listing_by_scope", lambda a, res, cx: _get_tags_clause(a, res, cx))
c.exsures(sp.CalledProcessError, "C10.get_tags.failure_keeps_fetch_and_scope_rules", lambda a, exc, cx: _get_tags_clause(a, None, cx, raised=True))


def _get_tags_effects(a, st, outcome):
    st.emit("GetTags", a.fetch, a.scope, outcome)


c.effects = _get_tags_effects


# every clause above talks about the callee's own effect log: proved on the bodies, not assumed by callers
for _k, _c in list(REG.items()):
    if _k.startswith("bumpver.vcs.") or _k.startswith("bumpver.hooks."):
        for _cl in _c.ensures_:
            _cl.internal = True
        for _lst in _c.exsures_.values():
            for _cl in _lst:
                _cl.internal = True

# what callers may assume: the exit status of the aborting paths
_exit1 = lambda a, exc, cx: v_eq(exc.args[0], 1)
REG["bumpver.hooks.run"].exsures(SystemExit, "C10.hooks.run.exit_status_1", _exit1)
REG["bumpver.vcs.assert_not_dirty"].exsures(SystemExit, "C11.assert_not_dirty.exit_status_1", _exit1)
REG["bumpver.vcs.commit"].exsures(SystemExit, "C10.vcs.commit.exit_status_1", _exit1)


# --------------------------------------------------------------------------- C12: VCSAPI.__call__ builds argv verbatim
import shlex as _shlex  # noqa: E402
import string as _string  # noqa: E402

ALL_CMD_NAMES = tuple(sorted({k for t in vcs.VCS_SUBCOMMANDS_BY_NAME.values() for k in t}))


def spec_subst(token, kwargs):
    """The template token with every {key} replaced by the value, verbatim ('{{' and '}}' are braces)."""
    out = ""
    for lit, fld, spec, conv in _string.Formatter().parse(token):
        out = v_arith("+", out, lit)
        if fld is not None:
            out = v_arith("+", out, kwargs[fld])
    return out


def _call_clause(a, res_or_exc, cx):
    if not hasattr(a, "kwargs"):
        a.kwargs = dict(path=a.path, message=a.message, tag=a.tag, remote=a.remote)
    name = a.self.attrs["name"]
    cs = []
    execs = [e for e in cx.new if e[0] == "Exec"]
    if len(execs) != 1:
        return False
    argv = execs[0][1]
    for g1, vname in V.as_guards(name):
        table = vcs.VCS_SUBCOMMANDS_BY_NAME[vname]
        for g2, cmd in V.as_guards(a.cmd_name):
            if cmd not in table:
                continue
            tmpl = table[cmd]
            needed = {f for tok in _shlex.split(tmpl) for _, f, _, _ in _string.Formatter().parse(tok) if f}
            if not needed <= set(a.kwargs):
                continue
            expected = [spec_subst(tok, a.kwargs) for tok in _shlex.split(tmpl)]
            ok = isinstance(argv, list) and len(argv) == len(expected) and b_and(*[v_eq(x, y) for x, y in zip(argv, expected)])
            cs.append(b_implies(b_and(g1, g2), ok))
    return b_and(*cs)


def _call_body_contract():
    c = REG.add(Contract("bumpver.vcs.VCSAPI.__call__", variant="body"))
    c.param("self", KVcsApi())
    c.param("cmd_name", KEnum(ALL_CMD_NAMES))
    c.param("env", KConst(None))
    c.param("path", KStr())
    c.param("message", KStr())
    c.param("tag", KStr())
    c.param("remote", KStr())
    # from the property: every value reaches the VCS as (part of) a single argument; the argument
    # vector is the tokenised template with the placeholders substituted verbatim
    c.ensures("C12.VCSAPI.__call__.argv_is_tokenised_template_with_values_verbatim", lambda a, res, cx: _call_clause(a, res, cx))
    c.exsures(sp.CalledProcessError, "C12.VCSAPI.__call__.argv_verbatim_also_when_the_command_fails", lambda a, exc, cx: _call_clause(a, exc, cx))
    c.exsures(OSError, "C12.VCSAPI.__call__.argv_verbatim_also_when_exec_fails", lambda a, exc, cx: _call_clause(a, exc, cx))
    c.exsures(KeyError, "C12.VCSAPI.__call__.key_error_only_for_unknown_command_or_missing_value", lambda a, exc, cx: len([e for e in cx.new if e[0] == "Exec"]) == 0)
    return c


_call_body_contract()


def _call_replayer(contract, ob, model_py, z3model=None):
    """Run the real VCSAPI.__call__ with check_output captured; compare argv with the substituted template."""
    import bumpver.vcs as rv

    name = model_py["self"][2]["name"] if isinstance(model_py.get("self"), tuple) else "git"
    cmd = model_py.get("cmd_name")
    base = {k: model_py.get(k) or "x" for k in ("path", "message", "tag", "remote")}
    candidates = [base] + [dict(base, **{k: v}) for v in ("it's a bump", "a' --amend '", 'say "hi"', "two  blanks", "back\\slash") for k in ("message", "path")]
    for kw in candidates:
        tmpl = rv.VCS_SUBCOMMANDS_BY_NAME[name].get(cmd)
        if tmpl is None:
            continue
        captured = {}
        saved = rv.sp.check_output

        def fake(argv, **k):
            captured["argv"] = list(argv)
            return b""

        rv.sp.check_output = fake
        try:
            try:
                rv.VCSAPI(name)(cmd, **kw)
                got = captured.get("argv")
            except Exception as e:  # noqa
                got = f"raised {type(e).__name__}: {e}"
        finally:
            rv.sp.check_output = saved
        want = [tok.format(**kw) for tok in _shlex.split(tmpl)]
        if got != want:
            return dict(reproduced=True, inputs=dict(vcs=name, cmd_name=cmd, values=kw), observed=got, expected=want)
    return dict(reproduced=False, inputs=dict(vcs=name, cmd_name=cmd, values=base))


REG["bumpver.vcs.VCSAPI.__call__#body"].replayer = _call_replayer
