"""C16: the vendored comparison (setuptools_v65_version) is a total preorder that agrees
with PEP 440.  The sentinel classes' dunder methods and the _BaseVersion operators are
executed from their real source under Python's comparison protocol (pyvc.symexec.rich_compare).

Bound (the only one): release tuples have at most MAXREL components and local versions at most
MAXLOCAL segments; every number, letter and string is unbounded."""
import z3

from bumpver import setuptools_v65_version as sv

from pyvc.symexec import SObj, Val, Exc, ExcVal, fresh_name, Unsupported
from .common import *  # noqa
from .common import REG

MAXREL = 8
MAXLOCAL = 2
LETTERS = ("a", "b", "rc")


# --------------------------------------------------------------------------- bounded int tuples
class IntTup:
    """A tuple of ints of symbolic length n <= MAXREL: elems[:n]. Python tuple comparison."""

    def __init__(self, n, elems):
        self.n, self.elems = n, list(elems)

    def __repr__(self):
        return f"IntTup({self.n}, {self.elems})"

    def _ne(self, i):
        return V.z3int(self.n) > i  # position i exists

    def __pyvc_decode__(self, model, dec):
        n = dec(self.n, model)
        return tuple(dec(e, model) for e in self.elems[:n])

    def __pyvc_eq__(self, other):
        if not isinstance(other, IntTup):
            return False
        cs = [V.z3int(self.n) == V.z3int(other.n)]
        for i in range(MAXREL):
            cs.append(z3.Implies(self._ne(i), V.z3int(self.elems[i]) == V.z3int(other.elems[i])))
        return z3.And(*cs)

    def __pyvc_cmp__(self, op, other):
        if not isinstance(other, IntTup):
            raise TypeError("IntTup compare")
        strict_lt = op in ("<", "<=")
        # first index where both exist and differ decides; otherwise the shorter is smaller
        n1, n2 = V.z3int(self.n), V.z3int(other.n)
        if op in ("<", ">"):
            tail = (n1 < n2) if op == "<" else (n1 > n2)
        else:
            tail = (n1 <= n2) if op == "<=" else (n1 >= n2)
        res = tail
        for i in reversed(range(MAXREL)):
            a, b = V.z3int(self.elems[i]), V.z3int(other.elems[i])
            both = z3.And(n1 > i, n2 > i)
            dec = (a < b) if strict_lt else (a > b)
            res = z3.If(both, z3.If(a == b, res, dec), res)
        return res


def fresh_inttup(name, st, stripped=False, minlen=0):
    n = z3.Int(name + ".n")
    elems = [z3.Int(f"{name}[{i}]") for i in range(MAXREL)]
    st.assume(z3.And(n >= minlen, n <= MAXREL))
    for e in elems:
        st.assume(e >= 0)
    t = IntTup(SInt(n), [SInt(e) for e in elems])
    if stripped:
        st.assume(no_trailing_zero(t))
    return t


def no_trailing_zero(t):
    n = V.z3int(t.n)
    return z3.And(*[z3.Implies(n == i + 1, V.z3int(t.elems[i]) != 0) for i in range(MAXREL)])


def strip_rel(st, rel, name):
    """The release without trailing zeros (fresh tuple constrained by its definition)."""
    m = z3.Int(name + ".m")
    n = V.z3int(rel.n)
    st.assume(z3.And(m >= 0, m <= n))
    # every component from m on is zero, component m-1 (if any) is not
    for i in range(MAXREL):
        e = V.z3int(rel.elems[i])
        st.assume(z3.Implies(z3.And(i >= m, n > i), e == 0))
        st.assume(z3.Implies(m == i + 1, e != 0))
    return IntTup(SInt(m), rel.elems)


# --------------------------------------------------------------------------- version records
class VRec:
    """Parsed PEP 440 version: epoch, release, pre (letter, n), post n, dev n, local segments."""

    def __init__(self, name, st):
        self.name = name
        self.epoch = z3.Int(name + ".epoch")
        st.assume(self.epoch >= 0)
        self.rel = fresh_inttup(name + ".release", st, minlen=1)
        self.has_pre = z3.Bool(name + ".has_pre")
        self.pre_l = z3.Int(name + ".pre_letter#")
        st.assume(z3.And(self.pre_l >= 0, self.pre_l < 3))
        self.pre_n = z3.Int(name + ".pre_n")
        self.has_post = z3.Bool(name + ".has_post")
        self.post_n = z3.Int(name + ".post_n")
        self.has_dev = z3.Bool(name + ".has_dev")
        self.dev_n = z3.Int(name + ".dev_n")
        for x in (self.pre_n, self.post_n, self.dev_n):
            st.assume(x >= 0)
        self.nlocal = z3.Int(name + ".nlocal")  # -1: no local version
        st.assume(z3.And(self.nlocal >= -1, self.nlocal <= MAXLOCAL, self.nlocal != 0))
        self.loc_isint = [z3.Bool(f"{name}.local[{i}].isint") for i in range(MAXLOCAL)]
        self.loc_int = [z3.Int(f"{name}.local[{i}].int") for i in range(MAXLOCAL)]
        self.loc_str = [z3.String(f"{name}.local[{i}].str") for i in range(MAXLOCAL)]
        for x in self.loc_int:
            st.assume(x >= 0)

    # what Version.__init__ hands to _cmpkey
    def pre_value(self):
        return SGuard([(self.has_pre, (SEnum(self.pre_l, LETTERS), SInt(self.pre_n))), (z3.Not(self.has_pre), None)])

    def post_value(self):
        return SGuard([(self.has_post, ("post", SInt(self.post_n))), (z3.Not(self.has_post), None)])

    def dev_value(self):
        return SGuard([(self.has_dev, ("dev", SInt(self.dev_n))), (z3.Not(self.has_dev), None)])

    def local_value(self):
        alts = [(self.nlocal == -1, None)]
        for k in range(1, MAXLOCAL + 1):
            items = tuple(SGuard([(self.loc_isint[i], SInt(self.loc_int[i])), (z3.Not(self.loc_isint[i]), SStr(self.loc_str[i]))]) for i in range(k))
            alts.append((self.nlocal == k, items))
        return SGuard(alts)


def spec_key(st, r, name):
    """The comparison key as documented in _cmpkey's comments (proved equal to what the body returns)."""
    Inf, NInf = sv.Infinity, sv.NegativeInfinity
    rel = strip_rel(st, r.rel, name + ".stripped")
    pre = SGuard(
        [
            (z3.And(z3.Not(r.has_pre), z3.Not(r.has_post), r.has_dev), NInf),
            (z3.And(z3.Not(r.has_pre), z3.Not(z3.And(z3.Not(r.has_post), r.has_dev))), Inf),
            (r.has_pre, (SEnum(r.pre_l, LETTERS), SInt(r.pre_n))),
        ]
    )
    post = SGuard([(z3.Not(r.has_post), NInf), (r.has_post, ("post", SInt(r.post_n)))])
    dev = SGuard([(z3.Not(r.has_dev), Inf), (r.has_dev, ("dev", SInt(r.dev_n)))])
    lalts = [(r.nlocal == -1, NInf)]
    for k in range(1, MAXLOCAL + 1):
        items = tuple(SGuard([(r.loc_isint[i], (SInt(r.loc_int[i]), "")), (z3.Not(r.loc_isint[i]), (NInf, SStr(r.loc_str[i])))]) for i in range(k))
        lalts.append((r.nlocal == k, items))
    return (SInt(r.epoch), rel, pre, post, dev, SGuard(lalts))


# --------------------------------------------------------------------------- PEP 440 ordering, written from the PEP's prose
def _padded_lt(a, b):
    """Release segments compare component-wise after padding the shorter one with zeros."""
    res = z3.BoolVal(False)
    for i in reversed(range(MAXREL)):
        x = z3.If(V.z3int(a.n) > i, V.z3int(a.elems[i]), z3.IntVal(0))
        y = z3.If(V.z3int(b.n) > i, V.z3int(b.elems[i]), z3.IntVal(0))
        res = z3.If(x == y, res, x < y)
    return res


def _padded_eq(a, b):
    cs = []
    for i in range(MAXREL):
        x = z3.If(V.z3int(a.n) > i, V.z3int(a.elems[i]), z3.IntVal(0))
        y = z3.If(V.z3int(b.n) > i, V.z3int(b.elems[i]), z3.IntVal(0))
        cs.append(x == y)
    return z3.And(*cs)


def _phase(r):
    """0: developmental release of the release itself (X.Y.devN); 1: pre-release (aN, bN, rcN and
    their .post/.dev); 2: final release and its post-releases."""
    return z3.If(z3.And(z3.Not(r.has_pre), z3.Not(r.has_post), r.has_dev), 0, z3.If(r.has_pre, 1, 2))


def _lex(pairs):
    """Lexicographic 'less than' over [(lt_i, eq_i)]."""
    res = z3.BoolVal(False)
    for lt, eq in reversed(pairs):
        res = z3.If(eq, res, lt)
    return res


def _local_items_lt_eq(a, b, i):
    # numeric segments compare numerically, alphanumeric ones lexically, numeric > alphanumeric
    ai, bi = a.loc_isint[i], b.loc_isint[i]
    lt = z3.If(z3.And(ai, bi), a.loc_int[i] < b.loc_int[i], z3.If(z3.And(z3.Not(ai), z3.Not(bi)), a.loc_str[i] < b.loc_str[i], z3.And(z3.Not(ai), bi)))
    eq = z3.If(z3.And(ai, bi), a.loc_int[i] == b.loc_int[i], z3.If(z3.And(z3.Not(ai), z3.Not(bi)), a.loc_str[i] == b.loc_str[i], z3.BoolVal(False)))
    return lt, eq


def _local_lt(a, b):
    # no local version sorts before any local version; otherwise segment by segment, a proper prefix first
    res = a.nlocal < b.nlocal  # (all compared segments equal): fewer segments first; -1 (none) first
    for i in reversed(range(MAXLOCAL)):
        lt, eq = _local_items_lt_eq(a, b, i)
        both = z3.And(a.nlocal > i, b.nlocal > i)
        res = z3.If(both, z3.If(eq, res, lt), res)
    return z3.If(z3.Or(a.nlocal == -1, b.nlocal == -1), z3.And(a.nlocal == -1, b.nlocal != -1), res)


def _local_eq(a, b):
    cs = [a.nlocal == b.nlocal]
    for i in range(MAXLOCAL):
        _, eq = _local_items_lt_eq(a, b, i)
        cs.append(z3.Implies(a.nlocal > i, eq))
    return z3.And(*cs)


def pep440_eq(a, b):
    return z3.And(
        a.epoch == b.epoch,
        _padded_eq(a.rel, b.rel),
        a.has_pre == b.has_pre,
        z3.Implies(a.has_pre, z3.And(a.pre_l == b.pre_l, a.pre_n == b.pre_n)),
        a.has_post == b.has_post,
        z3.Implies(a.has_post, a.post_n == b.post_n),
        a.has_dev == b.has_dev,
        z3.Implies(a.has_dev, a.dev_n == b.dev_n),
        _local_eq(a, b),
    )


def pep440_lt(a, b):
    """PEP 440 'Summary of permitted suffixes and relative ordering': epoch, then release, then
    .devN < aN < bN < rcN < (no suffix) < .postN; within a pre- or post-release its own .devM sorts
    before it and its .postM after it; local versions last."""
    ph_a, ph_b = _phase(a), _phase(b)
    # inside one phase
    dev_lt = z3.If(z3.And(a.has_dev, b.has_dev), a.dev_n < b.dev_n, z3.And(a.has_dev, z3.Not(b.has_dev)))  # X.devM < X
    dev_eq = z3.And(a.has_dev == b.has_dev, z3.Implies(a.has_dev, a.dev_n == b.dev_n))
    post_lt = z3.If(z3.And(a.has_post, b.has_post), a.post_n < b.post_n, z3.And(z3.Not(a.has_post), b.has_post))  # X < X.postN
    post_eq = z3.And(a.has_post == b.has_post, z3.Implies(a.has_post, a.post_n == b.post_n))
    pre_lt = z3.If(a.pre_l == b.pre_l, a.pre_n < b.pre_n, a.pre_l < b.pre_l)  # a < b < rc, then the number
    pre_eq = z3.And(a.pre_l == b.pre_l, a.pre_n == b.pre_n)
    in_phase0 = a.dev_n < b.dev_n
    in_phase0_eq = a.dev_n == b.dev_n
    # a post-release's own dev release sorts before that post-release but after the release without it
    in_phase12 = _lex([(post_lt, post_eq), (dev_lt, dev_eq)])
    in_phase1 = _lex([(pre_lt, pre_eq), (post_lt, post_eq), (dev_lt, dev_eq)])
    same_phase_lt = z3.If(ph_a == 0, in_phase0, z3.If(ph_a == 1, in_phase1, in_phase12))
    same_phase_eq = z3.If(ph_a == 0, in_phase0_eq, z3.If(ph_a == 1, z3.And(pre_eq, post_eq, dev_eq), z3.And(post_eq, dev_eq)))
    suffix_lt = z3.If(ph_a == ph_b, same_phase_lt, ph_a < ph_b)
    suffix_eq = z3.And(ph_a == ph_b, same_phase_eq)
    return _lex([(a.epoch < b.epoch, a.epoch == b.epoch), (_padded_lt(a.rel, b.rel), _padded_eq(a.rel, b.rel)), (suffix_lt, suffix_eq), (_local_lt(a, b), _local_eq(a, b))])


# --------------------------------------------------------------------------- _cmpkey body
def _cmpkey_setup(a, st):
    pass


class KVRecArgs(Kind):
    """The six arguments of _cmpkey derived from one symbolic version record."""


def _cmpkey_contract(nrel):
    c = REG.add(Contract("bumpver.setuptools_v65_version._cmpkey", variant=f"release_len={nrel}"))
    c.tier = "quick" if nrel <= 3 else "thorough"
    c.cost = 5 * nrel

    def setup(a, st):
        pass

    c.param("epoch", KInt(ge=0))
    c.param("release", KTuple(*[KInt(ge=0) for _ in range(nrel)]))
    c.param("pre", KEnumOrTuple("pre"))
    c.param("post", KEnumOrTuple("post"))
    c.param("dev", KEnumOrTuple("dev"))
    c.param("local", KLocal())

    def shape(a, res, cx):
        Inf, NInf = sv.Infinity, sv.NegativeInfinity
        if not (isinstance(res, tuple) and len(res) == 6):
            return False
        epoch, rel, pre, post, dev, local = res
        cs = [v_eq(epoch, a.epoch)]
        # _release: the release without its trailing zeros
        m = len(rel)
        if m > nrel:
            return False
        cs.append(b_and(*[v_eq(rel[i], a.release[i]) for i in range(m)]))
        cs.append(b_and(*[v_eq(a.release[i], 0) for i in range(m, nrel)]))
        if m > 0:
            cs.append(v_ne(a.release[m - 1], 0))
        none = lambda x: v_is_none(x)
        cs.append(_same(pre, V.v_ite(b_and(none(a.pre), none(a.post), b_not(none(a.dev))), NInf, V.v_ite(none(a.pre), Inf, a.pre))))
        cs.append(_same(post, V.v_ite(none(a.post), NInf, a.post)))
        cs.append(_same(dev, V.v_ite(none(a.dev), Inf, a.dev)))
        cs.append(_same_local(local, a.local))
        return b_and(*cs)

    c.ensures("C16._cmpkey.key_has_the_documented_shape", shape)
    return c


def _same(x, y):
    """Structural identity of key components (sentinels by identity, tuples by value)."""
    alts = []
    for g1, a in V.as_guards(x):
        for g2, b in V.as_guards(y):
            if a is None or b is None or isinstance(a, (sv.InfinityType, sv.NegativeInfinityType)) or isinstance(b, (sv.InfinityType, sv.NegativeInfinityType)):
                r = a is b
            else:
                r = v_eq(a, b)
            alts.append(b_implies(b_and(g1, g2), r))
    return b_and(*alts)


def _same_local(local, arg):
    NInf = sv.NegativeInfinity
    alts = []
    for g1, l in V.as_guards(local):
        for g2, x in V.as_guards(arg):
            if x is None:
                r = l is NInf
            elif l is NInf:
                r = False
            else:
                if not isinstance(l, tuple) or len(l) != len(x):
                    r = False
                else:
                    r = b_and(*[_same_local_item(li, xi) for li, xi in zip(l, x)])
            alts.append(b_implies(b_and(g1, g2), r))
    return b_and(*alts)


def _same_local_item(li, xi):
    NInf = sv.NegativeInfinity
    alts = []
    for g1, l in V.as_guards(li):
        for g2, x in V.as_guards(xi):
            if isinstance(x, (SInt, int)):
                r = isinstance(l, tuple) and len(l) == 2 and b_and(v_eq(l[0], x), l[1] == "") if isinstance(l, tuple) and isinstance(l[1], str) else False
            else:
                r = isinstance(l, tuple) and len(l) == 2 and l[0] is NInf and v_eq(l[1], x)
            alts.append(b_implies(b_and(g1, g2), r))
    return b_and(*alts)


class KEnumOrTuple(Kind):
    def __init__(self, what):
        self.what = what

    def fresh(self, name, assumptions):
        has = z3.Bool(name + ".present")
        n = z3.Int(name + ".n")
        assumptions.append(n >= 0)
        if self.what == "pre":
            li = z3.Int(name + ".letter#")
            assumptions.append(z3.And(li >= 0, li < 3))
            val = (SEnum(li, LETTERS), SInt(n))
        else:
            val = (self.what, SInt(n))
        return SGuard([(has, val), (z3.Not(has), None)])


class KLocal(Kind):
    def fresh(self, name, assumptions):
        k = z3.Int(name + ".nlocal")
        assumptions.append(z3.And(k >= -1, k <= MAXLOCAL, k != 0))
        isint = [z3.Bool(f"{name}[{i}].isint") for i in range(MAXLOCAL)]
        ints = [z3.Int(f"{name}[{i}].int") for i in range(MAXLOCAL)]
        strs = [z3.String(f"{name}[{i}].str") for i in range(MAXLOCAL)]
        alts = [(k == -1, None)]
        for j in range(1, MAXLOCAL + 1):
            alts.append((k == j, tuple(SGuard([(isint[i], SInt(ints[i])), (z3.Not(isint[i]), SStr(strs[i]))]) for i in range(j))))
        return SGuard(alts)


for _n in range(1, 6):
    _cmpkey_contract(_n)


# --------------------------------------------------------------------------- the comparison operators of _BaseVersion
def _two_versions_setup(a, st):
    r1, r2 = VRec("v1", st), VRec("v2", st)
    st.ghost["r1"], st.ghost["r2"] = r1, r2
    a.self.attrs["_key"] = spec_key(st, r1, "k1")
    a.other.attrs["_key"] = spec_key(st, r2, "k2")
    st.ghost.setdefault("extra_inputs", {})


class KVersionObj(Kind):
    def fresh(self, name, assumptions):
        return SObj(sv.Version, {})


_OPS = {
    "__lt__": lambda lt, eq, gt: lt,
    "__le__": lambda lt, eq, gt: z3.Or(lt, eq),
    "__eq__": lambda lt, eq, gt: eq,
    "__ge__": lambda lt, eq, gt: z3.Or(gt, eq),
    "__gt__": lambda lt, eq, gt: gt,
    "__ne__": lambda lt, eq, gt: z3.Not(eq),
}

for _op, _sel in _OPS.items():
    c = REG.new(f"bumpver.setuptools_v65_version._BaseVersion.{_op}")
    c.param("self", KVersionObj())
    c.param("other", KVersionObj())
    c.setup = _two_versions_setup
    c.cost = 30
    c.ensures(
        f"C16._BaseVersion.{_op}.agrees_with_pep440_ordering",
        lambda a, res, cx, _sel=_sel: b_iff(v_truthy(res), _sel(pep440_lt(cx.ghost["r1"], cx.ghost["r2"]), pep440_eq(cx.ghost["r1"], cx.ghost["r2"]), pep440_lt(cx.ghost["r2"], cx.ghost["r1"]))),
    )


# legacy versions (epoch -1) sort below every PEP 440 version, and among themselves by their part tuples
def _legacy_vs_pep_setup(a, st):
    r2 = VRec("v2", st)
    n = z3.Int("legacy.nparts")
    st.assume(z3.And(n >= 0, n <= 4))
    parts = SGuard([(n == k, tuple(SStr(z3.String(f"legacy.part[{i}]")) for i in range(k))) for k in range(0, 5)])
    a.self.attrs["_key"] = (-1, parts)
    a.other.attrs["_key"] = spec_key(st, r2, "k2")


c = REG.add(Contract("bumpver.setuptools_v65_version._BaseVersion.__lt__", variant="legacy_vs_pep440"))
c.param("self", KVersionObj())
c.param("other", KVersionObj())
c.setup = _legacy_vs_pep_setup
c.ensures("C16._BaseVersion.__lt__.every_legacy_version_is_below_every_pep440_version", lambda a, res, cx: v_truthy(res))
c = REG.add(Contract("bumpver.setuptools_v65_version._BaseVersion.__gt__", variant="legacy_vs_pep440"))
c.param("self", KVersionObj())
c.param("other", KVersionObj())
c.setup = _legacy_vs_pep_setup
c.ensures("C16._BaseVersion.__gt__.no_legacy_version_is_above_a_pep440_version", lambda a, res, cx: b_not(v_truthy(res)))


# --------------------------------------------------------------------------- replay: records -> version strings -> real comparison
def rec_inputs(r):
    d = dict(epoch=SInt(r.epoch), release_len=r.rel.n, release=list(r.rel.elems), has_pre=SBool(r.has_pre), pre_letter=SEnum(r.pre_l, LETTERS), pre_n=SInt(r.pre_n), has_post=SBool(r.has_post), post_n=SInt(r.post_n), has_dev=SBool(r.has_dev), dev_n=SInt(r.dev_n), nlocal=SInt(r.nlocal))
    for i in range(MAXLOCAL):
        d[f"local{i}"] = (SBool(r.loc_isint[i]), SInt(r.loc_int[i]), SStr(r.loc_str[i]))
    return d


def rec_to_string(d):
    s = ""
    if d["epoch"]:
        s += f"{d['epoch']}!"
    s += ".".join(str(x) for x in d["release"][: d["release_len"]])
    if d["has_pre"]:
        s += f"{d['pre_letter']}{d['pre_n']}"
    if d["has_post"]:
        s += f".post{d['post_n']}"
    if d["has_dev"]:
        s += f".dev{d['dev_n']}"
    if d["nlocal"] > 0:
        segs = []
        for i in range(d["nlocal"]):
            isint, iv, sv_ = d[f"local{i}"]
            seg = str(iv) if isint else "".join(ch for ch in sv_.lower() if ch.isalnum() and ch.isascii() and not ch.isdigit()) or "x"
            segs.append(seg)
        s += "+" + ".".join(segs)
    return s


def _cmp_replayer(opname):
    def fn(contract, ob, model_py, z3model=None):
        import operator
        import packaging.version as ref
        from bumpver import version as bv

        if "rec1" not in model_py:
            return dict(note="no records in model")
        s1, s2 = rec_to_string(model_py["rec1"]), rec_to_string(model_py["rec2"])
        op = getattr(operator, opname.strip("_"))
        try:
            got = op(bv.parse_version(s1), bv.parse_version(s2))
        except Exception as e:  # noqa
            got = f"raised {type(e).__name__}: {e}"
        want = op(ref.Version(s1), ref.Version(s2))
        return dict(reproduced=(got != want), inputs=dict(left=s1, right=s2, operator=opname), observed=got, expected_by_packaging_reference=want)

    return fn


def _two_versions_setup2(a, st):
    _two_versions_setup(a, st)
    st.ghost["extra_inputs"] = dict(rec1=rec_inputs(st.ghost["r1"]), rec2=rec_inputs(st.ghost["r2"]))


for _op in _OPS:
    _c = REG[f"bumpver.setuptools_v65_version._BaseVersion.{_op}"]
    _c.setup = _two_versions_setup2
    _c.replayer = _cmp_replayer(_op)


# --------------------------------------------------------------------------- _parse_letter_version: spelling normalisation (C15/C16)
CANON = {"a": "a", "alpha": "a", "b": "b", "beta": "b", "c": "rc", "rc": "rc", "pre": "rc", "preview": "rc", "post": "post", "rev": "post", "r": "post", "dev": "dev"}


def _case_variants(w):
    return sorted({w, w.upper(), w.capitalize(), w[:-1] + w[-1].upper()})


_LETTERS = [v for w in CANON for v in _case_variants(w)]

c = REG.new("bumpver.setuptools_v65_version._parse_letter_version")
c.param("letter", KEnum(_LETTERS))
c.param("number", KOpt(KStr()))
c.requires("number_is_digits", lambda a: b_or(v_is_none(a.number), z3.InRe(V.z3str(V.unwrap_opt(a.number)), z3.Plus(z3.Range("0", "9")))))
c.ensures(
    "C16+C15._parse_letter_version.every_spelling_and_case_gives_the_canonical_letter_and_number",
    lambda a, res, cx: b_and(
        isinstance(res, tuple) and len(res) == 2,
        v_eq(res[0], V.v_map(lambda l: CANON[l.lower()], a.letter)) if isinstance(res, tuple) else False,
        v_eq(res[1], v_ite(v_is_none(a.number), 0, SInt(z3.StrToInt(V.z3str(V.unwrap_opt(a.number)))))) if isinstance(res, tuple) else False,
    ),
)
