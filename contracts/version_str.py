"""C15: the PEP440 value printed by test/show is str(Version): its canonical text.

`version.to_pep440(v)` is `str(parse_version(v))`; for a PEP 440 version that is the vendored
`setuptools_v65_version.Version.__str__`. The contract states the canonical form from PEP 440's
"Normalization" section: [N!]N(.N)*[{a|b|rc}N][.postN][.devN][+local]; a segment is printed iff it is
present, with its number - including the number 0.

Bound: release tuples of length 1..MAXREL_STR (one contract variant per length); every number is
unbounded (decimal numerals by A-dec: z3's int.to.str)."""
import z3

from bumpver import setuptools_v65_version as sv

from pyvc.symexec import SObj
from .common import *  # noqa
from .common import REG
from .version_cmp import LETTERS, KEnumOrTuple

MAXREL_STR = 5
_Q = "bumpver.setuptools_v65_version.Version."


class KVersion(Kind):
    """A Version object as Version.__init__ leaves it: `_version` is the parsed record (local: absent or one alphanumeric segment)."""

    def __init__(self, nrel):
        self.nrel = nrel

    def fresh(self, name, assumptions):
        f = {}
        f["epoch"] = KInt(ge=0).fresh(name + ".epoch", assumptions)
        f["release"] = KTuple(*[KInt(ge=0) for _ in range(self.nrel)]).fresh(name + ".release", assumptions)
        f["pre"] = KEnumOrTuple("pre").fresh(name + ".pre", assumptions)
        f["post"] = KEnumOrTuple("post").fresh(name + ".post", assumptions)
        f["dev"] = KEnumOrTuple("dev").fresh(name + ".dev", assumptions)
        has_local = z3.Bool(name + ".local.present")
        seg = z3.String(name + ".local[0]")
        assumptions.append(z3.InRe(seg, z3.Plus(z3.Union(z3.Range("a", "z"), z3.Range("0", "9")))))
        assumptions.append(z3.Not(z3.InRe(seg, z3.Plus(z3.Range("0", "9")))))  # an all-digit segment is stored as an int (other variant of the record)
        f["local"] = SGuard([(has_local, (SStr(seg),)), (z3.Not(has_local), None)])
        return SObj(sv.Version, {"_version": SRec(sv._Version, f)})


def _dec(n):
    return z3.IntToStr(V.z3int(n))


def _opt(g, fn):
    """Text of an optional segment: fn(value) if present else ''."""
    t = z3.StringVal("")
    for cond, val in V.as_guards(g):
        if val is None:
            continue
        t = z3.If(V.to_z3_bool(cond), fn(val), t)
    return t


def _letter(l):
    if isinstance(l, str):
        return z3.StringVal(l)
    t = z3.StringVal(LETTERS[0])
    for i, s in enumerate(LETTERS):
        t = z3.If(l.idx == i, z3.StringVal(s), t)
    return t


def canonical(ver):
    r = ver.attrs["_version"].fields
    parts = [z3.If(V.z3int(r["epoch"]) != 0, z3.Concat(_dec(r["epoch"]), z3.StringVal("!")), z3.StringVal(""))]
    rel = r["release"]
    parts.append(_dec(rel[0]))
    for x in rel[1:]:
        parts += [z3.StringVal("."), _dec(x)]
    parts.append(_opt(r["pre"], lambda p: z3.Concat(_letter(p[0]), _dec(p[1]))))
    parts.append(_opt(r["post"], lambda p: z3.Concat(z3.StringVal(".post"), _dec(p[1]))))
    parts.append(_opt(r["dev"], lambda p: z3.Concat(z3.StringVal(".dev"), _dec(p[1]))))
    parts.append(_opt(r["local"], lambda p: z3.Concat(z3.StringVal("+"), V.z3str(p[0]))))
    return z3.Concat(*parts)


for _n in range(1, MAXREL_STR + 1):
    c = REG.add(Contract(_Q + "__str__", variant=f"release_len={_n}"))
    c.tier = "quick" if _n <= 3 else "thorough"
    c.cost = _n
    c.inline_callees = {_Q + p for p in ("epoch", "release", "pre", "post", "dev", "local")}
    c.param("self", KVersion(_n))
    c.returns(KStr())
    # from the property: "equals the PEP440 value printed by test/show up to PEP 440 normalisation" - the printed
    # value is the canonical text of the parsed version, every present segment with its number
    c.ensures("C15.Version.__str__.canonical_text_every_present_segment_with_its_number", lambda a, res, cx: V.z3str(res) == canonical(a.self))


def _str_replayer(contract, ob, model_py, z3model=None):
    """Build the real Version object of the counterexample and compare str() with the canonical text."""
    import bumpver.setuptools_v65_version as rsv

    obj = model_py.get("self")
    if not (isinstance(obj, tuple) and len(obj) == 3):
        return dict(note="no object in model")
    rec = obj[2]["_version"]
    v = object.__new__(rsv.Version)
    v._version = rec
    want = (f"{rec.epoch}!" if rec.epoch != 0 else "") + ".".join(str(x) for x in rec.release)
    if rec.pre is not None:
        want += f"{rec.pre[0]}{rec.pre[1]}"
    if rec.post is not None:
        want += f".post{rec.post[1]}"
    if rec.dev is not None:
        want += f".dev{rec.dev[1]}"
    if rec.local is not None:
        want += "+" + ".".join(str(x) for x in rec.local)
    try:
        got = str(v)
    except Exception as e:  # noqa
        got = f"raised {type(e).__name__}: {e}"
    return dict(reproduced=got != want, inputs=dict(_version=repr(rec)), observed=got, expected=want)


for _n in range(1, MAXREL_STR + 1):
    REG[_Q + f"__str__#release_len={_n}"].replayer = _str_replayer
