#!/usr/bin/env python3
"""Run the repository's pinned test-suite and compare with /root/.vp/BASELINE.json stable_pass."""
import json, re, subprocess, sys, xml.etree.ElementTree as ET, tempfile, os
b = json.load(open('/root/.vp/BASELINE.json'))
with tempfile.TemporaryDirectory() as d:
    x = os.path.join(d, 'j.xml')
    subprocess.run(['/venv/bin/python','-m','pytest','-ra','-q','-p','no:cacheprovider','--timeout=900','--continue-on-collection-errors','--junitxml='+x], cwd='/repo', capture_output=True)
    root = ET.parse(x).getroot()
passed=set()
for tc in root.iter('testcase'):
    if not any(ch.tag in ('failure','error','skipped') for ch in tc):
        passed.add(f"{tc.get('classname')}::{tc.get('name')}")
norm=lambda n: re.sub(r'v\d{6}\.1001-alpha-\d{6}\.1001a0','vDATE',n)
passed=set(map(norm,passed))
want=set(map(norm,b['stable_pass']))
missing=want-passed
print('passed',len(passed),'baseline',len(want),'missing',len(missing))
for m in sorted(missing)[:20]: print('  MISSING',m)
subprocess.run(['git','checkout','README.md'],cwd='/repo')
sys.exit(1 if missing else 0)
