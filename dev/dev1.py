import sys, time
sys.path.insert(0,'/verif')
from pyvc.symexec import Source
from pyvc.contracts import verify_contract
from pyvc.models import Models
src=Source()
import contracts
from contracts.common import REG
for qn in sys.argv[1:]:
    t=time.time()
    r=verify_contract(src, REG, Models, REG[qn], 10000)
    print(qn, 'error=',r['error'], 'wall=%.2f'%r['wall'], r['info'])
    agg={}
    for x in r['results']:
        agg.setdefault(x['name'],[]).append(x)
    for n,xs in agg.items():
        vs=[x['verdict'] for x in xs]
        print('  ',n, {v:vs.count(v) for v in set(vs)}, 'time=%.2f'%sum(x['time'] for x in xs))
        for x in xs:
            if x['verdict']!='unsat':
                print('      ',x['verdict'],x['detail'],x['model']); break
