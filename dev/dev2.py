import sys, time
sys.path.insert(0,'/verif')
from pyvc.symexec import Source
from pyvc.contracts import collect_obligations
from pyvc.models import Models
src=Source()
import contracts.v2version, contracts.lexid_
from contracts.common import REG
qn=sys.argv[1]
t=time.time()
obs,info,outs=collect_obligations(src, REG, Models, REG[qn])
print('symexec %.1fs'%(time.time()-t), info['paths'], info['path_kinds'], info['stats'], len(obs))
