import sys, time
sys.path.insert(0,'/verif')
from pyvc.symexec import Source
from pyvc.contracts import collect_obligations
from pyvc.models import Models
src=Source()
import contracts
from contracts.common import REG
qn=sys.argv[1]
obs,info,outs=collect_obligations(src, REG, Models, REG[qn])
for o in outs:
    print(o.kind, o.value, [e[:3] for e in o.st.log if e[0]!='Log'])
    print('    pc', o.st.pc[:12])
