import sys
sys.path.insert(0,'/verif')
from pyvc.symexec import Source, Executor
from pyvc import symexec
from pyvc.contracts import collect_obligations
from pyvc.models import Models
import contracts
from contracts.common import REG
orig=Executor.exec_stmt
def traced(self, s, st):
    r=orig(self, s, st)
    print('  '*st.depth, type(s).__name__, getattr(s,'lineno',0), '->', [(o.kind, type(o.value).__name__ if o.kind=='raise' else '') for o in r])
    return r
Executor.exec_stmt=traced
src=Source()
obs,info,outs=collect_obligations(src, REG, Models, REG[sys.argv[1]])
