import sys, time
sys.path.insert(0,'/verif')
from pyvc.symexec import Source
from pyvc.contracts import collect_obligations, discharge
from pyvc.models import Models
from pyvc import smt
import contracts, z3
from contracts.common import REG
src=Source()
obs,info,outs=collect_obligations(src, REG, Models, REG[sys.argv[1]])
for o in outs:
    v=smt.check(o.st.pc, 5000, want_model=False)
    print(o.kind, o.value if o.kind=='raise' else '', 'pc feasible?', v[0], len(o.st.pc))
for ob in obs:
    r=discharge(ob, 5000)
    print(ob.name, ob.kind, r['verdict'], r['backend'])
