"""Semantically neutral edits of functions under contract: none may produce a refuted obligation."""
import subprocess, shutil, os, sys
SRC='/tmp/clean/src/bumpver/'
edits=[
 ('hooks.py', "    if proc.returncode != 0:", "    if proc.returncode:", ['bumpver.hooks.run']),
 ('v1version.py', '''    return version.V1CalendarInfo(
        vnfo.year,
        vnfo.quarter,
        vnfo.month,
        vnfo.dom,
        vnfo.doy,
        vnfo.iso_week,
        vnfo.us_week,
    )''', '''    return version.V1CalendarInfo(
        year=vnfo.year,
        quarter=vnfo.quarter,
        month=vnfo.month,
        doy=vnfo.doy,
        dom=vnfo.dom,
        iso_week=vnfo.iso_week,
        us_week=vnfo.us_week,
    )''', ['bumpver.v1version._ver_to_cal_info']),
 ('config.py', 'val = val.lower() in ("yes", "true", "1", "on")', 'val = val.lower() in ("1", "on", "true", "yes")', ['bumpver.config._parse_cfg']),
 ('cli.py', '''    if version.parse_version(new_version) <= version.parse_version(old_version):''', '''    new_key = version.parse_version(new_version)
    old_key = version.parse_version(old_version)
    if not (new_key > old_key):''', ['bumpver.cli._is_valid_version']),
 ('v2rewrite.py', 'found_patterns', 'matched_patterns', ['bumpver.v2rewrite.rewrite_lines#body']),
 ('vcs.py', '''    if not allow_dirty and dirty_files:
        sys.exit(1)
''', '''    if dirty_files and not allow_dirty:
        sys.exit(1)
''', ['bumpver.vcs.assert_not_dirty']),
 ('v2version.py', '''    if major:
        cur_vinfo = cur_vinfo._replace(major=cur_vinfo.major + 1)''', '''    if major:
        next_major = cur_vinfo.major + 1
        cur_vinfo = cur_vinfo._replace(major=next_major)''', ['bumpver.v2version._incr_numeric']),
 ('parse.py', '''        has_overlap = (
            span.lineno == needle.lineno
            # needle starts before (or at) span end
            and needle.start <= span.end
            # needle ends after (or at) span start
            and needle.end >= span.start
        )
        if has_overlap:
            return True''', '''        if span.lineno != needle.lineno:
            continue
        if needle.start <= span.end and span.start <= needle.end:
            return True''', ['bumpver.parse._has_overlap']),
]
for fn, a, b, contracts in edits:
    shutil.rmtree('/tmp/mutx', ignore_errors=True); os.makedirs('/tmp/mutx'); shutil.copytree('/tmp/clean/src','/tmp/mutx/src')
    base=open(SRC+fn).read()
    if a not in base:
        print(fn, 'EDIT DOES NOT APPLY'); continue
    open('/tmp/mutx/src/bumpver/'+fn,'w').write(base.replace(a,b))
    try:
        r=subprocess.run(['/verif/.venv/bin/python','/verif/dev/dev1.py']+contracts,env={'BUMPVER_SRC':'/tmp/mutx/src','PATH':'/usr/bin:/bin'},capture_output=True,text=True,cwd='/verif',timeout=900)
        bad=[l.strip()[:160] for l in r.stdout.splitlines() if ("'sat'" in l or "'unknown'" in l) and not l.strip().startswith('bumpver') or ('error= ' in l and 'error= None' not in l)]
    except subprocess.TimeoutExpired:
        bad=['TIMEOUT']
    print(fn, contracts, '->', bad[:3] or 'all obligations still discharged', flush=True)
shutil.rmtree('/tmp/mutx', ignore_errors=True)
