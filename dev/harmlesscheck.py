#!/usr/bin/env python3
"""dev/harmlesscheck.py PROP [CHECKPROP...]: campaign 3, change 2 (a behaviour-preserving refactoring by an independent
sub-agent): confirm demo2 passes before and after and the test-suite is unchanged, then run ./check against /repo with
the patch applied (and undo it). Expected: exit 0. Stored under /verif/harmless/PROP-1/."""
import json, os, shutil, subprocess, sys, time
prop = sys.argv[1]
checks = sys.argv[2:] or [prop]
out, wt = f"/tmp/seed_{prop}_out", f"/tmp/seed_{prop}"
patch, demo = f"{out}/patch2.diff", f"{out}/demo2.py"
env = dict(os.environ, PYTHONPATH=f"{wt}/src")
def run(cmd, **kw):
    return subprocess.run(cmd, capture_output=True, text=True, **kw)
subprocess.run(["git", "-C", wt, "checkout", "-q", "--", "."])
r0 = run(["/venv/bin/python", demo], env=env, cwd="/tmp")
a = run(["git", "-C", wt, "apply", patch]); assert a.returncode == 0, a.stderr
r1 = run(["/venv/bin/python", demo], env=env, cwd="/tmp")
t = run(["/venv/bin/python", "-m", "pytest", "-q", "-p", "no:cacheprovider", "--timeout=900", "--continue-on-collection-errors"], env=env, cwd=wt)
tail = t.stdout.strip().splitlines()[-1] if t.stdout.strip() else ""
subprocess.run(["git", "-C", wt, "checkout", "-q", "--", "."])
ok = r0.returncode == 0 and r1.returncode == 0 and "500 passed" in tail and "25 failed" in tail
print(f"demo2 before: exit {r0.returncode}; after: exit {r1.returncode}; tests: {tail}", "confirmed" if ok else "NOT CONFIRMED")
assert run(["git", "-C", "/repo", "status", "--porcelain"]).stdout.strip() == "", "/repo not clean"
a = run(["git", "-C", "/repo", "apply", patch]); assert a.returncode == 0, a.stderr
results = {}
try:
    for c in checks:
        t0 = time.time()
        r = run(["./check", c], cwd="/verif", env=dict(os.environ, VERIF_EVIDENCE_DIR="/tmp/seed_evidence"))
        lines = [l[:400] for l in r.stdout.splitlines() if any(w in l for w in ("VIOLATION", "OK property", "UNDECIDED", "CHECKER-ERROR"))]
        results[c] = dict(exit=r.returncode, lines=lines[:8], wall=round(time.time() - t0, 1))
        print(prop, c, "exit", r.returncode, "|", " | ".join(lines[:4])[:600], flush=True)
finally:
    subprocess.run(["git", "-C", "/repo", "checkout", "-q", "--", "."])
if ok:
    d = f"/verif/harmless/{prop}-1"
    os.makedirs(d, exist_ok=True)
    shutil.copy(patch, f"{d}/patch.diff"); shutil.copy(demo, f"{d}/demo.py")
    notes = open(f"{out}/notes.md").read() if os.path.exists(f"{out}/notes.md") else ""
    open(f"{d}/notes.md", "w").write(notes)
    json.dump(dict(property=prop, kind="behaviour-preserving refactoring (independent sub-agent)", confirmed=dict(demo_exit_before=r0.returncode, demo_exit_after=r1.returncode, test_suite=tail),
                   ran=[f"git -C /repo apply /verif/harmless/{prop}-1/patch.diff; ./check {c}; git -C /repo checkout -- ." for c in checks], check_results=results), open(f"{d}/meta.json", "w"), indent=1)
