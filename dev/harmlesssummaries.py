#!/usr/bin/env python3
"""One-line descriptions of the behaviour-preserving refactorings (campaign 3), merged into harmless/*/meta.json."""
import json, os
S = {
 "C01-1": "cli._is_valid_version: pattern parse extracted into a helper using is_valid, De Morgan on the brace test, keys bound to locals, early return for `unique`",
 "C02-1": "v2version._parse_segtree / _format_segment / _format_segment_tree: guard clauses, hoisted appends, all(...) instead of a zero counter",
 "C03-1": "parse._has_overlap as any(...), _iter_for_pattern with early continue, iter_matches appends before yielding, normalize_pattern with early return",
 "C04-1": "rewrite.detect_line_sep as a loop, rewrite_lines prefix/suffix intermediates, shared _read_content helper for iter_rewritten and diff",
 "C05-1": "v2version._is_cal_gt returns on the first differing pair, _iter_reset_field_items as two loops over one iterator",
 "C06-1": "iter_path_patterns_items guard clause, rewrite_lines early return / reordered computation, write loop body extracted into _write_file_data (v1+v2)",
 "C07-1": "v2patterns._replace_pattern_parts: two re.sub calls with zero-width look-behind instead of the subn loop; _compile_pattern_re filters the escape table up front",
 "C08-1": "vcs.commit with guard-clause early returns, cli._update_cfg_from_vcs with named intermediates",
 "C09-1": "_parse_version_tags as an explicit loop, get_latest_vcs_version_tag early return, _update_cfg_from_vcs intermediates",
 "C10-1": "vcs.commit: `if not cfg.commit: return`, plain cfg.tag / early `if not cfg.push: return`, old_version local",
 "C11-1": "VCSAPI.status: git line parsing extracted into a helper, comprehension as a loop with continue; assert_not_dirty nested ifs and early return",
 "C12-1": "cli._select_msg_template helper, VCSAPI.__call__ comprehension as loop, guard clauses in VCSAPI.commit / tag / vcs.commit",
 "C13-1": "v2rewrite._patterns_with_change as sum(generator), diff collects a list and joins once, _print_diff merges two except clauses",
 "C14-1": "_is_cal_gt as comprehensions, cal_info builds the record by keyword arguments, is_valid_week_pattern with early returns",
 "C15-1": "v2patterns._convert_to_pep440 restructured (helper, merged guards, early return, sorted / re.sub)",
 "C16-1": "_cmpkey: trailing-zero stripping as an index loop, reordered _pre chain, conditional expressions for _post/_dev",
 "C17-1": "_incr_numeric: pad-then-successor moved into a _next_bid helper, the two INC _replace calls merged; parse default via fvals.get",
 "C18-1": "_parse_cfg / _parse_cfg_file_patterns use extracted helpers _first_section and _parse_cfg_bool, comprehension pair as a loop",
 "C19-1": "_pick_config_filepath: candidate tuple, _has_bumpver_section helper with read_bytes, next(generator, default)",
 "C20-1": "v1version.incr: if/elif for the date source, one `changes` dict applied by a single _replace, early return",
}
for sid, text in S.items():
    p = f"/verif/harmless/{sid}/meta.json"
    if not os.path.exists(p):
        print("missing", sid); continue
    m = json.load(open(p)); m["summary"] = text
    json.dump(m, open(p, "w"), indent=1)
print(len(S))
