TB = "Trusted base: pyvc's AST->VC translation and value/builtin models (axioms A-dec, A-str, A-io, A-proc, A-log listed in each evidence file), z3 5.1 / cvc5 1.0.3, contracts marked trusted (listed per evidence file under assumptions). "
CLAIMED = {
    "C05": dict(
        category="proof",
        technique="contract-based deductive verification: VCs generated from the real source by symbolic execution, discharged by z3/cvc5",
        text="Every README bump rule is a named postcondition on the real _ver_to_cal_info, _is_cal_gt, _iter_reset_field_items (loop invariant with ghost definitions), _reset_rollover_fields and _incr_numeric; each is discharged for all records, all patterns (symbolic field sequence) and all flag combinations.",
        note=TB + "_parse_pattern_fields (string search) is only bounded-checked; cal_info is decided by enumeration of datetime.date (C14).",
    ),
    "C17": dict(
        category="proof",
        technique="contract-based deductive verification per digit count (linear integer arithmetic over the (n, v) view of digit strings), z3",
        text="lexid.next_id (real source of the pinned dependency) verified against successor/expansion, integer and lexical growth and no-digit-lost postconditions for every value of every digit count 1..40; the BUILD lines of _incr_numeric carry the growth to the version record.",
        note=TB + "Bounded in digit count only (<= 40; quick tier <= 12); A-dec: lexical order of equal-length digit strings is numeric order (conformance-tested).",
    ),
}
CLAIMED["C11"] = dict(
    category="proof",
    technique="contract-based deductive verification: element-wise VC over every porcelain status code and a symbolic path (string theory, z3/cvc5); abort rules as postconditions over the effect log",
    text="VCSAPI.status is proved, for every XY status code git can print and every path, to report exactly the paths that are dirty or carry a pattern, under their own name; assert_not_dirty is proved to exit 1 (before any write) iff the tree is dirty and not allowed, or a pattern file is dirty.",
    note=TB + "A-git: porcelain v1 line format 'XY PATH' (rename/copy lines excluded); paths are edge-clean (git quotes others). set intersection is the uninterpreted A-set predicate used identically by code model and spec.",
)
CLAIMED["C14"] = dict(
    category="proof",
    technique="complete enumeration of datetime.date through the real cal_info (X) plus contract-based VCs for the week-pattern guard and the future guard of incr (z3)",
    text="Monotonicity of every coherent year x sub-part pairing is decided by enumerating every consecutive day pair of the whole datetime.date type and, rendered through the real format_version and comparison key, every day 2001..2099; the rejection guard and the 'never backwards' guard of incr are postconditions discharged for all inputs.",
    note=TB + "X is evaluation, not deduction (complete for the stated finite domain). strftime is evaluated, never axiomatised.",
)
_PENDING = "check not built yet in this round (work in progress, see DESIGN.md section 2)"
NOT_APPLICABLE = {p: _PENDING for p in ["C01","C02","C03","C04","C06","C07","C08","C09","C10","C12","C13","C15","C16","C18","C19","C20"]}
NOTES = "Contract-based deductive verification of the real Python source (pyvc). See DESIGN.md."
