TB = "Trusted base: pyvc's AST->VC translation and value/builtin models (axioms A-dec, A-str, A-io, A-proc, A-log listed in each evidence file), z3 5.1 / cvc5 1.0.3, contracts marked trusted (listed per evidence file under assumptions). "
CLAIMED = {
    "C05": dict(
        category="proof",
        technique="contract-based deductive verification: VCs generated from the real source by symbolic execution, discharged by z3/cvc5",
        text="Every README bump rule is a named postcondition on the real _ver_to_cal_info, _is_cal_gt, _iter_reset_field_items (loop invariant with ghost definitions), _reset_rollover_fields and _incr_numeric; each is discharged for all records, all patterns (symbolic field sequence) and all flag combinations.",
        note=TB + "_parse_pattern_fields (string search) is only bounded-checked; cal_info is decided by enumeration of datetime.date (C14).",
    ),
    "C17": dict(
        category="proof",
        technique="contract-based deductive verification per digit count (linear integer arithmetic over the (n, v) view of digit strings), z3",
        text="lexid.next_id (real source of the pinned dependency) verified against successor/expansion, integer and lexical growth and no-digit-lost postconditions for every value of every digit count 1..40; the BUILD lines of _incr_numeric carry the growth to the version record.",
        note=TB + "Bounded in digit count only (<= 40; quick tier <= 12); A-dec: lexical order of equal-length digit strings is numeric order (conformance-tested).",
    ),
}
CLAIMED["C11"] = dict(
    category="proof",
    technique="contract-based deductive verification: element-wise VC over every porcelain status code and a symbolic path (string theory, z3/cvc5); abort rules as postconditions over the effect log",
    text="VCSAPI.status is proved, for every XY status code git can print and every path, to report exactly the paths that are dirty or carry a pattern, under their own name; assert_not_dirty is proved to exit 1 (before any write) iff the tree is dirty and not allowed, or a pattern file is dirty.",
    note=TB + "A-git: porcelain v1 line format 'XY PATH' (rename/copy lines excluded); paths are edge-clean (git quotes others). set intersection is the uninterpreted A-set predicate used identically by code model and spec.",
)
CLAIMED["C14"] = dict(
    category="proof",
    technique="complete enumeration of datetime.date through the real cal_info (X) plus contract-based VCs for the week-pattern guard and the future guard of incr (z3)",
    text="Monotonicity of every coherent year x sub-part pairing is decided by enumerating every consecutive day pair of the whole datetime.date type and, rendered through the real format_version and comparison key, every day 2001..2099; the rejection guard and the 'never backwards' guard of incr are postconditions discharged for all inputs.",
    note=TB + "X is evaluation, not deduction (complete for the stated finite domain). strftime is evaluated, never axiomatised.",
)
CLAIMED["C01"] = dict(
    category="proof",
    technique="contract-based deductive verification: modular VCs over the real cli.test, cli.update, _is_valid_version, incr_dispatch, parse_version_info with an effect log; z3/cvc5",
    text="Exit 0 of `test`/`update` is proved to be reachable only through the gate _is_valid_version, whose postcondition (accepted in full by the pattern, key strictly greater than the start version, unique when required) is proved from its body; parse_version_info is proved to return only for a full match; every other outcome is a non-zero exit with no event past the gate (no write, no VCS step).",
    note=TB + "A-re: the regex engine is the uninterpreted prefix-match-length function; acceptance is defined from it. The comparison key is a total preorder (C16). click turns escaping exceptions into exit status 1 (A-click-exit).",
)
CLAIMED["C06"] = dict(
    category="proof",
    technique="contract-based deductive verification with an effect log: loop invariants over the symbolic list of configured files (z3)",
    text="rewrite_files (v1 and v2) is proved to validate every configured file (existence, every pattern matched) before the first write: NoPatternMatch/missing-file outcomes have no Write event; _update is proved to run dirty check, rewrite, commit phase in that order, each only after the previous one succeeded, and to exit 1 on NoPatternMatch without any commit/tag/push.",
    note=TB + "A-io (file model), rewrite_lines as an uninterpreted function of (patterns, version, lines) with a 'all patterns matched' predicate. I/O errors of the write itself are outside the property.",
)
CLAIMED["C09"] = dict(
    category="proof",
    technique="contract-based deductive verification with quantified specifications over the tag listing (z3, E-matching), element-wise VCs for the filters",
    text="get_latest_vcs_version_tag is proved to return a greatest (w.r.t. the version key) tag of the listing in scope among those accepted in full by the pattern, or None when there is none; _update_cfg_from_vcs is proved to implement the default/global/branch rule; is_valid is proved total (only an uncompilable pattern can raise) and equal to the acceptance predicate; the gate proves uniqueness against the global listing.",
    note=TB + "A-git: the tag listing is a function of the scope within one run; A-sort: list.sort(key, reverse) puts a key-maximal element first (needs the total preorder of C16). Uniqueness under --ignore-vcs-tag with default/global scope is the documented meaning of that flag ('ignore VCS tag invariant') and is not claimed.",
)
CLAIMED["C10"] = dict(
    category="proof",
    technique="contract-based deductive verification over an effect log of VCS/hook/file events, all flag and config combinations symbolic (z3)",
    text="vcs.commit is proved to perform pre-hook, stage, commit, post-hook, tag, push in that order, each iff enabled (and commit on), stopping at the first failure, for git and hg command sets alike; hooks.run is proved to pass BUMPVER_OLD_VERSION/NEW_VERSION and exit 1 on failure; _parse_vcs_options rejects contradictions without effects; update is proved to issue nothing past the gate under --dry, to fetch only if asked, and to stop with a non-zero exit on every failure.",
    note=TB + "A-proc: subprocess primitives either return or raise after the attempt; Popen pipes feed only log text. The loop over the configured paths is cut by an invariant (one add_path per path).",
)
_PENDING = "check not built yet in this round (work in progress, see DESIGN.md section 2)"
NOT_APPLICABLE = {p: _PENDING for p in ["C02","C03","C04","C07","C08","C12","C13","C15","C16","C18","C19","C20"]}
NOTES = "Contract-based deductive verification of the real Python source (pyvc). See DESIGN.md."
