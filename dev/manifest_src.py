TB = "Trusted base: pyvc's AST->VC translation and value/builtin models (axioms A-dec, A-str, A-io, A-proc, A-log listed in each evidence file), z3 5.1 / cvc5 1.0.3, contracts marked trusted (listed per evidence file under assumptions). "
CLAIMED = {
    "C05": dict(
        category="proof",
        technique="contract-based deductive verification: VCs generated from the real source by symbolic execution, discharged by z3/cvc5",
        text="Every README bump rule is a named postcondition on the real _ver_to_cal_info, _is_cal_gt, _iter_reset_field_items (loop invariant with ghost definitions), _reset_rollover_fields and _incr_numeric; each is discharged for all records, all patterns (symbolic field sequence) and all flag combinations.",
        note=TB + "_parse_pattern_fields (string search) is only bounded-checked; cal_info is decided by enumeration of datetime.date (C14).",
    ),
    "C17": dict(
        category="proof",
        technique="contract-based deductive verification per digit count (linear integer arithmetic over the (n, v) view of digit strings), z3",
        text="lexid.next_id (real source of the pinned dependency) verified against successor/expansion, integer and lexical growth and no-digit-lost postconditions for every value of every digit count 1..40; the BUILD lines of _incr_numeric carry the growth to the version record.",
        note=TB + "Bounded in digit count only (<= 40; quick tier <= 12); A-dec: lexical order of equal-length digit strings is numeric order (conformance-tested).",
    ),
}
CLAIMED["C11"] = dict(
    category="proof",
    technique="contract-based deductive verification: element-wise VC over every porcelain status code and a symbolic path (string theory, z3/cvc5); abort rules as postconditions over the effect log",
    text="VCSAPI.status is proved, for every XY status code git can print and every path, to report exactly the paths that are dirty or carry a pattern, under their own name; assert_not_dirty is proved to exit 1 (before any write) iff the tree is dirty and not allowed, or a pattern file is dirty.",
    note=TB + "A-git: porcelain v1 line format 'XY PATH', rename/copy lines 'XY ORIG -> PATH' (clauses of their own, with a proved lemma about the first ' -> '); names are edge-clean and printed unquoted (git quotes names with blanks; those are outside the parser). set intersection is the uninterpreted A-set predicate used identically by code model and spec. Bounded layer next to the proof: the property's state x file x allow-dirty matrix on real temporary git repositories with five config spellings of the pattern file (what git prints, what the config loader makes of a spelling).",
)
CLAIMED["C14"] = dict(
    category="proof",
    technique="complete enumeration of datetime.date through the real cal_info (X) plus contract-based VCs for the week-pattern guard and the future guard of incr (z3)",
    text="Monotonicity of every coherent year x sub-part pairing is decided by enumerating every consecutive day pair of the whole datetime.date type and, rendered through the real format_version and comparison key, every day 2001..2099; the rejection guard and the 'never backwards' guard of incr are postconditions discharged for all inputs.",
    note=TB + "X is evaluation, not deduction (complete for the stated finite domain). strftime is evaluated, never axiomatised.",
)
CLAIMED["C01"] = dict(
    category="proof",
    technique="contract-based deductive verification: modular VCs over the real cli.test, cli.update, _is_valid_version, incr_dispatch, parse_version_info with an effect log; z3/cvc5",
    text="Exit 0 of `test`/`update` is proved to be reachable only through the gate _is_valid_version, whose postcondition (accepted in full by the pattern, key strictly greater than the start version, unique when required) is proved from its body; parse_version_info is proved to return only for a full match; every other outcome is a non-zero exit with no event past the gate (no write, no VCS step).",
    note=TB + "A-re: the regex engine is the uninterpreted prefix-match-length function; acceptance is defined from it. The comparison key is a total preorder (C16). click turns escaping exceptions into exit status 1 (A-click-exit).",
)
CLAIMED["C06"] = dict(
    category="proof",
    technique="contract-based deductive verification with an effect log: loop invariants over the symbolic list of configured files (z3)",
    text="rewrite_files (v1 and v2) is proved to validate every configured file (existence, every pattern matched) before the first write: NoPatternMatch/missing-file outcomes have no Write event; _update is proved to run dirty check, rewrite, commit phase in that order, each only after the previous one succeeded, and to exit 1 on NoPatternMatch without any commit/tag/push.",
    note=TB + "A-io (file model), rewrite_lines as an uninterpreted function of (patterns, version, lines) with a 'all patterns matched' predicate. I/O errors of the write itself are outside the property.",
)
CLAIMED["C09"] = dict(
    category="proof",
    technique="contract-based deductive verification with quantified specifications over the tag listing (z3, E-matching), element-wise VCs for the filters",
    text="get_latest_vcs_version_tag is proved to return a greatest (w.r.t. the version key) tag of the listing in scope among those accepted in full by the pattern, or None when there is none; _update_cfg_from_vcs is proved to implement the default/global/branch rule; is_valid is proved total (only an uncompilable pattern can raise) and equal to the acceptance predicate; the gate proves uniqueness against the global listing.",
    note=TB + "A-git: the tag listing is a function of the scope within one run; A-sort: list.sort(key, reverse) puts a key-maximal element first (needs the total preorder of C16). Uniqueness under --ignore-vcs-tag with default/global scope is the documented meaning of that flag ('ignore VCS tag invariant') and is not claimed.",
)
CLAIMED["C10"] = dict(
    category="proof",
    technique="contract-based deductive verification over an effect log of VCS/hook/file events, all flag and config combinations symbolic (z3)",
    text="vcs.commit is proved to perform pre-hook, stage, commit, post-hook, tag, push in that order, each iff enabled (and commit on), stopping at the first failure, for git and hg command sets alike; hooks.run is proved to pass BUMPVER_OLD_VERSION/NEW_VERSION and exit 1 on failure; _parse_vcs_options rejects contradictions without effects; update is proved to issue nothing past the gate under --dry, to fetch only if asked, and to stop with a non-zero exit on every failure.",
    note=TB + "A-proc: subprocess primitives either return or raise after the attempt; Popen pipes feed only log text. The loop over the configured paths is cut by an invariant (one add_path per path).",
)
CLAIMED["C03"] = dict(
    category="other",
    technique="contract-based deductive verification of rewrite_lines/rewrite_files, parse._has_overlap and the generator parse._iter_for_pattern (array-modelled lines, quantified match facts, loop invariants, regex search as an uninterpreted function; z3) plus a bounded generated-project shadow for the end-to-end statement",
    text="Proved: rewrite_lines (v1 and v2) replaces, on a line with one or with two occurrences of different patterns, every matched span by the rendering of the new version through the normalised pattern and keeps the rest of the line; returns only if every pattern matched; rewrite_files writes exactly the configured files. Bounded (never counted as proved): placeholder expansion, rendering and the config file's own line, exercised end to end on generated projects through the real CLI.",
    note=TB + "iter_matches is used through its contract (matches within their line, disjoint per line); lines with three or more occurrences and {version}/{pep440_version} semantics are covered only by the bounded shadow.",
)
CLAIMED["C04"] = dict(
    category="proof",
    technique="contract-based deductive verification (z3): separator detection, split/join with the same separator, frame of rewrite_lines, call-site obligations on every open()",
    text="detect_line_sep is proved to pick CRLF before CR before LF; rfd_from_content to split by exactly that separator; rewrite_files to write, for each configured file and no other, the lines re-joined with the same separator through open(..., newline='', encoding='utf-8'); rewrite_lines to leave unmatched lines, the text outside matched spans, the number of lines and the caller's list untouched.",
    note=TB + "A-io: with newline='' and an explicit encoding read/write are byte-transparent (their presence at each call site is an obligation); A-str: sep.join(s.split(sep)) == s.",
)
CLAIMED["C12"] = dict(
    category="proof",
    technique="contract-based deductive verification of VCSAPI.__call__ for every command template of both tables with symbolic values (z3), exhaustive check of the OLD/NEW shorthand, bounded shadow with quotes in messages",
    text="The argv handed to the VCS is proved to be the tokenised template with each placeholder replaced by the value verbatim, for every template of the git and hg tables and all string values, also on failing commands; VCSAPI.commit/tag/add/push_tag pass message, tag name and path unchanged; update renders the message templates with the six documented keys.",
    note=TB + "A-proc: shlex.split of the concrete templates is evaluated by the real shlex; str.format inserts values verbatim (A-str).",
)
CLAIMED["C13"] = dict(
    category="proof",
    technique="relational contract-based verification: diff and rewrite_files are proved to compute the same per-file data from the same arguments (z3); unified-diff construction is an assumed library contract",
    text="update --dry is proved to issue no write, hook or mutating VCS event; v1/v2 diff are proved to hand to diff_lines, for every configured file, exactly the RewrittenFileData that rewrite_files writes (same patterns, same parsed new version, same content, same separator) and to succeed only if every file exists and every pattern matches, so a dry exit 0 implies the real rewrite phase succeeds.",
    note=TB + "A-lib: difflib.unified_diff(a, b) applied to a yields b (not proved); A-sort: sorted() returns a permutation.",
)
CLAIMED["C16"] = dict(
    category="proof",
    technique="contract-based deductive verification: the six _BaseVersion operators and the sentinel dunder methods executed under Python's comparison protocol against a declarative PEP 440 ordering; spec lemmas (strict weak order) by z3",
    text="For all version records, every comparison operator of the vendored module is proved equal to a PEP 440 ordering written from the PEP's prose; that ordering is proved irreflexive, transitive and trichotomous, which gives the total preorder; _cmpkey is proved to build the documented key; legacy versions are proved to sort below every PEP 440 version.",
    note=TB + "Bounded only in tuple length: release <= 8 components, local version <= 2 segments. String -> record parsing (the version regex) is checked against packaging.version on seeded spellings (bounded).",
)
CLAIMED["C19"] = dict(
    category="proof",
    technique="contract-based deductive verification of _pick_config_filepath, write_content and cli.init (z3) plus complete enumeration of all 8192 project layouts through the real init/config code",
    text="Config file selection is proved to prefer a file that holds a bumpver section with a current_version, then any existing candidate, else bumpver.toml; write_content to append (mode 'at', utf-8) to that file only; init to refuse (exit 1) when configured and to write nothing under --dry. Every one of the 8192 layouts of the quantifier is run through the real code: the appended text is read back by bumpver itself from the same file.",
    note=TB + "X is evaluation, complete for the stated layouts ('unrelated content' is one representative text per format).",
)
CLAIMED["C02"] = dict(
    category="other",
    technique="contract-based deductive verification of every part's format function against its regex language (z3/cvc5) + complete enumeration of the calendar value domains under real regex priority semantics + bounded grammar round trips",
    text="Proved (P): for every part, the real format function renders every value of the field's range into the language of the part's regex read from the current table (numeric parts for all integers, A-dec); parse_version_info returns only for a full match. Exhausted (X): every calendar part x every value in the image of cal_info over all dates 1000..9999, every tag, under re.match's priority semantics, decoded back to the same value. Bounded (B, never counted as proved): the composition (pattern compiler, optional-group rendering, read back, re-render) on generated grammar patterns.",
    note=TB + "Known finding KF-C02-week-53 (week 53 rendered, not recognised; the repository's tests pin it) is reported, its witness class excluded from the four affected obligations. The pattern compiler and segment renderer (unbounded string surgery, regex priority) are not proved.",
)
CLAIMED["C07"] = dict(
    category="other",
    technique="contract on the generator parse._iter_for_pattern (a line yields exactly when the compiled regex finds a non-empty match, reported truthfully; loop invariant, z3) + complete enumeration of the escape table through the real compilers (regex parse tree must consist of literals; every character of re's SPECIAL_CHARS must be mapped to its escaped form) + bounded end-to-end search; known findings reported by witness class",
    text="Exhausted (X): for all 67 admissible characters embedded in text, all ordered pairs and 29 multi-character regex constructs (quantifier braces, groups, lazy quantifiers, inline flags), for the v1 and the v2 compiler, the produced regex parses to exactly the literal characters; every character that re treats as special is compiled to its escaped form; the facts that make the sequential str.replace loop a character-wise map are checked on the real table (together: the all-lengths argument). Bounded (B): generated literals alone and wrapped around a real part find exactly the lines containing them.",
    note="No deductive obligation is claimed on the pattern compilers: they are unbounded str.replace/re.subn surgery outside the solvers' reach (DESIGN 2/C07); X is complete only for the stated alphabet and lengths. Known findings KF-C07-inner-anchor and KF-C07-backslash-v2 are reported; any failure outside these two witness classes is a violation.",
)
CLAIMED["C08"] = dict(
    category="other",
    technique="history induction lemma over the step contract (z3) whose clauses are obligations proved on the real update/_update/vcs.commit/rewrite_files code, plus bounded real-git histories",
    text="The step contract of a successful update (start version per scope, gate: accepted and strictly greater, every configured file rewritten before anything is staged, exactly the configured paths staged, commit then tag named by the new version) is proved clause by clause on the real code (clauses tagged C08); the invariant-preservation lemma gives agreement after any finite history. What real git stores (one commit, only those files, tag on it) is outside any contract on bumpver's code: bounded evidence from seeded histories on real temporary repositories.",
    note=TB + "A-git for everything git does with the commands; histories with branch switches are not explored by the bounded layer.",
)
CLAIMED["C15"] = dict(
    category="other",
    technique="exhaustive tag-table check, contract-based verification of the spelling normaliser (_parse_letter_version) and of the printed value (Version.__str__ against the canonical PEP 440 text, z3 with int.to.str), bounded grammar check of the derived search pattern",
    text="Exhausted: every tag of the regex alternatives and of the CLI has its PEP 440 short form and the vendored normaliser agrees. Proved: every spelling and letter case of a pre/post/dev marker normalises to the canonical letter and number; str(Version) - the PEP440 value printed by test/show - is the canonical text with every present segment and its number (release tuples of length 1..3 quick, ..5 thorough). Bounded: for generated PEP 440-friendly patterns the text written for {pep440_version} is a PEP 440 version equal to {version}, normalised as the README states, accepted in full by the derived pattern, and equal to the PEP440 line.",
    note="_convert_to_pep440 (string surgery) is not proved. Known finding KF-C15-trailing-zero-release is reported; other disagreements are violations.",
)
CLAIMED["C18"] = dict(
    category="other",
    technique="contract-based verification of bumpver's own reader glue (_parse_cfg, _parse_toml, _set_raw_config_defaults: section precedence, boolean spellings, defaults; call-site precondition that _ConfigParser is built in the default dialect of RawConfigParser; z3) over an abstract view of the library parsers, plus a bounded differential check of the real readers (configparser / toml) on sibling projects that differ only in syntax",
    text="Proved: _parse_toml hands on the settings of [tool.bumpver], else [bumpver], else [pycalver] unchanged with commit/tag/push taken as the TOML values or the defaults False/None/None; _parse_cfg hands on the strings of [pycalver] else [bumpver] and reads commit/tag/push as true exactly for the spellings 1/yes/true/on (case-insensitive), else the same defaults; both validate and default the returned dictionary through _set_raw_config_defaults, which is proved to change nothing but a missing file_patterns entry; _parse_config returns only if tag and push have commit, takes unset tag/push as False and the strings unquoted; _parse_current_version_default_pattern returns the first current_version line inside a [bumpver]/[tool.bumpver]/[pycalver] section (loop invariant over a ghost in-section function) with the version pattern put in. Bounded (never counted as proved): seeded abstract configurations are rendered in six syntaxes (setup.cfg [bumpver]/[pycalver], pyproject.toml, bumpver.toml, .bumpver.toml, pycalver.toml) with every accepted boolean spelling, quoting style, 0..4 files x 1..3 patterns, glob entries, scopes and missing optional keys; config.init must return the same effective settings, always including the config file's own current_version line.",
    note=TB + "The library parsers (configparser, toml) are assumed to deliver sections as dictionaries (A-lib; executed for real in the bounded matrix). _parse_cfg_file_patterns, _compile_file_patterns and the glob expansion are not under contract: the statement as a whole is claimed only at the bounded level (category other).",
)
CLAIMED["C20"] = dict(
    category="other",
    technique="complete enumeration of the legacy calendar parts over every date 2000..2099 through the real code, contract-based proof of the engine dispatch agreement and of the legacy bump (v1version.incr body, _ver_to_cal_info, _is_cal_gt; z3), bounded bump chains",
    text="Exhausted: every listed legacy calendar part x every date 2000-01-01..2099-12-31 renders to a text that its compiled pattern matches in full and reads back to the same field; the derived {pep440_pycalver}/{pep440_version} search patterns accept the rendered PEP 440 form. Proved: the legacy incr keeps the calendar parts under --pin-date, takes them from the date unless the version lies in the future, strictly increases the build id, applies --major/--minor/--patch/--tag as documented and returns the rendering of that record or None; _ver_to_cal_info copies each calendar field; _is_cal_gt is the lexicographic order on common fields; incr_dispatch uses the legacy engine for every pattern with a documented legacy part and only for patterns the gate and the config loader also treat as legacy. Bounded: chains of bumps on the documented composites are accepted, re-render to themselves and strictly increase ({pycalver} also as plain strings).",
    note=TB + "{iso_week}/{us_week} are not among the parts the property lists (the legacy parser never reads them back).",
)
_PENDING = "check not built yet in this round (work in progress, see DESIGN.md section 2)"
NOT_APPLICABLE = {}
NOTES = "Contract-based deductive verification of the real Python source (pyvc). See DESIGN.md."
