TB = "Trusted base: pyvc's AST->VC translation and value/builtin models (axioms A-dec, A-str, A-io, A-proc, A-log listed in each evidence file), z3 5.1 / cvc5 1.0.3, contracts marked trusted (listed per evidence file under assumptions). "
CLAIMED = {
    "C05": dict(
        category="proof",
        technique="contract-based deductive verification: VCs generated from the real source by symbolic execution, discharged by z3/cvc5",
        text="Every README bump rule is a named postcondition on the real _ver_to_cal_info, _is_cal_gt, _iter_reset_field_items (loop invariant with ghost definitions), _reset_rollover_fields and _incr_numeric; each is discharged for all records, all patterns (symbolic field sequence) and all flag combinations.",
        note=TB + "_parse_pattern_fields (string search) is only bounded-checked; cal_info is decided by enumeration of datetime.date (C14).",
    ),
    "C17": dict(
        category="proof",
        technique="contract-based deductive verification per digit count (linear integer arithmetic over the (n, v) view of digit strings), z3",
        text="lexid.next_id (real source of the pinned dependency) verified against successor/expansion, integer and lexical growth and no-digit-lost postconditions for every value of every digit count 1..40; the BUILD lines of _incr_numeric carry the growth to the version record.",
        note=TB + "Bounded in digit count only (<= 40; quick tier <= 12); A-dec: lexical order of equal-length digit strings is numeric order (conformance-tested).",
    ),
}
_PENDING = "check not built yet in this round (work in progress, see DESIGN.md section 2)"
NOT_APPLICABLE = {p: _PENDING for p in ["C01","C02","C03","C04","C06","C07","C08","C09","C10","C11","C12","C13","C14","C15","C16","C18","C19","C20"]}
NOTES = "Contract-based deductive verification of the real Python source (pyvc). See DESIGN.md."
