#!/usr/bin/env python3
"""Record, for every contract, the number of paths / normal-return paths / obligations found on
the unchanged tree (contracts/EXPECTED.json). The driver compares each run with it: fewer
return paths or obligations than recorded means contracts were silently not applied."""
import json, multiprocessing as mp, os, sys
sys.path.insert(0, "/verif"); sys.path.insert(0, "/repo/src")
def work(key):
    from pyvc.symexec import Source
    from pyvc.models import Models
    from pyvc import contracts as C
    import contracts
    from contracts.common import REG
    try:
        obs, info, outs = C.collect_obligations(Source(), REG, Models, REG[key])
        return key, dict(paths=len(outs), returns=sum(1 for o in outs if o.kind == "return"), raises=sum(1 for o in outs if o.kind == "raise"), obligations=len(obs), names=len({o.name for o in obs}))
    except Exception as e:
        return key, dict(error=str(e)[:200])
if __name__ == "__main__":
    import contracts
    from contracts.common import REG
    keys = [k for k, c in REG.items() if not c.trusted and (c.ensures_ or c.exsures_ or c.loops)]
    with mp.get_context("fork").Pool(16) as pool:
        res = dict(pool.map(work, keys, chunksize=1))
    for k, v in sorted(res.items()):
        if "error" in v: print("ERR", k, v)
    json.dump(res, open("/verif/contracts/EXPECTED.json", "w"), indent=1, sort_keys=True)
    print(len(res), "contracts recorded")
