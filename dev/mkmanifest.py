#!/usr/bin/env python3
"""Regenerates MANIFEST.json from dev/manifest_src.py (kept valid at all times)."""
import json, os, sys
HERE = os.path.dirname(os.path.abspath(__file__))
sys.path.insert(0, HERE)
from manifest_src import CLAIMED, NOT_APPLICABLE, NOTES
props = [json.loads(l)["id"] for l in open(os.path.join(HERE, "..", "properties.jsonl"))]
checks = []
for pid in props:
    if pid in CLAIMED:
        c = CLAIMED[pid]
        checks.append(dict(
            property_id=pid,
            quick_cmd=f"./check {pid} --tier quick",
            thorough_cmd=f"./check {pid} --tier thorough",
            evidence_file=f"evidence/{pid}.json",
            replay_cmd_template=f"./check {pid} --replay {{path}}",
            engine="pyvc",
            level_claimed=dict(category=c["category"], text=c["text"], design_ref=c.get("design_ref", f"DESIGN.md section 2/{pid}")),
            level_note=c["note"],
            technique=c["technique"],
        ))
na = [dict(property_id=p, reason=NOT_APPLICABLE[p]) for p in props if p not in CLAIMED]
m = dict(
    version=1,
    setup_cmd="./setup.sh",
    hooks=dict(guard="BUMPVER_VERIF", enable="no in-repo hooks are needed: contracts are sidecars under /verif/contracts; checks export BUMPVER_VERIF=1 for uniformity",
               baseline_off_cmd="cd /repo && /venv/bin/python -m pytest -ra -q -p no:cacheprovider --timeout=900 --continue-on-collection-errors",
               source_commits=[], add_only=True),
    engines=[dict(name="pyvc", path="pyvc/", serves_properties=sorted(CLAIMED), kind_free_text="AST->VC symbolic executor over the real bumpver source with sidecar contracts; z3 5.1 + cvc5 1.0.3 back ends; X = exhaustive enumeration layers, B = bounded shadows (never counted as proved)")],
    checks=checks,
    notes=NOTES,
    not_applicable=na,
)
json.dump(m, open(os.path.join(HERE, "..", "MANIFEST.json"), "w"), indent=1)
import jsonschema
jsonschema.validate(m, json.load(open("/root/.vp/MANIFEST.schema.json")))
print("MANIFEST ok:", len(checks), "claimed,", len(na), "not applicable")
