#!/usr/bin/env python3
"""Regenerate the generated tables of DESIGN.md (between BEGIN/END markers) from evidence/*.json and seeded/*/meta.json."""
import glob, json, os, re
V = "/verif"
man = json.load(open(f"{V}/MANIFEST.json"))
levels = {p["id"]: p for p in man["properties"]} if isinstance(man.get("properties"), list) else {}

def evid_table():
    rows = ["| id | level | functions under contract | P obligations (SMT queries, back ends) | X layers (cases) | B layers (cases) | wall s |", "|---|---|---|---|---|---|---|"]
    for f in sorted(glob.glob(f"{V}/evidence/C*.json")):
        e = json.load(open(f))
        c = e["coverage"]
        P = [o for o in c.get("obligations_detail", [])]
        q = sum(o["queries"] for o in P)
        X = [(p["name"].split(".", 1)[1][:48], p.get("cases")) for p in c.get("python_layers", []) if p["kind"] == "X"]
        B = [(p["name"].split(".", 1)[1][:48], p.get("cases")) for p in c.get("python_layers", []) if p["kind"] == "B"]
        rows.append(f"| {e['property_id']} | {e['level']} | {len(c.get('functions_under_contract', []))} | {len(P)} ({q}; {c.get('backends')}) | {'; '.join(f'{n} ({k})' for n, k in X) or '-'} | {'; '.join(f'{n} ({k})' for n, k in B) or '-'} | {e['wall_s']} |")
    return "\n".join(rows)

def seed_table():
    rows = ["| seed | what was changed (needs to manifest) | checks run -> result | caught by (obligation / layer) |", "|---|---|---|---|"]
    for d in sorted(glob.glob(f"{V}/seeded/*/")):
        m = json.load(open(d + "meta.json"))
        sid = m["seed"]
        what = m.get("summary") or ""
        res, by = [], []
        for c, r in sorted(m.get("check_results", {}).items()):
            kinds = []
            for l in r["lines"]:
                if "VIOLATION" in l:
                    kinds.append("VIOLATION")
                    mm = re.search(r"replay=replays/\w+/(\S+?)\.json", l)
                    if mm:
                        by.append(f"{c}: `{mm.group(1)[:90]}`" + (" (no input)" if "no-failing-input-found" in l else ""))
                elif "UNDECIDED" in l:
                    kinds.append("undecided")
                elif "CHECKER-ERROR" in l:
                    kinds.append("checker-error")
                elif "OK property" in l:
                    kinds.append("OK (missed)")
            res.append(f"{c}: exit {r['exit']} {'/'.join(sorted(set(kinds)))}")
        rows.append(f"| {sid} | {what} | {'; '.join(res)} | {'<br>'.join(by[:3]) or '-'} |")
    return "\n".join(rows)

def harmless_table():
    rows = ["| refactoring | functions touched (author's notes) | checks run -> result |", "|---|---|---|"]
    for d in sorted(glob.glob(f"{V}/harmless/*/")):
        m = json.load(open(d + "meta.json"))
        what = m.get("summary", "")
        res = []
        for c, r in sorted(m.get("check_results", {}).items()):
            kinds = []
            for l in r["lines"]:
                if "VIOLATION" in l:
                    kinds.append("VIOLATION")
                elif "UNDECIDED" in l:
                    kinds.append("undecided")
                elif "CHECKER-ERROR" in l:
                    kinds.append("checker-error (unsupported construct, no alarm)")
                elif "OK property" in l:
                    kinds.append("OK (quiet)")
            res.append(f"{c}: exit {r['exit']} {'/'.join(sorted(set(kinds)))}")
        rows.append(f"| {os.path.basename(d.rstrip('/'))} | {what} | {'; '.join(res)} |")
    return "\n".join(rows)


s = open(f"{V}/DESIGN.md").read()
for tag, fn in (("EVIDENCE-TABLE", evid_table), ("SEED-TABLE", seed_table), ("HARMLESS-TABLE", harmless_table)):
    a, b = f"<!-- {tag}-BEGIN -->", f"<!-- {tag}-END -->"
    if a in s:
        s = s[: s.index(a) + len(a)] + "\n" + fn() + "\n" + s[s.index(b):]
open(f"{V}/DESIGN.md", "w").write(s)
print("tables regenerated")
