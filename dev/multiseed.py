"""Run the python (X/B) layers of every check for several seeds against a clean copy of the sources.
usage: BUMPVER_SRC=/tmp/clean/src dev/multiseed.py TIER SEED... [-- PROP...]"""
import sys, time, json, importlib, os
sys.path.insert(0, '/verif')
args = sys.argv[1:]
tier = args[0]
if '--' in args:
    i = args.index('--'); seeds = [int(a) for a in args[1:i]]; props = args[i+1:]
else:
    seeds = [int(a) for a in args[1:]]; props = ['c%02d' % i for i in range(1, 21)]
for p in props:
    try:
        m = importlib.import_module('checks.' + p.lower())
    except ModuleNotFoundError:
        continue
    for s in seeds:
        t = time.time()
        try:
            r = m.run(tier=tier, seed=s)
        except Exception as e:
            print(p, s, 'EXC', type(e).__name__, e, flush=True); continue
        bad = [x for x in r if x['verdict'] != 'held' and not x.get('known_finding')]
        print(p, s, 'ok' if not bad else 'BAD', '%.0fs' % (time.time() - t), flush=True)
        for x in bad:
            print('   ', x['name'], x['verdict'], str(x.get('observed'))[:300], str(x.get('witness'))[:600], flush=True)
