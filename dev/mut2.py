#!/usr/bin/env python3
"""dev/mut2.py CONTRACT_KEY FILE OLD NEW  (like mut1 but based on the clean copy /tmp/clean/src)."""
import os, shutil, subprocess, sys, tempfile
key, fname, old, new = sys.argv[1:5]
d = tempfile.mkdtemp(prefix="bvmut_")
try:
    shutil.copytree("/tmp/clean/src", os.path.join(d, "src"))
    p = os.path.join(d, "src", "bumpver", fname)
    s = open(p).read()
    assert old in s, "OLD not found"
    open(p, "w").write(s.replace(old, new, 1))
    env = dict(os.environ, BUMPVER_SRC=os.path.join(d, "src"))
    r = subprocess.run(["/verif/.venv/bin/python", "/verif/dev/dev1.py", key], cwd="/verif", env=env, capture_output=True, text=True)
    out = [l[:260] for l in r.stdout.splitlines() if not ("{'unsat'" in l and "sat': " not in l.replace("'unsat'", ""))]
    print("\n".join(out[-10:]), r.stderr[-1500:])
finally:
    shutil.rmtree(d, ignore_errors=True)
