#!/bin/sh
cd /verif
P=.venv/bin/python
$P dev/mutcheck.py C05 v2version.py "cur_vinfo._replace(inc1=1)" "cur_vinfo._replace(inc1=0)" 2>&1 | grep -E "VIOLATION|exit|OK|ERROR|UNDEC" 
$P dev/mutcheck.py C05 v2version.py "        if tag != cur_vinfo.tag:" "        if tag == cur_vinfo.tag:" 2>&1 | grep -E "VIOLATION|exit|OK|ERROR|UNDEC"
$P dev/mutcheck.py C05 v2version.py "    return lvals > rvals" "    return lvals >= rvals" 2>&1 | grep -E "VIOLATION|exit|OK|ERROR|UNDEC"
$P dev/mutcheck.py C05 v2version.py "    cur_cinfo = _ver_to_cal_info(old_vinfo) if pin_date else cal_info(date)" "    cur_cinfo = cal_info(date)" 2>&1 | grep -E "VIOLATION|exit|OK|ERROR|UNDEC"
$P dev/mutcheck.py C05 version.py "    'inc1' : \"1\"," "    'inc1' : \"0\"," 2>&1 | grep -E "VIOLATION|exit|OK|ERROR|UNDEC"
