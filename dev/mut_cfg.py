import subprocess, sys, shutil, os
base=open('/tmp/clean/src/bumpver/config.py').read()
muts={
 'no tag->commit check': ('''    if tag and not commit:
        raise ValueError("commit=True required if tag=True")
''',''),
 'push None -> True': ("        push = raw_cfg['push'] = False","        push = raw_cfg['push'] = True"),
 'tag_message not stripped': ('''    tag_message = raw_cfg['tag_message'] = tag_message.strip("'\\" ")''','''    raw_cfg['tag_message'] = tag_message'''),
 'commit message default swapped': ("raw_cfg.get('commit_message', DEFAULT_COMMIT_MESSAGE)","raw_cfg.get('commit_message', DEFAULT_TAG_MESSAGE)"),
}
shutil.rmtree('/tmp/mutx', ignore_errors=True); os.makedirs('/tmp/mutx'); shutil.copytree('/tmp/clean/src','/tmp/mutx/src')
for n,(a,b) in muts.items():
    assert a in base, n
    open('/tmp/mutx/src/bumpver/config.py','w').write(base.replace(a,b))
    try:
        r=subprocess.run(['/verif/.venv/bin/python','/verif/dev/dev1.py','bumpver.config._parse_config'],env={'BUMPVER_SRC':'/tmp/mutx/src','PATH':'/usr/bin:/bin'},capture_output=True,text=True,cwd='/verif',timeout=400)
        bad=[l.strip()[:150] for l in r.stdout.splitlines() if ("'sat'" in l or "'unknown'" in l) and l.strip().startswith('C18') or ('error= ' in l and 'error= None' not in l)]
    except subprocess.TimeoutExpired:
        bad=['TIMEOUT']
    print(n, '->', bad[:3], flush=True)
shutil.rmtree('/tmp/mutx', ignore_errors=True)
