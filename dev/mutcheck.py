#!/usr/bin/env python3
"""dev/mutcheck.py PROP FILE OLD NEW  — run ./check PROP against a scratch copy of
/repo/src in which FILE has OLD replaced by NEW (first occurrence). The copy is removed."""
import os, shutil, subprocess, sys, tempfile
prop, fname, old, new = sys.argv[1:5]
d = tempfile.mkdtemp(prefix="bvmut_")
try:
    shutil.copytree("/repo/src", os.path.join(d, "src"))
    p = os.path.join(d, "src", "bumpver", fname)
    s = open(p).read()
    assert old in s, "OLD not found"
    open(p, "w").write(s.replace(old, new, 1))
    env = dict(os.environ, BUMPVER_SRC=os.path.join(d, "src"))
    r = subprocess.run(["./check", prop] + sys.argv[5:], cwd="/verif", env=env, capture_output=True, text=True)
    print(r.stdout[-3000:], r.stderr[-2000:])
    print("exit", r.returncode)
finally:
    shutil.rmtree(d, ignore_errors=True)
