#!/bin/sh
cd /verif
for p in "$@"; do
  s=$(date +%s)
  out=$(./check $p 2>&1 | grep -E "^(OK|VIOLATION|UNDECIDED|CHECKER-ERROR|KNOWN)" | head -5 | cut -c1-260)
  echo "$p rc=$? $(( $(date +%s) - s ))s :: $out"
done
