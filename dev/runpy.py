import sys, time, json
sys.path.insert(0,'/verif')
import importlib
m=importlib.import_module('checks.'+sys.argv[1])
t=time.time()
r=m.run(tier=sys.argv[2] if len(sys.argv)>2 else 'quick', seed=0)
for x in r:
    print(x['name'], x['kind'], x['verdict'], x.get('cases'), str(x.get('witness'))[:300])
print('wall %.1f'%(time.time()-t))
