#!/bin/sh
# re-run every stored seed against the current machinery (each applies its patch to /repo and undoes it)
cd /verif
while pgrep -f runall.sh >/dev/null; do sleep 5; done
for d in seeded/*/; do
  sid=$(basename $d)
  .venv/bin/python dev/seedrun.py $sid 2>&1 | cut -c1-500
done
for d in harmless/*/; do
  sid=$(basename $d)
  SEED_DIR=harmless .venv/bin/python dev/seedrun.py $sid 2>&1 | cut -c1-500
done
git -C /repo status --short
echo SEEDALL-DONE
