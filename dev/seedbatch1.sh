#!/bin/sh
cd /verif
for s in "C05 1" "C05 2" "C11 1" "C11 2" "C09 1" "C09 2" "C10 1" "C10 2" "C01 1" "C01 2" "C17 1" "C17 2" "C06 1" "C06 2"; do
  set -- $s
  echo "=== $1-$2"
  .venv/bin/python dev/seedcheck.py $1 $2 2>&1 | grep -v "Invalid pattern" | tail -4
done
