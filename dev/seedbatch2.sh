#!/bin/sh
cd /verif
for s in "C09 1 C09 C01" "C09 2 C09" "C01 1 C01" "C06 2 C06" "C11 1 C11"; do
  set -- $s
  echo "=== $1-$2"
  .venv/bin/python dev/seedcheck.py "$@" 2>&1 | grep -v "Invalid pattern" | tail -3 | cut -c1-500
done
