#!/bin/sh
cd /verif
for s in "C16 1" "C16 2" "C04 1" "C04 2" "C19 1" "C19 2" "C12 1" "C12 2" "C13 1 C13 C04" "C13 2" "C03 1" "C03 2"; do
  set -- $s
  echo "=== $1-$2"
  .venv/bin/python dev/seedcheck.py "$@" 2>&1 | grep -v "Invalid pattern" | tail -3 | cut -c1-500
done
