#!/bin/sh
cd /verif
for s in "C02 1" "C02 2 C02 C07" "C07 1" "C07 2" "C08 1 C08 C09" "C08 2 C08 C03" "C15 1 C15 C02" "C15 2 C15 C16" "C18 1" "C18 2" "C20 1" "C20 2" "C09 1 C09 C01" "C09 2 C09" "C06 2 C06 C01" "C13 2 C13" "C16 2 C16" "C04 1 C04" "C11 2 C11 C18"; do
  set -- $s
  echo "=== $1-$2"
  .venv/bin/python dev/seedcheck.py "$@" 2>&1 | grep -v "Invalid pattern" | tail -4 | cut -c1-500
done
