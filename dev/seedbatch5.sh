#!/bin/sh
# round 4: confirm + check; stored as PROP-3 / PROP-4
cd /verif
export SEED_OFFSET=2
for s in "C02 1" "C02 2" "C03 1" "C03 2 C03 C18" "C04 1" "C04 2 C04 C13" "C06 1" "C06 2" "C07 1" "C07 2 C07 C03" "C08 1 C08 C18" "C08 2 C08 C09" "C09 1" "C09 2" "C12 1" "C12 2" "C13 1" "C13 2" "C15 1" "C15 2 C15 C02"; do
  set -- $s
  echo "=== $1-$2 (stored as $1-$(( $2 + 2 )))"
  .venv/bin/python dev/seedcheck.py "$@" 2>&1 | grep -v "Invalid pattern" | tail -4 | cut -c1-600
done
git -C /repo status --short
echo BATCH5-DONE
