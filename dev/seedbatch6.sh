#!/bin/sh
cd /verif
while pgrep -f "seedbatch[5].sh" >/dev/null; do sleep 10; done
export SEED_OFFSET=2
for s in "C01 1" "C01 2 C01 C16" "C05 1" "C05 2" "C10 1" "C10 2" "C11 1" "C11 2" "C14 1 C14 C02" "C14 2 C14 C05" "C16 1" "C16 2 C16 C01" "C17 1 C17 C02" "C17 2" "C18 1" "C18 2" "C19 1" "C19 2 C19 C18" "C20 1" "C20 2"; do
  set -- $s
  echo "=== $1-$2 (stored as $1-$(( $2 + 2 )))"
  .venv/bin/python dev/seedcheck.py "$@" 2>&1 | grep -v "Invalid pattern" | tail -4 | cut -c1-600
done
git -C /repo status --short
echo BATCH6-DONE
