#!/bin/sh
# campaign 3: change 1 = defect (stored as PROP-5), change 2 = harmless refactoring (stored under harmless/PROP-1)
cd /verif
while pgrep -f "thorough_al[l].sh" >/dev/null; do sleep 10; done
export SEED_OFFSET=4
for p in C01 C02 C03 C04 C05 C06 C07 C08 C09 C10 C11 C12 C13 C14 C15 C16 C17 C18 C19 C20; do
  extra=""
  case $p in C03) extra="C03 C18 C08";; C08) extra="C08 C10 C11";; C13) extra="C13 C04";; C18) extra="C18";; esac
  echo "=== $p-1 defect (stored as $p-5)"
  .venv/bin/python dev/seedcheck.py $p 1 $extra 2>&1 | grep -v "Invalid pattern" | tail -4 | cut -c1-500
  echo "=== $p-2 harmless"
  .venv/bin/python dev/harmlesscheck.py $p 2>&1 | tail -3 | cut -c1-500
done
git -C /repo status --short
echo BATCH7-DONE
