#!/usr/bin/env python3
"""dev/seedcheck.py PROP K [CHECKPROP...]: confirm seeded change K of PROP from /tmp/seed_PROP_out
(demo passes before / fails after, test-suite unchanged), then run ./check against /repo with the patch
applied (and undo it). Stores the seed under /verif/seeded/PROP-K/ with meta.json."""
import json, os, shutil, subprocess, sys, time
prop, k = sys.argv[1], sys.argv[2]
store_k = str(int(k) + int(os.environ.get("SEED_OFFSET", "0")))  # later rounds: stored as PROP-(K+offset)
checks = sys.argv[3:] or [prop]
out = f"/tmp/seed_{prop}_out"
wt = f"/tmp/seed_{prop}"
patch, demo = f"{out}/patch{k}.diff", f"{out}/demo{k}.py"
env = dict(os.environ, PYTHONPATH=f"{wt}/src")
def run(cmd, **kw):
    return subprocess.run(cmd, capture_output=True, text=True, **kw)
subprocess.run(["git", "-C", wt, "checkout", "-q", "--", "."])
r0 = run(["/venv/bin/python", demo], env=env, cwd="/tmp")
a = run(["git", "-C", wt, "apply", patch])
assert a.returncode == 0, a.stderr
r1 = run(["/venv/bin/python", demo], env=env, cwd="/tmp")
t = run(["/venv/bin/python", "-m", "pytest", "-q", "-p", "no:cacheprovider", "--timeout=900", "--continue-on-collection-errors"], env=env, cwd=wt)
tail = t.stdout.strip().splitlines()[-1] if t.stdout.strip() else ""
subprocess.run(["git", "-C", wt, "checkout", "-q", "--", "."])
print(f"demo before: exit {r0.returncode}; after: exit {r1.returncode}; tests: {tail}")
ok = r0.returncode == 0 and r1.returncode != 0 and "500 passed" in tail and "25 failed" in tail
print("seed confirmed" if ok else "SEED NOT CONFIRMED", (r1.stdout + r1.stderr)[-300:].replace("\n", " | "))
results = {}
subprocess.run(["git", "-C", "/repo", "checkout", "-q", "--", "."])
a = run(["git", "-C", "/repo", "apply", patch])
assert a.returncode == 0, a.stderr
try:
    for c in checks:
        t0 = time.time()
        r = run(["./check", c], cwd="/verif", env=dict(os.environ, VERIF_EVIDENCE_DIR="/tmp/seed_evidence"))
        lines = [l for l in r.stdout.splitlines() if any(w in l for w in ("VIOLATION", "OK property", "UNDECIDED", "CHECKER-ERROR", "KNOWN"))]
        results[c] = dict(exit=r.returncode, lines=lines[:8], wall=round(time.time() - t0, 1))
        print(c, "exit", r.returncode, "|", " | ".join(lines[:6])[:900])
finally:
    subprocess.run(["git", "-C", "/repo", "checkout", "-q", "--", "."])
if ok:
    d = f"/verif/seeded/{prop}-{store_k}"
    os.makedirs(d, exist_ok=True)
    shutil.copy(patch, f"{d}/patch.diff"); shutil.copy(demo, f"{d}/demo.py")
    notes = open(f"{out}/notes.md").read() if os.path.exists(f"{out}/notes.md") else ""
    meta = dict(property=prop, seed=f"{prop}-{store_k}", source="independent sub-agent given only the property text and a scratch worktree",
                needs_to_manifest="see notes.md (excerpt of the author's notes)", confirmed=dict(demo_exit_before=r0.returncode, demo_exit_after=r1.returncode, test_suite=tail),
                ran=[f"git -C /repo apply /verif/seeded/{prop}-{store_k}/patch.diff; ./check {c}; git -C /repo checkout -- ." for c in checks], check_results=results)
    json.dump(meta, open(f"{d}/meta.json", "w"), indent=1)
    open(f"{d}/notes.md", "w").write(notes)
