#!/usr/bin/env python3
"""dev/seedrun.py SEEDID [CHECKPROP...]: apply /verif/seeded/SEEDID/patch.diff to /repo, run ./check for the given
properties (default: those recorded in meta.json), undo the patch, record the results in meta.json.
Evidence files are redirected (VERIF_EVIDENCE_DIR) so that committed evidence only ever comes from the unchanged tree."""
import json, os, subprocess, sys, time
sid = sys.argv[1]
d = f"/verif/{os.environ.get('SEED_DIR', 'seeded')}/{sid}"  # SEED_DIR=harmless for the behaviour-preserving refactorings
meta = json.load(open(f"{d}/meta.json"))
checks = sys.argv[2:] or sorted(meta.get("check_results", {})) or [meta["property"]]
def run(cmd, **kw):
    return subprocess.run(cmd, capture_output=True, text=True, **kw)
assert run(["git", "-C", "/repo", "status", "--porcelain"]).stdout.strip() == "", "/repo not clean"
head = run(["git", "-C", "/repo", "rev-parse", "--short", "HEAD"]).stdout.strip()
a = run(["git", "-C", "/repo", "apply", f"{d}/patch.diff"])
assert a.returncode == 0, a.stderr
results = dict(meta.get("check_results", {}))
try:
    for c in checks:
        t0 = time.time()
        r = run(["./check", c], cwd="/verif", env=dict(os.environ, VERIF_EVIDENCE_DIR="/tmp/seed_evidence"))
        lines = [l[:400] for l in r.stdout.splitlines() if any(w in l for w in ("VIOLATION", "OK property", "UNDECIDED", "CHECKER-ERROR"))]
        results[c] = dict(exit=r.returncode, lines=lines[:8], wall=round(time.time() - t0, 1), repo_head=head)
        print(sid, c, "exit", r.returncode, "|", " | ".join(lines[:4])[:700], flush=True)
finally:
    subprocess.run(["git", "-C", "/repo", "checkout", "-q", "--", "."])
meta["check_results"] = results
meta["ran"] = [f"git -C /repo apply {d}/patch.diff; ./check {c}; git -C /repo checkout -- ." for c in sorted(results)]
meta["caught_by"] = sorted(c for c, v in results.items() if v["exit"] == 1 and any("VIOLATION" in l for l in v["lines"]))
json.dump(meta, open(f"{d}/meta.json", "w"), indent=1)
