#!/usr/bin/env python3
"""One-line descriptions of the seeded changes (what was changed; what it needs to manifest), merged into seeded/*/meta.json."""
import json, os
S = {
 "C01-1": "cli._update_cfg_from_vcs compares the PEP 440 *strings* instead of parsed versions; needs a tag / working-dir pair whose string order differs from version order (2.0.9 vs 2.0.10)",
 "C01-2": "cli._is_valid_version rejects only equal strings or smaller versions; needs a new version that is a different spelling of the same PEP 440 version (1.0 -> 1.0.0, leading zeros)",
 "C02-1": "v2version._format_part_values breaks ties between equally long parts by name instead of table order; needs a literal digit in front of a part so that a phantom part (0Y in 20YY) is substituted first",
 "C02-2": "patterns.RE_PATTERN_ESCAPES rebuilt from a character string that omits '+'; needs a literal '+' in a pattern (MAJOR.MINOR.PATCH+BUILD)",
 "C03-1": "config file-pattern merge by itertools.groupby keeps only the last run of a path; needs the same file reached through two non-adjacent globs/entries",
 "C03-2": "v2rewrite.rewrite_lines applies same-line matches left to right; needs two patterns matching on one line with replacement of different length",
 "C04-1": "v2rewrite.rfd_from_content uses splitlines(); needs content with form feed / U+2028 / lone CR inside a line",
 "C04-2": "rewrite_files opens files with mode r+t instead of wt; needs new content shorter than the old content (tail of old file survives)",
 "C05-1": "v2version._is_cal_gt uses truthiness for the None test; needs a calendar field with value 0 (week 0) deciding the comparison",
 "C05-2": "v2version._incr_numeric compares the requested tag with the *pytag*; needs --tag equal to the current tag (NUM must keep counting, is reset instead)",
 "C06-1": "rewrite_lines counts found patterns with multiplicity; needs one pattern matching twice and another not at all (missing occurrence not reported, file written)",
 "C06-2": "cli._update: sys.exit(1) moved under the logging branch; needs a rewrite failure (NoPatternMatch) with commit enabled - update goes on to commit",
 "C07-1": "utils.memo shares one cache keyed by function name + args between v1 and v2 compile_pattern; needs the same arguments compiled by both engines in one process",
 "C07-2": "v2patterns._compile_pattern_re stops escaping '{' and '}'; needs a literal with a quantifier-shaped brace group (x{2}y)",
 "C08-1": "same change as C01-1 (string comparison of PEP 440 texts in _update_cfg_from_vcs); needs a history in which the newest tag is v1.10.0 after v1.9.x",
 "C08-2": "v2rewrite.rewrite_lines sort key (-lineno, span): same-line matches applied left to right; needs two occurrences on one line and a tag change that shortens the version",
 "C09-1": "same change as C01-1; needs a tag set whose newest member differs under string order",
 "C09-2": "cli.update consults the VCS tags before merging the command-line options; needs --tag-scope / config tag_scope to disagree",
 "C10-1": "hooks.run accepts negative return codes; needs a pre-commit hook killed by a signal",
 "C10-2": "vcs.commit creates the tag before the post-commit hook runs; needs tag = true together with a post-commit hook (the hook then runs after tagging; a failing hook leaves a tag behind)",
 "C11-1": "VCSAPI.status strips the whole status output; needs a first porcelain line whose first column is a blank (' M path')",
 "C11-2": "config globbing through glob.glob keeps './' and doubled slashes; needs a non-canonical spelling of a pattern file in the config and that file dirty",
 "C12-1": "cli._sub_msg_template: trailing word boundary dropped; needs a message containing a word that starts with OLD/NEW (NEWS, OLDER)",
 "C12-2": "VCSAPI.__call__ replaces newlines in the values handed to the command (aliasing of the kwargs dict); needs a multi-line commit or tag message",
 "C13-1": "v2rewrite.diff reads files without newline=''; needs a file with CRLF line endings (diff shown differs from what a real run writes)",
 "C13-2": "cli.update returns for --dry before the messages are rendered; needs a commit message template with an unknown placeholder (dry run exits 0, real run fails)",
 "C14-1": "v2version.cal_info computes the ISO year by a Thursday formula that is off on Sundays; needs a Sunday in the first/last ISO week of a year",
 "C14-2": "same edit as C05-1 (_is_cal_gt truthiness); needs week 0 dates with a later date going backwards",
 "C15-1": "v2patterns PEP 440 formatter strips zeros on both sides; needs a numeric part ending in 0 (BUILD 1010 -> 101)",
 "C15-2": "setuptools_v65_version.Version.__str__ drops '.post0'; needs tag post with number 0 (PEP440 line of test/show differs from the written text)",
 "C16-1": "_cmpkey: a dev release with a post segment sorts as if it had no pre segment; needs X.postN.devM compared with X.postN",
 "C16-2": "_parse_letter_version returns before normalising the alternate spellings; needs alpha/beta/c/pre/preview/rev/r spellings",
 "C17-1": "v2version._incr_numeric pads via int (drops leading zeros); needs a BUILD with a leading zero >= 1000 after padding (e.g. '0999' family / '01000')",
 "C17-2": "_incr_numeric increments BUILD only inside the `if not pin_increments` branch; needs --pin-increments (BUILD stays, result may not change)",
 "C18-1": "missing comma in the tuple of true values ('1' 'on' -> '1on'); needs commit = 1 or commit = on in setup.cfg syntax",
 "C18-2": "legacy section header [pycalver] no longer recognised when looking for the config section; needs a setup.cfg/bumpver.toml with the legacy header",
 "C19-1": "_pick_config_filepath looks for '[bumpver]' only; needs pyproject.toml with [tool.bumpver] (init picks a different file)",
 "C19-2": "write_content rewrites the file from a text-mode read; needs an existing config file with CRLF line endings or undecodable bytes",
 "C20-1": "legacy part {build_no} accepts exactly four digits; needs a build number with five or more digits (after 999 bumps)",
 "C20-2": "v1version._ver_to_cal_info passes dom and doy in swapped order; needs --pin-date, a pattern with {dom} or {doy} and a date after January",
}
for sid, text in S.items():
    p = f"/verif/seeded/{sid}/meta.json"
    if not os.path.exists(p):
        print("missing", sid); continue
    m = json.load(open(p))
    m["summary"] = text
    json.dump(m, open(p, "w"), indent=1)
print(len(S))
