import sys, collections, json
sys.path.insert(0,'/verif')
from shadows import project
import multiprocessing as mp
lo, hi = int(sys.argv[1]), int(sys.argv[2])
seeds=list(range(lo,hi))
with mp.get_context('fork').Pool(int(sys.argv[3]) if len(sys.argv)>3 else 16) as pool:
    res=pool.map(project.check_scenario, seeds, chunksize=8)
cnt=collections.Counter()
shown=collections.Counter()
for s,r in zip(seeds,res):
    for k in r:
        if not k.startswith('_'): cnt[k]+=1
    if '_error' in r: cnt['_error']+=1
    ks=[k for k in r if not k.startswith('_')] + (['_error'] if '_error' in r else [])
    for k in ks:
        if shown[k]<3:
            shown[k]+=1; print(s,k,r.get(k),json.dumps(r.get('_detail'))[:500])
print('TOTAL',cnt)
