#!/bin/sh
cd /verif
for p in "$@"; do
  s=$(date +%s)
  out=$(VERIF_EVIDENCE_DIR=/tmp/thor_ev timeout 7200 ./check $p --tier thorough 2>&1 | grep -E "^(OK|VIOLATION|UNDECIDED|CHECKER-ERROR)" | head -5 | cut -c1-260)
  echo "$p rc=$? $(( $(date +%s) - s ))s :: $out"
done
echo THOROUGH-DONE
