"""Abstract containers used by contracts."""
import z3

from .values import *  # noqa
from . import values as V
from .symexec import Val, Exc, Outcome, Unsupported


class FDict:
    """A dict whose key set is a symbolic subset of a finite concrete domain.
    present[k] is a bool-ish, value[k] the (possibly symbolic) value. Iteration
    order is unspecified; the executor forks on membership of every possible key,
    which is sound when the loop body's effect does not depend on the order
    (each key handled independently)."""

    def __init__(self, present, value):
        self.present = dict(present)
        self.value = dict(value)

    def __repr__(self):
        return f"FDict({self.present})"

    def __pyvc_contains__(self, needle):
        if isinstance(needle, str):
            return self.present.get(needle, False)
        return b_or(*[b_and(v_eq(needle, k), p) for k, p in self.present.items()])

    def __pyvc_truthy__(self):
        return b_or(*self.present.values())

    def __pyvc_method__(self, ex, name, args, kwargs, st, node):
        if name == "items":
            return [Val(FDictItems(self), st)]
        if name == "keys":
            return [Val(FDictItems(self, keys_only=True), st)]
        if name == "get":
            k = args[0]
            default = args[1] if len(args) > 1 else None
            if isinstance(k, str):
                p = self.present.get(k, False)
                return [Val(v_ite(p, self.value.get(k), default), st)]
        raise Unsupported(f"FDict.{name}")

    def __pyvc_getitem__(self, ex, idx, st, node):
        if not isinstance(idx, str):
            raise Unsupported("FDict symbolic key")
        p = self.present.get(idx, False)
        t, f = ex.split(p, st)
        out = []
        if t is not None:
            out.append(Val(self.value[idx], t))
        if f is not None:
            out.append(ex.raise_(KeyError, f, idx))
        return out


class FDictItems:
    def __init__(self, d, keys_only=False):
        self.d = d
        self.keys_only = keys_only

    __pyvc_symbolic_iter__ = True


def for_fdict(models, ex, s, items, st):
    """for k, v in fdict.items(): fork on presence of each possible key."""
    d = items.d
    states = [st]
    outs = []
    for k in d.present:
        p = d.present[k]
        if isinstance(p, bool) and not p:
            continue
        nxt = []
        for cur in states:
            t, f = ex.split(p, cur)
            if f is not None:
                nxt.append(f)
            if t is not None:
                item = k if items.keys_only else (k, d.value[k])
                for ao in ex.assign(s.target, item, t):
                    if ao.kind != "fall":
                        outs.append(ao)
                        continue
                    for o in ex.exec_block(s.body, ao.st):
                        if o.kind in ("fall", "continue"):
                            nxt.append(o.st)
                        elif o.kind == "break":
                            raise Unsupported("break in loop over FDict")
                        else:
                            outs.append(o)
        states = nxt
    outs.extend(Outcome("fall", None, x) for x in states)
    return outs


# --------------------------------------------------------------------------- element-wise sequences
class SymMapped:
    """Result of a comprehension over a symbolic-length sequence: element-wise
    filter/map. elementwise(ex, elem, st) -> list of (state, kind, value) with kind in
    keep / drop / raise; the states extend st's path condition."""

    __pyvc_symbolic_iter__ = True

    def __init__(self, base, fn, kind="list"):
        self.base, self.fn, self.kind = base, fn, kind

    def __repr__(self):
        return f"SymMapped(over {self.base!r})"

    def elementwise(self, ex, elem, st):
        if isinstance(self.base, SymMapped):
            out = []
            for s1, k1, v1 in self.base.elementwise(ex, elem, st):
                if k1 != "keep":
                    out.append((s1, k1, v1))
                else:
                    out.extend(self.fn(ex, v1, s1))
            return out
        return self.fn(ex, elem, st)

    def root(self):
        b = self.base
        while isinstance(b, SymMapped):
            b = b.base
        return b

    def __pyvc_isinstance__(self, t):
        return t in (list, object)


INTERSECTS = None


def _intersects():
    global INTERSECTS
    if INTERSECTS is None:
        s = z3.SeqSort(z3.StringSort())
        INTERSECTS = z3.Function("set_intersects", s, s, z3.BoolSort())
    return INTERSECTS


class SymStrSet:
    """A set of strings given by the elements of a symbolic sequence (A-set:
    membership is sequence membership; `a & b` is non-empty iff set_intersects(a, b))."""

    __pyvc_symbolic_iter__ = True

    def __init__(self, seq):
        self.seq = seq  # SSeq of str

    def __repr__(self):
        return f"SymStrSet({self.seq.t})"

    def __pyvc_contains__(self, x):
        return z3.Contains(self.seq.t, z3.Unit(V.z3str(x)))

    def __pyvc_truthy__(self):
        return z3.Length(self.seq.t) > 0

    def __pyvc_len__(self):
        raise Unsupported("len of symbolic set")

    def __pyvc_binop__(self, ex, op, other, st, node):
        if op == "&" and isinstance(other, SymStrSet):
            # A-set: a non-empty intersection needs two non-empty operands
            st.assume(z3.Implies(_intersects()(self.seq.t, other.seq.t), z3.And(z3.Length(self.seq.t) > 0, z3.Length(other.seq.t) > 0)))
            return [Val(SymInter(self, other), st)]
        raise Unsupported(f"set {op}")

    def __pyvc_elem__(self, k):
        return SStr(self.seq.t[k])

    def __pyvc_eq__(self, other):
        if isinstance(other, SymStrSet):
            return self.seq.t == other.seq.t
        return False


class SymInter:
    __pyvc_symbolic_iter__ = True

    def __init__(self, a, b):
        self.a, self.b = a, b
        self.n = None

    def __pyvc_truthy__(self):
        return _intersects()(self.a.seq.t, self.b.seq.t)

    def __pyvc_elem__(self, k):
        from .symexec import fresh_name

        return V.sstr(fresh_name("inter_elem"))
