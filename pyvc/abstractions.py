"""Abstract containers used by contracts."""
import z3

from .values import *  # noqa
from . import values as V
from .symexec import Val, Exc, Outcome, Unsupported


class FDict:
    """A dict whose key set is a symbolic subset of a finite concrete domain.
    present[k] is a bool-ish, value[k] the (possibly symbolic) value. Iteration
    order is unspecified; the executor forks on membership of every possible key,
    which is sound when the loop body's effect does not depend on the order
    (each key handled independently)."""

    def __init__(self, present, value):
        self.present = dict(present)
        self.value = dict(value)

    def __repr__(self):
        return f"FDict({self.present})"

    def __pyvc_contains__(self, needle):
        if isinstance(needle, str):
            return self.present.get(needle, False)
        return b_or(*[b_and(v_eq(needle, k), p) for k, p in self.present.items()])

    def __pyvc_truthy__(self):
        return b_or(*self.present.values())

    def __pyvc_method__(self, ex, name, args, kwargs, st, node):
        if name == "items":
            return [Val(FDictItems(self), st)]
        if name == "keys":
            return [Val(FDictItems(self, keys_only=True), st)]
        if name == "get":
            k = args[0]
            default = args[1] if len(args) > 1 else None
            if isinstance(k, str):
                p = self.present.get(k, False)
                return [Val(v_ite(p, self.value.get(k), default), st)]
        raise Unsupported(f"FDict.{name}")

    def __pyvc_clone__(self, memo):
        from .symexec import _clone

        r = FDict({}, {})
        memo[id(self)] = r
        r.present = dict(self.present)
        r.value = {k: _clone(v, memo) for k, v in self.value.items()}
        return r

    def __pyvc_setitem__(self, ex, idx, v, st, node):
        if not isinstance(idx, str):
            raise Unsupported("FDict symbolic key (store)")
        tgt = self
        try:  # the object of *this* state (a fork while evaluating the stored value clones the heap)
            again = ex.models._reeval_container(ex, node, st)
            if isinstance(again, FDict):
                tgt = again
        except Exception:  # noqa
            pass
        tgt.present[idx] = True
        tgt.value[idx] = v
        return [Outcome("fall", None, st)]

    def __pyvc_isinstance__(self, t):
        return t in (dict, object)

    def __pyvc_getitem__(self, ex, idx, st, node):
        if not isinstance(idx, str):
            raise Unsupported("FDict symbolic key")
        p = self.present.get(idx, False)
        t, f = ex.split(p, st)
        out = []
        if t is not None:
            out.append(Val(self.value[idx], t))
        if f is not None:
            out.append(ex.raise_(KeyError, f, idx))
        return out


class FDictItems:
    def __init__(self, d, keys_only=False):
        self.d = d
        self.keys_only = keys_only

    __pyvc_symbolic_iter__ = True

    def __pyvc_todict__(self):
        if self.keys_only:
            raise Unsupported("dict() of FDict keys")
        return FDict(dict(self.d.present), dict(self.d.value))


def for_fdict(models, ex, s, items, st):
    """for k, v in fdict.items(): fork on presence of each possible key."""
    d = items.d
    states = [st]
    outs = []
    for k in d.present:
        p = d.present[k]
        if isinstance(p, bool) and not p:
            continue
        nxt = []
        for cur in states:
            t, f = ex.split(p, cur)
            if f is not None:
                nxt.append(f)
            if t is not None:
                item = k if items.keys_only else (k, d.value[k])
                for ao in ex.assign(s.target, item, t):
                    if ao.kind != "fall":
                        outs.append(ao)
                        continue
                    for o in ex.exec_block(s.body, ao.st):
                        if o.kind in ("fall", "continue"):
                            nxt.append(o.st)
                        elif o.kind == "break":
                            raise Unsupported("break in loop over FDict")
                        else:
                            outs.append(o)
        states = nxt
    outs.extend(Outcome("fall", None, x) for x in states)
    return outs


# --------------------------------------------------------------------------- element-wise sequences
class SymMapped:
    """Result of a comprehension over a symbolic-length sequence: element-wise
    filter/map. elementwise(ex, elem, st) -> list of (state, kind, value) with kind in
    keep / drop / raise; the states extend st's path condition."""

    __pyvc_symbolic_iter__ = True

    def __init__(self, base, fn, kind="list"):
        self.base, self.fn, self.kind = base, fn, kind

    def __repr__(self):
        return f"SymMapped(over {self.base!r})"

    def elementwise(self, ex, elem, st):
        if isinstance(self.base, SymMapped):
            out = []
            for s1, k1, v1 in self.base.elementwise(ex, elem, st):
                if k1 != "keep":
                    out.append((s1, k1, v1))
                else:
                    out.extend(self.fn(ex, v1, s1))
            return out
        return self.fn(ex, elem, st)

    def root(self):
        b = self.base
        while isinstance(b, SymMapped):
            b = b.base
        return b

    def __pyvc_isinstance__(self, t):
        return t in (list, object)


INTERSECTS = None


def _intersects():
    global INTERSECTS
    if INTERSECTS is None:
        s = z3.SeqSort(z3.StringSort())
        INTERSECTS = z3.Function("set_intersects", s, s, z3.BoolSort())
    return INTERSECTS


class SymStrSet:
    """A set of strings given by the elements of a symbolic sequence (A-set:
    membership is sequence membership; `a & b` is non-empty iff set_intersects(a, b))."""

    __pyvc_symbolic_iter__ = True

    def __init__(self, seq):
        self.seq = seq  # SSeq of str

    def __repr__(self):
        return f"SymStrSet({self.seq.t})"

    def __pyvc_contains__(self, x):
        return z3.Contains(self.seq.t, z3.Unit(V.z3str(x)))

    def __pyvc_truthy__(self):
        return z3.Length(self.seq.t) > 0

    def __pyvc_len__(self):
        raise Unsupported("len of symbolic set")

    def __pyvc_binop__(self, ex, op, other, st, node):
        if op == "&" and isinstance(other, SymStrSet):
            # A-set: a non-empty intersection needs two non-empty operands
            st.assume(z3.Implies(_intersects()(self.seq.t, other.seq.t), z3.And(z3.Length(self.seq.t) > 0, z3.Length(other.seq.t) > 0)))
            return [Val(SymInter(self, other), st)]
        raise Unsupported(f"set {op}")

    def __pyvc_elem__(self, k):
        return SStr(self.seq.t[k])

    def __pyvc_eq__(self, other):
        if isinstance(other, SymStrSet):
            return self.seq.t == other.seq.t
        return False


class SymInter:
    __pyvc_symbolic_iter__ = True

    def __init__(self, a, b):
        self.a, self.b = a, b
        self.n = None

    def __pyvc_truthy__(self):
        return _intersects()(self.a.seq.t, self.b.seq.t)

    def __pyvc_elem__(self, k):
        from .symexec import fresh_name

        return V.sstr(fresh_name("inter_elem"))


# --------------------------------------------------------------------------- SymMapped as a list value
def _fresh_consts(formula, start):
    """Uninterpreted constants of `formula` created (by fresh_name) at or after counter value `start`."""
    out = {}
    seen = set()
    stack = [formula]
    while stack:
        t = stack.pop()
        if t.get_id() in seen:
            continue
        seen.add(t.get_id())
        if z3.is_app(t):
            if t.num_args() == 0 and t.decl().kind() == z3.Z3_OP_UNINTERPRETED:
                nm = t.decl().name()
                if "!" in nm:
                    tail = nm.rsplit("!", 1)[1].split(".")[0].split("?")[0]
                    if tail.isdigit() and int(tail) >= start:
                        out[nm] = t
            stack.extend(t.children())
        elif z3.is_quantifier(t):
            stack.append(t.body())
    return list(out.values())


def _sm_member(self, ex, u, st):
    """Formula: u is an element of this filtered/mapped list (identity maps only).
    Values created while evaluating the filter for u (results of callees under contract)
    are existentially closed: they depend on u."""
    from . import symexec as _se

    start = next(_se._counter)
    root = self.root()
    base = st.fork()
    n0 = len(base.pc)
    keeps = []
    for s1, kind, val in self.elementwise(ex, u, base):
        if kind == "keep":
            if not (isinstance(val, SStr) and val.t.eq(V.z3str(u))) and val is not u:
                raise Unsupported("membership in a mapped (non-identity) comprehension")
            keeps.append(z3.And(*s1.pc[n0:]) if len(s1.pc) > n0 else z3.BoolVal(True))
        elif kind == "raise":
            if not getattr(self, "no_raise", False):
                raise Unsupported("comprehension element may raise")
    inroot = z3.Contains(root.t, z3.Unit(V.z3str(u)))
    body = z3.Or(*keeps) if keeps else z3.BoolVal(False)
    fresh = _fresh_consts(body, start)
    if fresh:
        body = z3.Exists(fresh, body)
    return z3.And(inroot, body)


def _sm_truthy_setup(self, ex, st):
    from .symexec import fresh_name

    if getattr(self, "_ne", None) is None:
        ne = z3.Bool(fresh_name("nonempty"))
        w = z3.String(fresh_name("witness"))
        u = z3.String(fresh_name("u"))
        st.assume(z3.Implies(ne, _sm_member(self, ex, SStr(w), st)))
        st.assume(z3.Implies(z3.Not(ne), z3.ForAll([u], z3.Not(_sm_member(self, ex, SStr(u), st)))))
        self._ne = ne
    return self._ne


def _sm_method(self, ex, name, args, kwargs, st, node):
    if name == "sort":
        key = kwargs.get("key")
        self._sorted = (key, bool(kwargs.get("reverse", False)))
        return [Val(None, st)]
    raise Unsupported(f"list.{name} on comprehension result")


def _sm_getitem(self, ex, idx, st, node):
    """After .sort(key=K, reverse=True): element 0 is a maximal element w.r.t. K (A-sort:
    list.sort orders by the key; needs the key order to be a total preorder - C16)."""
    from .symexec import fresh_name

    srt = getattr(self, "_sorted", None)
    if srt is None or idx not in (0, -1):
        raise Unsupported("indexing an unsorted comprehension result")
    key = srt[0]
    greatest = srt[1] == (idx == 0)  # reverse-sorted: [0] is a greatest element, [-1] a least one
    m = z3.String(fresh_name("max_elem" if greatest else "min_elem"))
    u = z3.String(fresh_name("u"))
    st.assume(_sm_member(self, ex, SStr(m), st))
    le = self.key_le(ex, key, SStr(u), SStr(m), st, node) if greatest else self.key_le(ex, key, SStr(m), SStr(u), st, node)
    st.assume(z3.ForAll([u], z3.Implies(_sm_member(self, ex, SStr(u), st), le)))
    ne = _sm_truthy_setup(self, ex, st)
    t, f = ex.split(ne, st)
    out = []
    if t is not None:
        out.append(Val(SStr(m), t))
    if f is not None:
        out.append(ex.raise_(IndexError, f))
    return out


def _sm_key_le(self, ex, key, a, b, st, node):
    ra = ex.call(key, [a], {}, st.fork(), node)
    rb = ex.call(key, [b], {}, st.fork(), node)
    if len(ra) != 1 or len(rb) != 1:
        raise Unsupported("sort key forks")
    return V.to_z3_bool(V.v_cmp("<=", ra[0].v, rb[0].v))


SymMapped.member = _sm_member
SymMapped.__pyvc_method__ = _sm_method
SymMapped.__pyvc_getitem__ = _sm_getitem
SymMapped.key_le = _sm_key_le
SymMapped.__pyvc_getslice__ = lambda self, ex, sl, st, node: [Val(self, st)]
SymMapped.__pyvc_truthy_st__ = lambda self, ex, st: _sm_truthy_setup(self, ex, st)


class SymEnumerated:
    """enumerate(seq) over a symbolic-length sequence: element k is (k, seq[k])."""

    __pyvc_symbolic_iter__ = True

    def __init__(self, models, seq):
        self.models, self.seq = models, seq
        if isinstance(seq, V.SSeq):
            self.n = V.z3int(V.v_len(seq))
        else:
            self.n = getattr(seq, "n", None)

    def __pyvc_elem__(self, k):
        return (V.SInt(V.z3int(k)) if not isinstance(k, int) else k, self.models.seq_elem(self.seq, V.z3int(k)))


class SymRange:
    """range(lo, hi) with a symbolic bound: element k is lo + k, length max(hi - lo, 0)."""

    __pyvc_symbolic_iter__ = True

    def __init__(self, lo, hi):
        self.lo, self.hi = V.z3int(lo), V.z3int(hi)
        self.n = z3.If(self.hi > self.lo, self.hi - self.lo, z3.IntVal(0))

    def __pyvc_len__(self):
        return V.SInt(self.n)

    def __pyvc_elem__(self, k):
        return V.SInt(z3.simplify(self.lo + V.z3int(k)))
