"""Sidecar contracts and the per-function verification driver."""
import hashlib
import time
import traceback

import z3

from .values import *  # noqa
from . import values as V
from . import smt
from .kinds import decode_value
from .symexec import Executor, State, Val, Exc, Outcome, ExcVal, Unsupported, fresh_name, Source


class Args:
    def __init__(self, d):
        self.__dict__.update(d)

    def __getitem__(self, k):
        return self.__dict__[k]


class Ctx:
    """What a clause may look at besides arguments and result."""

    def __init__(self, st, log0):
        self.st = st
        self.log = st.log
        self.log0 = log0
        self.new = st.log[log0:]
        self.ghost = st.ghost


class Clause:
    def __init__(self, name, fn, props, internal=False):
        self.name, self.fn, self.props = name, fn, tuple(props)
        self.internal = internal  # talks about the callee's own effect log: proved on the body, not assumed by callers


class LoopSpec:
    """Cut of a loop over a symbolic sequence.
    carried: {var: Kind}; invariant(a, vars(dict), k, cx) -> bool-ish;
    seq(a, env) -> SSeq being iterated (optional, default: evaluated iterable)."""

    def __init__(self, carried, invariant, name, props=(), lemmas=None):
        self.carried, self.invariant, self.name, self.props = carried, invariant, name, tuple(props)
        self.lemmas = lemmas  # fn(a, k, st) -> definitional unfoldings of ghost functions at k


class Contract:
    def __init__(self, qualname, inline=False, variant=None):
        self.qualname = qualname
        self.variant = variant
        self.key = qualname if variant is None else f"{qualname}#{variant}"
        self.inline_callees = set()
        self.lemmas_ = []  # Clause(name, fn()): closed formulas proved once (no path condition)
        self.callee_variants = {}  # qualname -> variant: the contract variant of a callee this body is verified against
        self.on_yield = None  # generator under contract: fn(a, value, st) records a yield in ghost state
        self.prune = True
        self.params = {}
        self.requires_ = []
        self.ensures_ = []
        self.exsures_ = {}  # cls -> [Clause]
        self.assumed_ = []
        self.result_kind = None
        self.inline = inline
        self.loops = {}
        self.globals_ = {}  # (modname, attr) -> Kind
        self.effects = None  # fn(a, st, outcome) appends callee events for callers
        self.ghosts = {}
        self.setup = None  # fn(a, st) extra initialisation (ghost axioms)
        self.self_kind = None
        self.pure = True
        self.raises_any = ()  # exception classes that may escape unconditionally (callers fork)
        self.notes = []
        self.trusted = False  # contract assumed, body not verified (listed as assumption)
        self.callee_hook = None
        # clauses that talk about the callee's own effect log are proved on the body but
        # mean nothing in a caller's log: callers then see only effects + possible exceptions
        self.assume_at_call_sites = True

    # builder API
    def param(self, name, kind):
        self.params[name] = kind
        return self

    def requires(self, name, fn):
        self.requires_.append(Clause(name, fn, ()))
        return self

    def ensures(self, name, fn, props=None, internal=False):
        self.ensures_.append(Clause(name, fn, props or _props_of(name), internal))
        return self

    def lemma(self, name, fn, props=None):
        self.lemmas_.append(Clause(name, fn, props or _props_of(name), True))
        return self

    def exsures(self, cls, name=None, fn=None, props=None, internal=False):
        lst = self.exsures_.setdefault(cls, [])
        if name is not None:
            lst.append(Clause(name, fn, props or _props_of(name), internal))
        return self

    def assume_for_callers(self, name, fn):
        """A fact about the callee's result that callers may use but that is NOT proved on the
        body (an axiom about the environment); listed among the assumptions of every evidence file."""
        self.assumed_.append(Clause(name, fn, ()))
        return self

    def returns(self, kind):
        self.result_kind = kind
        return self

    def module_global(self, modname, attr, kind):
        self.globals_[(modname, attr)] = kind
        return self

    def loop(self, ordinal, spec):
        self.loops[ordinal] = spec
        return self

    def all_props(self):
        ps = set()
        for c in self.ensures_:
            ps.update(c.props)
        for lst in self.exsures_.values():
            for c in lst:
                ps.update(c.props)
        for l in self.loops.values():
            ps.update(l.props)
        for c in self.lemmas_:
            ps.update(c.props)
        return ps


def _props_of(name):
    head = name.split(".")[0]
    return tuple(p for p in head.split("+") if p.startswith("C") and p[1:].isdigit())


class Registry(dict):
    def add(self, c):
        self[c.key] = c
        return c

    def new(self, qualname, **kw):
        return self.add(Contract(qualname, **kw))


# --------------------------------------------------------------------------- obligations


class Obligation:
    def __init__(self, name, function, props, pc, cond, inputs, kind, detail=""):
        self.name, self.function, self.props = name, function, tuple(props)
        self.pc, self.cond, self.inputs, self.kind, self.detail = pc, cond, inputs, kind, detail


def discharge(ob, timeout_ms):
    cond = ob.cond
    if isinstance(cond, SBool):
        cond = cond.t
    if isinstance(cond, bool):
        if cond:
            return dict(verdict="unsat", backend="syntactic", time=0.0, model=None, model_py=None)
        q = list(ob.pc)
    else:
        q = list(ob.pc) + [z3.Not(cond)]
    verdict, model, backend, dt = smt.check(q, timeout_ms)
    m = None
    m_py = None
    if verdict == "sat":
        if model is None:
            # cvc5 said sat: ask z3 again with a longer budget for a model
            v2, model, _, dt2 = smt.check(q, timeout_ms * 3, use_cvc5=False)
            dt += dt2
        if model is not None:
            try:
                m_py = {k: decode_value(v, model) for k, v in ob.inputs.items()}
                m = {k: _jsonable(v) for k, v in m_py.items()}
            except Exception as e:  # pragma: no cover
                m = {"decode_error": repr(e)}
    return dict(verdict=verdict, backend=backend, time=dt, model=m, model_py=m_py)


def _jsonable(v):
    if isinstance(v, (str, int, bool)) or v is None:
        return v
    if hasattr(v, "_asdict"):
        return {"__namedtuple__": type(v).__name__, **{k: _jsonable(x) for k, x in v._asdict().items()}}
    if isinstance(v, dict):
        return {str(k): _jsonable(x) for k, x in v.items()}
    if isinstance(v, (list, tuple, set, frozenset)):
        return [_jsonable(x) for x in v]
    import datetime

    if isinstance(v, (datetime.date,)):
        return {"__date__": v.isoformat()}
    if isinstance(v, type):
        return v.__name__
    return repr(v)


# --------------------------------------------------------------------------- verification of one function


def make_executor(source, registry, models_cls, top=None, prune=True):
    models = models_cls(registry)
    ex = Executor(source, registry, models, solver_check=(smt.quick_feasible if prune else None))
    models.ex = ex
    ex.top = top
    return ex


def collect_obligations(source, registry, models_cls, contract, prune=True):
    """Symbolically execute the real function and return (obligations, info)."""
    fr = source.funcref(contract.qualname)
    ex = make_executor(source, registry, models_cls, top=contract.qualname, prune=(prune and contract.prune))
    ex.models.inline_ok |= set(contract.inline_callees)
    ex.models.callee_variants = dict(getattr(contract, "callee_variants", {}) or {})
    st = State()
    assumptions = []
    inputs = {}
    for p, kind in contract.params.items():
        inputs[p] = kind.fresh(p, assumptions)
    for (modname, attr), kind in contract.globals_.items():
        v = kind.fresh(f"{modname}.{attr}", assumptions)
        st.ghost.setdefault("globals", {})[(modname, attr)] = v
        inputs[f"{modname}.{attr}"] = v
    for a_ in assumptions:
        st.assume(a_)
    a = Args(inputs)
    if contract.setup:
        contract.setup(a, st)
    for cl in contract.requires_:
        st.assume(cl.fn(a))
    info = {"function": contract.qualname}
    seg, l0, l1 = source.segment(fr)
    info["file"] = fr.module.__file__
    info["lines"] = [l0, l1]
    info["sha256"] = hashlib.sha256(seg.encode()).hexdigest()
    # vacuity: the precondition must be satisfiable
    v, _, _, _ = smt.check(st.pc, 5000, want_model=False)
    info["precondition_sat"] = v
    st.ghost["loops"] = contract.loops
    st.ghost["contract"] = contract
    st.ghost["__ex__"] = ex
    st.ghost["param_objs"] = inputs  # cloned together with the frames: aliasing with locals is preserved
    st.ghost["args"] = a
    pos, kw = [], {}
    fnode = fr.node
    pnames = [x.arg for x in fnode.args.posonlyargs + fnode.args.args]
    bound_self = None
    call_kwargs = {}
    for p in contract.params:
        if p in pnames or p in [k.arg for k in fnode.args.kwonlyargs]:
            call_kwargs[p] = inputs[p]
        elif fnode.args.kwarg is not None:
            call_kwargs[p] = inputs[p]
    log0 = len(st.log)
    from .symexec import _is_generator

    if _is_generator(fr.node):
        if contract.on_yield is None:
            raise Unsupported(f"generator {contract.qualname} under contract needs on_yield")

        def consume(v, cur):
            contract.on_yield(a, v, cur)
            return [Outcome("fall", None, cur)]

        gouts = ex.run_generator(fr, [], call_kwargs, st, consume)
        outs = [Outcome("return", None, o.st) if o.kind == "fall" else o for o in gouts]
    else:
        outs = ex.run_function_raw(fr, [], call_kwargs, st)
    obs = []
    feasible_paths = 0
    kinds = {"return": 0, "raise": 0}
    for o in outs:
        kinds[o.kind] = kinds.get(o.kind, 0) + 1
        cx = Ctx(o.st, log0)
        if o.kind == "return":
            for cl in contract.ensures_:
                cond = cl.fn(a, o.value, cx)
                xin = o.st.ghost.pop("extra_inputs", None)
                obs.append(Obligation(cl.name, contract.qualname, cl.props, list(o.st.pc), cond, dict(inputs, **xin) if xin else inputs, "ensures"))
        elif o.kind == "raise":
            clauses = None
            for cls, lst in contract.exsures_.items():
                if issubclass(o.value.cls, cls):
                    clauses = lst if clauses is None else clauses + lst
            allprops = tuple(sorted(contract.all_props()))
            if clauses is None:
                obs.append(
                    Obligation(
                        f"{'+'.join(allprops) or 'X'}.{contract.qualname.split('.', 1)[1]}.raises_only",
                        contract.qualname,
                        allprops,
                        list(o.st.pc),
                        False,
                        inputs,
                        "raises_only",
                        detail=f"{o.value.cls.__name__} escapes",
                    )
                )
            else:
                for cl in clauses:
                    cond = cl.fn(a, o.value, cx)
                    obs.append(Obligation(cl.name, contract.qualname, cl.props, list(o.st.pc), cond, inputs, "exsures"))
    # path-independent lemmas (facts the clauses assume as instances): discharged once, with an empty path condition
    for cl in getattr(contract, "lemmas_", []):
        obs.append(Obligation(cl.name, contract.qualname, cl.props, [], cl.fn(), {}, "lemma"))
    for name, pc, cond, props in ex.side_obligations:
        obs.append(Obligation(name, contract.qualname, props or tuple(sorted(contract.all_props())), pc, cond, inputs, "side"))
    info["paths"] = len(outs)
    info["path_kinds"] = kinds
    info["stats"] = dict(ex.stats)
    if getattr(ex, "auto_inlined", None):
        info["auto_inlined"] = sorted(ex.auto_inlined)
    return obs, info, outs


def verify_contract(source, registry, models_cls, contract, timeout_ms=10000):
    t0 = time.time()
    try:
        obs, info, outs = collect_obligations(source, registry, models_cls, contract)
    except Unsupported as e:
        return dict(function=contract.qualname, error=str(e), results=[], info={}, wall=time.time() - t0)
    except KeyError as e:
        return dict(function=contract.qualname, error=f"MISSING {e}", results=[], info={}, wall=time.time() - t0)
    except Exception:
        return dict(function=contract.qualname, error="TRACEBACK " + traceback.format_exc(), results=[], info={}, wall=time.time() - t0)
    results = []
    # canary: at least one path must be feasible, otherwise everything is vacuous
    any_feasible = False
    for o in outs:
        v, _, _, _ = smt.check(o.st.pc, 2000, want_model=False, use_cvc5=False)
        if v != "unsat":
            any_feasible = True
            break
    info["canary_feasible_path"] = any_feasible
    for ob in obs:
        r = discharge(ob, timeout_ms)
        r.update(name=ob.name, function=ob.function, props=list(ob.props), kind=ob.kind, detail=ob.detail)
        results.append(r)
    return dict(function=contract.qualname, error=None, results=results, info=info, wall=time.time() - t0)


# --------------------------------------------------------------------------- using a contract at a call site


def apply_contract(ex, contract, fr, args, kwargs, st, node, bound_self=None):
    """Replace a call by the callee's contract. Returns list of Val/Exc."""
    ex.stats["calls_by_contract"] += 1
    env = ex.bind_args(fr, args, kwargs, bound_self)
    env.pop("__module__", None)
    env.pop("__func__", None)
    a = Args(env)
    caller = ex.top or "?"
    for cl in contract.requires_:
        cond = cl.fn(a)
        ex.side_obligations.append((f"{cl.name}@{caller.split('.')[-1]}:{getattr(node, 'lineno', 0)}", list(st.pc), cond, ()))
    if contract.callee_hook is not None:
        return contract.callee_hook(ex, a, st, node)
    if getattr(contract, "partial_hook", None) is not None:
        r = contract.partial_hook(ex, a, st, node)
        if r is not None:
            return r
    out = []
    log0 = len(st.log)
    exc_classes = list(contract.exsures_.keys())
    base = st
    for cls in exc_classes:
        s2 = base.fork()
        if contract.effects:
            contract.effects(a, s2, cls)
        if issubclass(cls, SystemExit):
            excv = ExcVal(cls, (V.sint(fresh_name("exitcode")),))
        else:
            excv = ExcVal(cls, (V.sstr(fresh_name("excmsg")),))
        cx = Ctx(s2, log0)
        if contract.assume_at_call_sites:
            for cl in contract.exsures_[cls]:
                if not cl.internal:
                    s2.assume(cl.fn(a, excv, cx))
        if ex.feasible is None or len(s2.pc) == len(base.pc) or ex.feasible(s2.pc):
            out.append(Exc(excv, s2))
    s1 = base
    n_before = len(base.pc)
    if contract.effects:
        contract.effects(a, s1, "return")
    assumptions = []
    if getattr(contract, "result_builder", None) is not None:
        res = contract.result_builder(a, fresh_name(contract.qualname.split(".")[-1]), assumptions)
    else:
        res = contract.result_kind.fresh(fresh_name(contract.qualname.split(".")[-1]), assumptions) if contract.result_kind else None
    for x in assumptions:
        s1.assume(x)
    cx = Ctx(s1, log0)
    if contract.assume_at_call_sites:
        for cl in contract.ensures_:
            if not cl.internal:
                f = cl.fn(a, res, cx)
                if f is False:
                    # a postcondition that is concretely false at a call site would silently delete the
                    # normal-return path (vacuous proofs): it is a clause about the callee's own log
                    # that must be marked internal, or a contract error
                    raise Unsupported(f"contract clause {cl.name} is concretely false at call site of {contract.qualname} (mark it internal?)")
                s1.assume(f)
    for cl in contract.assumed_:
        s1.assume(cl.fn(a, res, cx))
    # ghost record of what the callee returned (clauses of the caller may refer to it)
    s1.emit("CallResult", contract.qualname, res, a)
    if ex.feasible is None or len(s1.pc) == n_before or ex.feasible(s1.pc):
        out.append(Val(res, s1))
    return out
