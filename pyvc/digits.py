"""Decimal strings of a fixed, concrete number of digits as (n, v) pairs
(DESIGN C17): the string has exactly n characters, all digits, and denotes the
integer v, 0 <= v < 10**n.  Every operation below is linear integer
arithmetic with constant divisors.  This is the A-dec view of str/int on digit
strings; it is exact, not an approximation, for strings of that shape."""
import z3

from .values import *  # noqa
from . import values as V
from .symexec import Val, Exc, Unsupported, SliceVal
from .kinds import Kind


class DigitChar:
    """One decimal digit character; d is an int-like 0..9."""

    def __init__(self, d):
        self.d = d

    def __pyvc_eq__(self, other):
        if isinstance(other, DigitChar):
            return v_eq(self.d, other.d)
        if isinstance(other, str) and len(other) == 1 and other.isdigit():
            return v_eq(self.d, int(other))
        return False

    def __repr__(self):
        return f"DigitChar({self.d})"


class DigitStr:
    def __init__(self, n, v):
        self.n = n  # concrete int >= 1
        self.v = v  # int-like

    def __repr__(self):
        return f"DigitStr({self.n}, {self.v})"

    def digit(self, i):
        """i-th character from the left as an int-like."""
        p = 10 ** (self.n - 1 - i)
        if isinstance(self.v, int):
            return (self.v // p) % 10
        return SInt((V.z3int(self.v) / p) % 10)

    def __pyvc_len__(self):
        return self.n

    def __pyvc_truthy__(self):
        return True

    def __pyvc_eq__(self, other):
        if isinstance(other, DigitStr):
            if other.n != self.n:
                return False
            return v_eq(self.v, other.v)
        if isinstance(other, str):
            if len(other) != self.n or not other.isdigit():
                return False
            return v_eq(self.v, int(other))
        return False

    def __pyvc_cmp__(self, op, other):
        """Python's lexicographic string comparison of two digit strings, reduced to
        integer comparisons (A-dec: on equal-length digit strings the lexical order
        is the numeric order; a shorter string is compared with the equally long
        prefix of the longer one, a proper prefix being smaller). Conformance-tested
        exhaustively against CPython for lengths <= 3 in pyvc/selftest.py."""
        if isinstance(other, str):
            if not other.isdigit():
                raise TypeError("compare DigitStr with non-digit string")
            other = DigitStr(len(other), int(other))
        if not isinstance(other, DigitStr):
            raise TypeError("compare DigitStr")
        n, m = self.n, other.n
        if n == m:
            return v_cmp(op, self.v, other.v)
        if n < m:
            pb = _floordiv(other.v, 10 ** (m - n))
            if op in ("<", "<="):
                return v_cmp("<=", self.v, pb)
            return v_cmp(">", self.v, pb)
        pa = _floordiv(self.v, 10 ** (n - m))
        if op in (">", ">="):
            return v_cmp(">=", pa, other.v)
        return v_cmp("<", pa, other.v)

    def __pyvc_getitem__(self, ex, idx, st, node):
        if isinstance(idx, int) and -self.n <= idx < self.n:
            return [Val(DigitChar(self.digit(idx % self.n)), st)]
        raise Unsupported("DigitStr index")

    def __pyvc_method__(self, ex, name, args, kwargs, st, node):
        if name == "count" and args == ["9"] or (name == "count" and len(args) == 1 and args[0] == "9"):
            c = 0
            for i in range(self.n):
                c = v_arith("+", c, v_ite(v_eq(self.digit(i), 9), 1, 0))
            return [Val(c, st)]
        if name == "isdigit":
            return [Val(True, st)]
        raise Unsupported(f"DigitStr.{name}")

    def __pyvc_rbinop__(self, ex, op, other, st, node):
        # "text" + digit string: only used to build messages; the text is not tracked
        from .symexec import fresh_name

        if op == "+":
            return [Val(V.sstr(fresh_name("msg")), st)]
        raise Unsupported("DigitStr operator")

    __pyvc_binop__ = __pyvc_rbinop__

    def __pyvc_isinstance__(self, t):
        return t in (str, object)


def _floordiv(v, p):
    if isinstance(v, int):
        return v // p
    return SInt(V.z3int(v) / p)


def int_to_digitstr_cases(ex, val, st, width=0, max_digits=45):
    """str(val) / zero-padded format of a symbolic non-negative int: fork on the
    digit count so that every result has a concrete length. Returns Val list."""
    out = []
    vt = V.z3int(val)
    cur = st
    neg, cur = ex.split(vt < 0, cur, strong=True)
    if neg is not None:
        raise Unsupported("digit string of a possibly negative integer")
    for k in range(max(1, width), max_digits + 1):
        if cur is None:
            break
        hi = 10 ** k
        t, cur = ex.split(vt < hi, cur, strong=True)
        if t is not None:
            out.append(Val(DigitStr(max(k, width), val), t))
    if cur is not None:
        raise Unsupported(f"digit string longer than {max_digits} digits")
    return out


class KDigitStr(Kind):
    def __init__(self, n):
        self.n = n

    def fresh(self, name, assumptions):
        v = z3.Int(name + ".val")
        assumptions.append(v >= 0)
        assumptions.append(v < 10 ** self.n)
        return DigitStr(self.n, SInt(v))
