"""./check <Cxx> [--tier quick|thorough] [--replay <path>]

Exit codes (DESIGN 1.5): 0 held / 1 violation / 2 undecided / 3 checker error.
"""
import argparse
import importlib
import json
import multiprocessing as mp
import os
import sys
import time
import traceback

VERIF = os.path.dirname(os.path.dirname(os.path.abspath(__file__)))
sys.path.insert(0, VERIF)
# the tree under verification: /repo/src unless a scratch copy is named (mutant self-test)
SRC_ROOT = os.environ.get("BUMPVER_SRC", "/repo/src")
while SRC_ROOT in sys.path:
    sys.path.remove(SRC_ROOT)
sys.path.insert(0, SRC_ROOT)


def load_registry():
    import contracts  # noqa: F401  (imports every sidecar)
    from contracts.common import REG

    return REG


def contracts_for(reg, prop, tier):
    out = []
    for key, c in reg.items():
        if prop in c.all_props():
            if getattr(c, "tier", "quick") == "thorough" and tier != "thorough":
                continue
            if c.trusted:
                continue
            if getattr(c, "body_not_verified", False):
                continue
            out.append(key)
    return out


def load_known_findings():
    path = os.path.join(VERIF, "known_findings.jsonl")
    out = []
    if os.path.exists(path):
        for line in open(path):
            line = line.strip()
            if not line or line.startswith("#") or line.startswith("fixed:"):
                continue
            out.append(json.loads(line))
    return out


def _worker(task):
    key, shard, nshards, timeout_ms, prop, known = task
    t0 = time.time()
    try:
        from pyvc.symexec import Source
        from pyvc.models import Models
        from pyvc import contracts as C, smt
        from pyvc.replay import replay_obligation

        reg = load_registry()
        src = Source()
        contract = reg[key]
        try:
            obs, info, outs = C.collect_obligations(src, reg, Models, contract)
        except C.Unsupported as e:
            return dict(key=key, shard=shard, error=str(e), results=[], info={}, wall=time.time() - t0)
        except KeyError as e:
            return dict(key=key, shard=shard, error=f"MISSING {e}", results=[], info={}, wall=time.time() - t0)
        any_feasible = False
        for o in outs:
            v, _, _, _ = smt.check(o.st.pc, 2000, want_model=False, use_cvc5=False)
            if v != "unsat":
                any_feasible = True
                break
        info["canary_feasible_path"] = any_feasible
        # vacuity guard against contracts/EXPECTED.json (recorded on the unchanged tree): a function
        # that had normal-return paths must still have some, and must still produce obligations
        try:
            exp = json.load(open(os.path.join(VERIF, "contracts", "EXPECTED.json"))).get(key)
        except Exception:
            exp = None
        nret = sum(1 for o in outs if o.kind == "return")
        info["returns"] = nret
        if exp and "error" not in exp:
            if exp["returns"] > 0 and nret == 0:
                info["vacuous"] = f"no normal-return path (EXPECTED.json records {exp['returns']})"
            if exp["obligations"] > 0 and len(obs) == 0:
                info["vacuous"] = "no obligations generated"
        results = []
        status = {}  # obligation name -> [n_sat, n_unknown]
        for i, ob in enumerate(obs):
            if i % nshards != shard:
                continue
            if prop not in ob.props:
                continue
            stt = status.setdefault(ob.name, [0, 0])
            if stt[0] >= 1 or stt[1] >= 3:
                # already refuted (or repeatedly undecided) on another path: further paths of the same
                # clause cannot change the verdict of this obligation; skip them to bound the run time
                results.append(dict(verdict="sat" if stt[0] else "unknown", backend="skipped", time=0.0, model=None, name=ob.name, function=contract.key, props=list(ob.props), kind=ob.kind, detail="skipped: clause already " + ("refuted" if stt[0] else "undecided") + " on another path", replay=dict(reproduced=False, note="skipped")))
                continue
            r = C.discharge(ob, timeout_ms)
            if r["verdict"] == "sat":
                stt[0] += 1
            elif r["verdict"] == "unknown":
                stt[1] += 1
            r.update(name=ob.name, function=contract.key, props=list(ob.props), kind=ob.kind, detail=ob.detail)
            if r["verdict"] == "sat":
                # known finding? re-prove with the witness class excluded
                for kf in known:
                    if (kf.get("obligation") == ob.name or ob.name in kf.get("obligations", [])) and kf.get("property") == prop and kf.get("exclusion"):
                        excl = getattr(importlib.import_module(kf["exclusion_module"]), kf["exclusion"])
                        from pyvc.contracts import Args, Obligation
                        import z3
                        from pyvc.values import to_z3_bool, b_not

                        extra = to_z3_bool(b_not(excl(Args(ob.inputs))))
                        ob2 = Obligation(ob.name, ob.function, ob.props, list(ob.pc) + [extra], ob.cond, ob.inputs, ob.kind, ob.detail)
                        r2 = C.discharge(ob2, timeout_ms)
                        r["known_finding"] = kf["id"]
                        r["verdict_excluding_known"] = r2["verdict"]
                        if r2["verdict"] == "sat":
                            r["model"] = r2["model"]
                            r["known_finding"] = None
                        break
                try:
                    r["replay"] = replay_obligation(src, reg, contract, ob, r)
                except Exception:
                    r["replay"] = dict(reproduced=False, error=traceback.format_exc())
            results.append(r)
        return dict(key=key, shard=shard, error=None, results=results, info=info, wall=time.time() - t0, smt=dict(smt.STATS), nobs=len(obs))
    except Exception:
        return dict(key=key, shard=shard, error="TRACEBACK " + traceback.format_exc(), results=[], info={}, wall=time.time() - t0)


def run_python_checks(prop, tier, seed):
    """X (exhaustive) and B (bounded) layers written as plain Python in checks/cXX.py."""
    modname = f"checks.{prop.lower()}"
    try:
        mod = importlib.import_module(modname)
    except ModuleNotFoundError as e:
        if e.name == modname:
            return []
        raise
    return mod.run(tier=tier, seed=seed)


def main(argv=None):
    ap = argparse.ArgumentParser()
    ap.add_argument("prop")
    ap.add_argument("--tier", default=os.environ.get("VERIF_TIER", "quick"))
    ap.add_argument("--replay", default=None)
    ap.add_argument("--jobs", type=int, default=int(os.environ.get("VERIF_JOBS", "16")))
    args = ap.parse_args(argv)
    prop = args.prop
    tier = args.tier if args.tier in ("quick", "thorough") else "quick"
    seed = int(os.environ.get("VERIF_SEED", "0") or 0)
    t0 = time.time()
    if args.replay:
        from pyvc.replay import replay_file

        return replay_file(args.replay)
    try:
        from pyvc import report

        reg = load_registry()
        keys = contracts_for(reg, prop, tier)
        known = [k for k in load_known_findings() if k.get("property") == prop]
        timeout_ms = 10000 if tier == "quick" else 60000
        tasks = []
        for k in keys:
            n = getattr(reg[k], "shards", 1)
            for sh in range(n):
                tasks.append((k, sh, n, timeout_ms, prop, known))
        # long tasks first
        tasks.sort(key=lambda t: -getattr(reg[t[0]], "cost", 1))
        ctx = mp.get_context("fork")
        with ctx.Pool(min(args.jobs, max(1, len(tasks)))) as pool:
            presults = pool.map(_worker, tasks, chunksize=1) if tasks else []
        py_results = run_python_checks(prop, tier, seed)
        return report.finish(prop, tier, seed, reg, keys, presults, py_results, known, time.time() - t0)
    except Exception:
        print(f"CHECKER-ERROR property={prop} " + traceback.format_exc().replace("\n", " | "))
        return 3


if __name__ == "__main__":
    sys.exit(main())
