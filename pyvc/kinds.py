"""Kinds: factories of fresh symbolic values and decoders of solver models."""
import z3

from .values import *  # noqa
from . import values as V


class Kind:
    def fresh(self, name, assumptions):
        raise NotImplementedError

    def decode(self, v, model):
        return decode_value(v, model)


class KInt(Kind):
    def __init__(self, ge=None, le=None):
        self.ge, self.le = ge, le

    def fresh(self, name, assumptions):
        t = z3.Int(name)
        if self.ge is not None:
            assumptions.append(t >= self.ge)
        if self.le is not None:
            assumptions.append(t <= self.le)
        return SInt(t)


class KBool(Kind):
    def fresh(self, name, assumptions):
        return SBool(z3.Bool(name))


class KStr(Kind):
    def __init__(self, nonempty=False):
        self.nonempty = nonempty

    def fresh(self, name, assumptions):
        t = z3.String(name)
        if self.nonempty:
            assumptions.append(z3.Length(t) > 0)
        return SStr(t)


class KOpt(Kind):
    def __init__(self, inner):
        self.inner = inner

    def fresh(self, name, assumptions):
        return SOpt(z3.Bool(name + "?none"), self.inner.fresh(name, assumptions))


class KConst(Kind):
    def __init__(self, v):
        self.v = v

    def fresh(self, name, assumptions):
        return self.v


class KEnum(Kind):
    """One of a finite list of concrete values."""

    def __init__(self, domain):
        self.domain = tuple(domain)

    def fresh(self, name, assumptions):
        if len(self.domain) == 1:
            return self.domain[0]
        i = z3.Int(name + "#")
        assumptions.append(i >= 0)
        assumptions.append(i < len(self.domain))
        return SEnum(i, self.domain)


class KRec(Kind):
    def __init__(self, cls, fields):
        self.cls = cls
        self.fields = fields  # name -> Kind, in cls._fields order

    def fresh(self, name, assumptions):
        return SRec(self.cls, {f: self.fields[f].fresh(f"{name}.{f}", assumptions) for f in self.cls._fields})


class KSeq(Kind):
    def __init__(self, elem):
        self.elem = elem  # 'int' | 'str'

    def fresh(self, name, assumptions):
        sort = z3.SeqSort(z3.StringSort()) if self.elem == "str" else z3.SeqSort(z3.IntSort())
        return SSeq(z3.Const(name, sort), self.elem)


class KList(Kind):
    """Concrete-length list of values of a kind."""

    def __init__(self, elem, n):
        self.elem, self.n = elem, n

    def fresh(self, name, assumptions):
        return [self.elem.fresh(f"{name}[{i}]", assumptions) for i in range(self.n)]


class KTuple(Kind):
    def __init__(self, *elems):
        self.elems = elems

    def fresh(self, name, assumptions):
        return tuple(k.fresh(f"{name}[{i}]", assumptions) for i, k in enumerate(self.elems))


class KOpaque(Kind):
    def __init__(self, sort):
        self.sort = sort

    def fresh(self, name, assumptions):
        return SOpaque(self.sort, z3.Const(name, V.opaque_sort(self.sort)))


class KObj(Kind):
    def __init__(self, cls, attrs):
        self.cls, self.attrs = cls, attrs

    def fresh(self, name, assumptions):
        from .symexec import SObj

        return SObj(self.cls, {a: k.fresh(f"{name}.{a}", assumptions) for a, k in self.attrs.items()})


def _ev(model, t):
    return model.eval(t, model_completion=True)


def decode_value(v, model):
    """Concrete Python value of a (possibly symbolic) value under a z3 model."""
    from .symexec import SObj

    if isinstance(v, SInt):
        return _ev(model, v.t).as_long()
    if isinstance(v, SBool):
        return z3.is_true(_ev(model, v.t))
    if isinstance(v, z3.BoolRef):
        return z3.is_true(_ev(model, v))
    if isinstance(v, SStr):
        return _ev(model, v.t).as_string() if not hasattr(_ev(model, v.t), "py_value") else _pystr(_ev(model, v.t))
    if isinstance(v, SOpt):
        if z3.is_true(_ev(model, v.isnone)):
            return None
        return decode_value(v.val, model)
    if isinstance(v, SEnum):
        return v.domain[_ev(model, v.idx).as_long()]
    if isinstance(v, SGuard):
        for g, x in v.alts:
            if decode_value(g if not isinstance(g, bool) else g, model) if not isinstance(g, bool) else g:
                return decode_value(x, model)
        return None
    if isinstance(v, SRec):
        return v.cls(**{k: decode_value(x, model) for k, x in v.fields.items()})
    if isinstance(v, SSeq):
        e = _ev(model, v.t)
        return _decode_seq(e, v.elem)
    if isinstance(v, SObj):
        return ("obj", v.cls.__name__, {k: decode_value(x, model) for k, x in v.attrs.items()})
    if type(v).__name__ == "PathVal" and hasattr(v, "s"):
        import pathlib

        return pathlib.Path(decode_value(v.s, model))
    if isinstance(v, SOpaque):
        return f"<{v.sort}:{_ev(model, v.t)}>"
    from .digits import DigitStr, DigitChar

    if isinstance(v, DigitStr):
        return str(decode_value(v.v, model)).zfill(v.n)
    if isinstance(v, DigitChar):
        return str(decode_value(v.d, model))
    if hasattr(v, "__pyvc_decode__"):
        return v.__pyvc_decode__(model, decode_value)
    if isinstance(v, list):
        return [decode_value(x, model) for x in v]
    if isinstance(v, tuple):
        return tuple(decode_value(x, model) for x in v)
    if isinstance(v, dict):
        return {decode_value(k, model): decode_value(x, model) for k, x in v.items()}
    if isinstance(v, set):
        return {decode_value(x, model) for x in v}
    return v


def _pystr(e):
    try:
        s = e.as_string()
    except Exception:
        return str(e)
    # z3 escapes non-printables as \u{..}
    import re

    return re.sub(r"\\u\{([0-9a-fA-F]+)\}", lambda m: chr(int(m.group(1), 16)), s)


def _decode_seq(e, elem):
    out = []

    def walk(t):
        if t.decl().kind() == z3.Z3_OP_SEQ_CONCAT:
            for c in t.children():
                walk(c)
        elif t.decl().kind() == z3.Z3_OP_SEQ_UNIT:
            c = t.children()[0]
            out.append(c.as_long() if elem == "int" else _pystr(c))
        elif t.decl().kind() == z3.Z3_OP_SEQ_EMPTY:
            pass
        else:
            s = str(t)
            if s not in ('""', "Empty(Seq(Int))", "Empty(Seq(String))"):
                out.append(s)

    walk(e)
    return out
