"""Models of Python builtins, library primitives (A-* axioms of DESIGN 1.4) and
dispatch of calls (contract / inline / model / concrete evaluation)."""
import ast
import builtins
import enum
import io
import os
import sys
import types
import typing
import subprocess
import datetime as dt

import z3

from .values import *  # noqa
from . import values as V
from .symexec import (
    Val,
    Exc,
    Outcome,
    ExcVal,
    FuncRef,
    BoundMethod,
    SObj,
    Lambda,
    GenCall,
    SliceVal,
    StarArg,
    Unsupported,
    State,
    fresh_name,
    _is_generator,
)
from .contracts import apply_contract, Ctx


class MethodOf:
    def __init__(self, obj, name):
        self.obj, self.name = obj, name

    def __repr__(self):
        return f"MethodOf({self.obj!r}.{self.name})"


class PathVal:
    """pathlib.Path value; s is the path string (concrete or SStr)."""

    def __init__(self, s):
        self.s = s

    def __repr__(self):
        return f"PathVal({self.s!r})"

    def __pyvc_eq__(self, other):
        if isinstance(other, PathVal):
            return v_eq(self.s, other.s)
        return False


class FileVal:
    def __init__(self, path, mode, kwargs):
        self.path, self.mode, self.kwargs = path, mode, kwargs


class ModuleGlobal:
    pass


def is_namedtuple_class(c):
    return isinstance(c, type) and issubclass(c, tuple) and hasattr(c, "_fields")


# uninterpreted functions shared by the models
FS_EXISTS = z3.Function("fs_exists", z3.StringSort(), z3.IntSort(), z3.BoolSort())
FS_CONTENT = z3.Function("fs_content", z3.StringSort(), z3.IntSort(), z3.StringSort())
STR_OF_INT = z3.IntToStr
LOWER = z3.Function("py_lower", z3.StringSort(), z3.StringSort())
STRIP_WS = z3.Function("py_strip", z3.StringSort(), z3.StringSort())


def fs_version(st):
    return sum(1 for e in st.log if e and e[0] == "Write")


EXTRA_FN_MODELS = {}
SYM_UNWIND = 16


class GenList(list):
    """What a generator expression / iter(...) would yield, as a list that `next` may consume."""


def _plain(v):
    """Only ordinary Python data (no model objects): concrete evaluation, including its exceptions, is the program's."""
    import datetime as _dt

    if v is None or isinstance(v, (str, bytes, int, float, bool, enum.Enum, _dt.date, type, types.FunctionType, types.BuiltinFunctionType)):
        return True
    if isinstance(v, (list, tuple, set, frozenset)):
        return all(_plain(x) for x in v)
    if isinstance(v, dict):
        return all(_plain(k) and _plain(x) for k, x in v.items())
    if isinstance(v, (range, type({}.items()), type({}.keys()), type({}.values()))):
        return True
    return False


class Models:
    PURE_CONCRETE = {
        len, int, str, bool, sorted, min, max, abs, sum, any, all, list, tuple, dict, set, frozenset, repr,
        isinstance, issubclass, enumerate, zip, range, reversed, map, filter, getattr, hasattr, iter, next, ord, chr,
    }

    def __init__(self, registry):
        self.registry = registry
        self.ex = None
        self.inline_ok = set()
        self.fn_models = {}
        self.install_default_models()
        self.fn_models.update(EXTRA_FN_MODELS)  # library functions / classes given a callers' view by a sidecar contract

    # ------------------------------------------------------------------ attribute access
    def getattr(self, ex, obj, attr, st, node):
        if isinstance(obj, (SGuard, SEnum)):
            alts = []
            outs = []
            for g, x in V.as_guards(obj):
                for r in self.getattr(ex, x, attr, st, node):
                    if isinstance(r, Exc):
                        raise Unsupported("getattr on guarded value raised")
                    alts.append((g, r.v))
            try:
                return [Val(V.merge_alts(alts), st)]
            except Exception:
                return [Val(SGuard(alts), st)]
        if isinstance(obj, SRec):
            if attr in obj.fields:
                return [Val(obj.fields[attr], st)]
            if attr in ("_replace", "_asdict"):
                return [Val(MethodOf(obj, attr), st)]
            if attr == "_fields":
                return [Val(obj.cls._fields, st)]
            ex.unsupported(node, f"record attr {attr}")
        if isinstance(obj, types.ModuleType):
            ov = st.ghost.get("globals", {}).get((obj.__name__, attr))
            if ov is not None:
                return [Val(ov, st)]
            if not hasattr(obj, attr):
                return [ex.raise_(AttributeError, st, attr)]
            return [Val(ex.wrap_global(getattr(obj, attr), obj, attr), st)]
        if isinstance(obj, SObj):
            if attr in obj.attrs:
                return [Val(obj.attrs[attr], st)]
            raw = None
            for k in obj.cls.__mro__:
                if attr in vars(k):
                    raw = vars(k)[attr]
                    break
            if isinstance(raw, property):
                fr = ex.src.funcref(f"{obj.cls.__module__}.{obj.cls.__qualname__}.{attr}")
                return self.call_repo(ex, fr, [], {}, st, node, bound_self=obj)
            if isinstance(raw, types.FunctionType):
                fr = ex.src.funcref(f"{raw.__module__}.{raw.__qualname__}")
                return [Val(BoundMethod(obj, fr), st)]
            ex.unsupported(node, f"object attr {attr}")
        if isinstance(obj, ExcVal):
            if attr == "args":
                return [Val(obj.args, st)]
            if attr in obj.attrs:
                return [Val(obj.attrs[attr], st)]
            if attr == "errno":
                v = V.sint(fresh_name("exc.errno"))
                obj.attrs[attr] = v
                return [Val(v, st)]
            v = SOpt(z3.Bool(fresh_name("exc." + attr + "?none")), V.sstr(fresh_name("exc." + attr)))
            obj.attrs[attr] = v
            return [Val(v, st)]
        if isinstance(obj, SOpaque):
            if attr in obj.attrs:
                return [Val(obj.attrs[attr], st)]
            return [Val(MethodOf(obj, attr), st)]
        if isinstance(obj, PathVal):
            if attr == "name":
                return [Val(self.path_name(obj), st)]
            return [Val(MethodOf(obj, attr), st)]
        if isinstance(obj, FileVal):
            if attr == "name":
                return [Val(obj.path.s, st)]
            return [Val(MethodOf(obj, attr), st)]
        if isinstance(obj, (str, SStr, list, dict, set, frozenset, SSeq, tuple)) and not is_namedtuple_class(type(obj)):
            return [Val(MethodOf(obj, attr), st)]
        if isinstance(obj, SOpt):
            # attribute access on an optional: None raises AttributeError
            t, f = ex.split(obj.isnone, st)
            out = []
            if t is not None:
                out.append(ex.raise_(AttributeError, t, attr))
            if f is not None:
                out.extend(self.getattr(ex, obj.val, attr, f, node))
            return out
        if isinstance(obj, enum.Enum):
            return [Val(getattr(obj, attr), st)]
        if hasattr(obj, "__pyvc_method__"):
            if attr in getattr(obj, "__dict__", {}) and not attr.startswith("_"):
                return [Val(obj.__dict__[attr], st)]
            return [Val(MethodOf(obj, attr), st)]
        if obj is None:
            return [ex.raise_(AttributeError, st, attr)]
        # concrete python objects (classes, namedtuple instances, dates, functions)
        if hasattr(obj, attr):
            v = getattr(obj, attr)
            if isinstance(v, types.MethodType) and not isinstance(obj, type):
                return [Val(MethodOf(obj, attr), st)]
            if isinstance(v, types.BuiltinMethodType) and not isinstance(obj, (type, types.ModuleType)):
                return [Val(MethodOf(obj, attr), st)]
            return [Val(v, st)]
        ex.unsupported(node, f"getattr({obj!r}, {attr})")

    def path_name(self, p):
        if isinstance(p.s, str):
            return os.path.basename(p.s)
        raise Unsupported("Path.name on symbolic path")

    # ------------------------------------------------------------------ subscripts
    def getitem(self, ex, obj, idx, st, node):
        if isinstance(obj, SOpt):
            obj = obj.val
        if isinstance(obj, (SGuard, SEnum)) or isinstance(idx, (SGuard, SEnum)):
            # split per alternative (raising alternatives handled per alternative)
            out = []
            if isinstance(idx, (SGuard, SEnum)) and isinstance(obj, dict):
                alts = []
                miss = []
                for g, k in V.as_guards(idx):
                    if k in obj:
                        alts.append((g, obj[k]))
                    else:
                        miss.append(g)
                if miss:
                    t, f = ex.split(b_or(*miss), st)
                    if t is not None:
                        out.append(ex.raise_(KeyError, t, idx))
                    st = f
                if st is not None and alts:
                    out.append(Val(V.merge_alts(alts), st))
                return out
            for g, o in V.as_guards(obj):
                for g2, i in V.as_guards(idx):
                    s2 = st.fork()
                    s2.assume(b_and(g, g2))
                    if ex.feasible is None or ex.feasible(s2.pc):
                        out.extend(self.getitem(ex, o, i, s2, node))
            return out
        if isinstance(idx, SliceVal):
            return self.getslice(ex, obj, idx, st, node)
        if isinstance(obj, dict):
            if V.contains_sym(idx):
                if isinstance(idx, SStr):
                    # symbolic key over concrete str keys
                    keys = [k for k in obj if isinstance(k, str)]
                    hit = b_or(*[idx.t == z3.StringVal(k) for k in keys])
                    t, f = ex.split(hit, st)
                    out = []
                    if t is not None:
                        out.append(Val(V.merge_alts([(idx.t == z3.StringVal(k), obj[k]) for k in keys]), t))
                    if f is not None:
                        out.append(ex.raise_(KeyError, f, idx))
                    return out
                ex.unsupported(node, "symbolic dict key")
            if idx in obj:
                return [Val(obj[idx], st)]
            return [ex.raise_(KeyError, st, idx)]
        if isinstance(obj, SRec):
            obj = tuple(obj.fields.values())
        if isinstance(obj, (list, tuple)):
            if isinstance(idx, int):
                if -len(obj) <= idx < len(obj):
                    return [Val(obj[idx], st)]
                return [ex.raise_(IndexError, st)]
            if isinstance(idx, SInt):
                n = len(obj)
                inb = z3.And(idx.t >= 0, idx.t < n)
                t, f = ex.split(inb, st)
                out = []
                if t is not None and n:
                    out.append(Val(V.merge_alts([(idx.t == i, obj[i]) for i in range(n)]), t))
                if f is not None:
                    neg = z3.And(idx.t < 0, idx.t >= -n)
                    t2, f2 = ex.split(neg, f)
                    if t2 is not None:
                        out.append(Val(V.merge_alts([(idx.t == i - n, obj[i]) for i in range(n)]), t2))
                    if f2 is not None:
                        out.append(ex.raise_(IndexError, f2))
                return out
        if isinstance(obj, (str, SStr)):
            if isinstance(obj, str) and isinstance(idx, int):
                if -len(obj) <= idx < len(obj):
                    return [Val(obj[idx], st)]
                return [ex.raise_(IndexError, st)]
            s = V.z3str(obj)
            i = V.z3int(idx)
            n = z3.Length(s)
            out = []
            t, f = ex.split(z3.And(i >= 0, i < n), st)
            if t is not None:
                out.append(Val(SStr(z3.SubString(s, i, 1)), t))
            if f is not None:
                t2, f2 = ex.split(z3.And(i < 0, i >= -n), f)
                if t2 is not None:
                    out.append(Val(SStr(z3.SubString(s, n + i, 1)), t2))
                if f2 is not None:
                    out.append(ex.raise_(IndexError, f2))
            return out
        if isinstance(obj, SSeq):
            i = V.z3int(idx)
            n = z3.Length(obj.t)
            t, f = ex.split(z3.And(i >= 0, i < n), st)
            out = []
            if t is not None:
                e = obj.t[i]
                out.append(Val(SStr(e) if obj.elem == "str" else SInt(e), t))
            if f is not None:
                out.append(ex.raise_(IndexError, f))
            return out
        if hasattr(obj, "__pyvc_getitem__"):
            return obj.__pyvc_getitem__(ex, idx, st, node)
        if not V.contains_sym(obj) and not V.contains_sym(idx):
            try:
                return [Val(obj[idx], st)]
            except (KeyError, IndexError) as e:
                return [ex.raise_(type(e), st)]
        ex.unsupported(node, f"getitem {obj!r}[{idx!r}]")

    def getslice(self, ex, obj, sl, st, node):
        if sl.step is not None:
            ex.unsupported(node, "slice step")
        lo, hi = sl.lo, sl.hi
        if isinstance(obj, (list, tuple)) or (isinstance(obj, str) and not V.contains_sym(lo) and not V.contains_sym(hi)):
            if V.contains_sym(lo) or V.contains_sym(hi):
                ex.unsupported(node, "symbolic slice of concrete list")
            return [Val(obj[lo:hi], st)]
        if isinstance(obj, (str, SStr)):
            s = V.z3str(obj)
            n = z3.Length(s)

            def norm(x, default):
                if x is None:
                    return default
                xi = V.z3int(x)
                if isinstance(x, int):
                    if x >= 0:
                        return z3.If(xi > n, n, xi)
                    return z3.If(n + xi < 0, z3.IntVal(0), n + xi)
                return z3.If(xi < 0, z3.If(n + xi < 0, z3.IntVal(0), n + xi), z3.If(xi > n, n, xi))

            a = norm(lo, z3.IntVal(0))
            b = norm(hi, n)
            ln = z3.If(b - a < 0, z3.IntVal(0), b - a)
            return [Val(SStr(z3.SubString(s, a, ln)), st)]
        if isinstance(obj, SSeq):
            n = z3.Length(obj.t)
            if lo is None and hi is None:
                return [Val(obj, st)]
            a = z3.IntVal(0) if lo is None else V.z3int(lo)
            b = n if hi is None else V.z3int(hi)
            if (lo is not None and not (isinstance(lo, int) and lo >= 0)) or (hi is not None and not (isinstance(hi, int) and hi >= 0)):
                ex.unsupported(node, "symbolic/negative slice bounds on symbolic sequence")
            a2 = z3.If(a > n, n, a)
            b2 = z3.If(b > n, n, b)
            ln = z3.If(b2 - a2 < 0, z3.IntVal(0), b2 - a2)
            return [Val(SSeq(z3.Extract(obj.t, a2, ln), obj.elem), st)]
        if hasattr(obj, "__pyvc_getslice__"):
            return obj.__pyvc_getslice__(ex, sl, st, node)
        ex.unsupported(node, f"slice of {obj!r}")

    def setitem(self, ex, obj, idx, v, st, node):
        if isinstance(obj, dict):
            if isinstance(idx, (SGuard, SEnum)):
                # finite-domain key: guarded update of every possible key
                for g, k in V.as_guards(idx):
                    if k in obj:
                        obj[k] = v_ite(g, v, obj[k])
                    else:
                        raise Unsupported("guarded insertion of new dict key")
                return [Outcome("fall", None, st)]
            if V.contains_sym(idx):
                ex.unsupported(node, "symbolic dict key store")
            obj[idx] = v
            return [Outcome("fall", None, st)]
        if isinstance(obj, list):
            if isinstance(idx, int):
                if -len(obj) <= idx < len(obj):
                    obj[idx] = v
                    return [Outcome("fall", None, st)]
                return [Outcome("raise", ExcVal(IndexError, ()), st)]
            if isinstance(idx, SInt):
                n = len(obj)
                t, f = ex.split(z3.And(idx.t >= 0, idx.t < n), st)
                out = []
                if t is not None:
                    # need the list object inside t (cloned if forked): re-evaluate target container
                    tgt = self._reeval_container(ex, node, t)
                    for i in range(n):
                        tgt[i] = v_ite(idx.t == i, v, tgt[i])
                    out.append(Outcome("fall", None, t))
                if f is not None:
                    out.append(Outcome("raise", ExcVal(IndexError, ()), f))
                return out
        if hasattr(obj, "__pyvc_setitem__"):
            return obj.__pyvc_setitem__(ex, idx, v, st, node)
        ex.unsupported(node, f"setitem on {obj!r}")

    def _reeval_container(self, ex, node, st):
        rs = ex.eval(node.value, st)
        if len(rs) != 1 or not isinstance(rs[0], Val):
            raise Unsupported("container re-evaluation forked")
        return rs[0].v

    # ------------------------------------------------------------------ operators
    def binop(self, ex, op, a, b, st, node):
        if op in ("|", "&", "-") and isinstance(a, (set, frozenset)) and isinstance(b, (set, frozenset, type({}.keys()))):
            if V.contains_sym(a) or V.contains_sym(b):
                ex.unsupported(node, "symbolic set algebra")
            return [Val({"|": a | b, "&": a & b, "-": a - b}[op], st)]
        if hasattr(a, "__pyvc_binop__"):
            return a.__pyvc_binop__(ex, op, b, st, node)
        if hasattr(b, "__pyvc_rbinop__"):
            return b.__pyvc_rbinop__(ex, op, a, st, node)
        if op == "/" and isinstance(a, PathVal):
            return [Val(PathVal(self.path_join(a.s, b)), st)]
        if op == "%" and isinstance(a, str):
            ex.unsupported(node, "%-formatting")
        # None in arithmetic => TypeError
        for x in (a, b):
            if x is None:
                return [ex.raise_(TypeError, st)]
        out = []
        cur = st
        for x in (a, b):
            if isinstance(x, SOpt):
                t, f = ex.split(x.isnone, cur)
                if t is not None:
                    out.append(ex.raise_(TypeError, t))
                cur = f
                if cur is None:
                    return out
        try:
            out.append(Val(v_arith(op, a, b), cur))
        except TypeError as e:
            ex.unsupported(node, str(e))
        return out

    def path_join(self, a, b):
        if isinstance(b, PathVal):
            b = b.s
        if isinstance(a, str) and isinstance(b, str):
            return os.path.join(a, b)
        if isinstance(a, str) and a in ("", "."):
            return b
        return v_arith("+", v_arith("+", a, "/"), b)

    def is_bool_identity(self, a, b):
        # `x is False` / `x is True` on tri-state values
        if isinstance(b, bool):
            a, b = b, a
        # a is the concrete bool
        if isinstance(b, bool):
            return a is b
        if b is None:
            return False
        if isinstance(b, SBool):
            return b.t if a else z3.Not(b.t)
        if isinstance(b, SOpt) and V.kind_of(b.val) == "bool":
            inner = V.to_z3_bool(b.val)
            return z3.And(z3.Not(b.isnone), inner if a else z3.Not(inner))
        return False

    # ------------------------------------------------------------------ formatting
    def format_value(self, ex, v, spec, conversion, st):
        if conversion not in (-1, None):
            raise Unsupported("f-string conversion")
        if spec:
            return self.format_spec(v, spec)
        return self.to_str(v, st)

    def format_spec(self, v, spec):
        if not V.contains_sym(v):
            return format(v, spec)
        if isinstance(v, SInt) and spec in ("02", "03", "04"):
            w = int(spec)
            s = z3.IntToStr(v.t)
            res = s
            for k in range(1, w):
                res = z3.If(z3.Length(s) == k, z3.Concat(z3.StringVal("0" * (w - k)), s), res)
            return SStr(res)
        raise Unsupported(f"format spec {spec!r} on {v!r}")

    def to_str(self, v, st=None):
        if isinstance(v, (SGuard, SEnum)):
            return V.v_map(lambda x: self.to_str(x, st), v)
        if isinstance(v, SStr) or isinstance(v, str):
            return v
        if isinstance(v, SInt):
            # A-dec: str(n) for n >= 0 is z3's int.to.str; negative numbers get a sign.
            # Facts about decimal numerals the solvers do not derive by themselves are
            # added as lemmas (axiom A-dec, conformance-tested in pyvc/selftest.py).
            if st is not None:
                s_ = z3.IntToStr(v.t)
                st.assume(z3.Implies(v.t >= 0, z3.And(z3.InRe(s_, z3.Plus(z3.Range("0", "9"))), z3.StrToInt(s_) == v.t, z3.Length(s_) >= 1)))
            return SStr(z3.If(v.t >= 0, z3.IntToStr(v.t), z3.Concat(z3.StringVal("-"), z3.IntToStr(-v.t))))
        if isinstance(v, SBool):
            return SStr(z3.If(v.t, z3.StringVal("True"), z3.StringVal("False")))
        if isinstance(v, SOpt):
            return SStr(z3.If(v.isnone, z3.StringVal("None"), V.z3str(self.to_str(v.val, st))))
        if isinstance(v, PathVal):
            return v.s
        if isinstance(v, ExcVal):
            if len(v.args) == 1:
                return self.to_str(v.args[0], st)
            return V.sstr(fresh_name("str_exc"))
        if V.contains_sym(v):
            return V.sstr(fresh_name("str_of"))
        return str(v)

    def to_int(self, ex, v, st, node, base=10):
        """int(v). Returns list of Val/Exc."""
        if isinstance(v, (SGuard, SEnum)):
            out = []
            for g, x in V.as_guards(v):
                s2 = st.fork()
                s2.assume(g)
                if ex.feasible is None or ex.feasible(s2.pc):
                    out.extend(self.to_int(ex, x, s2, node, base))
            return out
        if isinstance(v, SOpt):
            t, f = ex.split(v.isnone, st)
            out = []
            if t is not None:
                out.append(ex.raise_(TypeError, t))
            if f is not None:
                out.extend(self.to_int(ex, v.val, f, node, base))
            return out
        if isinstance(v, SInt):
            return [Val(v, st)]
        if isinstance(v, SBool):
            return [Val(SInt(V.z3int(v)), st)]
        from .digits import DigitStr

        if isinstance(v, DigitStr):
            return [Val(v.v, st)]
        if isinstance(v, SStr):
            # A-dec: int(s) for s in [0-9]+ is str.to.int, otherwise ValueError
            # (signs, underscores and surrounding blanks, which Python accepts, are
            # folded into the ValueError branch: callers on our paths only pass regex-matched digits)
            n = z3.StrToInt(v.t)
            # theory fact stated as a lemma (the solvers do not derive it unprompted):
            # str.to_int is >= 0 exactly on non-empty digit strings
            st.assume((n >= 0) == z3.InRe(v.t, z3.Plus(z3.Range("0", "9"))))
            t, f = ex.split(n >= 0, st)
            out = []
            if t is not None:
                out.append(Val(SInt(n), t))
            if f is not None:
                out.append(ex.raise_(ValueError, f))
            return out
        if v is None:
            return [ex.raise_(TypeError, st)]
        try:
            return [Val(int(v, base) if isinstance(v, str) else int(v), st)]
        except ValueError:
            return [ex.raise_(ValueError, st)]
        except TypeError:
            return [ex.raise_(TypeError, st)]

    # ------------------------------------------------------------------ iteration helpers
    def iter_concrete(self, ex, v, node):
        if isinstance(v, SRec):
            return list(v.fields.values())
        if isinstance(v, (list, tuple)):
            return list(v)
        if isinstance(v, (set, frozenset)):
            return sorted(v, key=repr)
        if isinstance(v, dict):
            return list(v.keys())
        if isinstance(v, str):
            return list(v)
        if isinstance(v, (range, type({}.items()), type({}.keys()), type({}.values()), enumerate, zip, reversed, map, filter)):
            return list(v)
        if hasattr(v, "__pyvc_iter__"):
            return v.__pyvc_iter__()
        if isinstance(v, type) and issubclass(v, enum.Enum):
            return list(v)
        ex.unsupported(node, f"iteration over {v!r}")

    def mapping_items(self, ex, v, node):
        if isinstance(v, dict):
            return dict(v)
        if isinstance(v, SRec):
            return dict(v.fields)
        ex.unsupported(node, f"** of {v!r}")

    # ------------------------------------------------------------------ loops
    def for_stmt(self, ex, s, st):
        outs = []
        for r in ex.eval(s.iter, st):
            if isinstance(r, Exc):
                outs.append(Outcome("raise", r.exc, r.st))
                continue
            it = r.v
            if isinstance(it, SGuard):
                for g, alt in V.as_guards(it):
                    s2 = r.st.fork()
                    s2.assume(g)
                    if ex.feasible is None or ex.feasible(s2.pc):
                        if alt is None:
                            outs.append(Outcome("raise", ExcVal(TypeError, ("not iterable",)), s2))
                        else:
                            outs.extend(ex.unroll(s.target, self.iter_concrete(ex, alt, s), s.body, s.orelse, s2))
                continue
            if isinstance(it, GenCall):
                outs.extend(self.for_generator(ex, s, it, r.st))
            elif isinstance(it, SSeq) or hasattr(it, "__pyvc_symbolic_iter__") or (isinstance(it, SOpaque) and it.sort == "PatternList"):
                outs.extend(self.for_symbolic(ex, s, it, r.st))
            else:
                items = self.iter_concrete(ex, it, s)
                outs.extend(ex.unroll(s.target, items, s.body, s.orelse, r.st))
        return outs

    def for_generator(self, ex, s, gen, st):
        if s.orelse:
            ex.unsupported(s, "for-else over generator")

        def consume(v, cur):
            res = []
            for ao in ex.assign(s.target, v, cur):
                if ao.kind != "fall":
                    res.append(ao)
                    continue
                for o in ex.exec_block(s.body, ao.st):
                    if o.kind in ("fall", "continue"):
                        res.append(Outcome("fall", None, o.st))
                    else:
                        res.append(o)
            return res

        fr = gen.fr
        c = self.registry.get(fr.qualname)
        if c is not None and c.callee_hook is not None and fr.qualname != ex.top:
            return c.callee_hook(ex, gen, st, s, consume)
        if c is not None and getattr(c, "as_list", None) is not None and getattr(c, "as_list_in_for", False) and fr.qualname != ex.top:
            outs = []
            for r in c.as_list(ex, gen, st, s):
                if isinstance(r, Exc):
                    outs.append(Outcome("raise", r.exc, r.st))
                else:
                    outs.extend(self.for_symbolic(ex, s, r.v, r.st))
            return outs
        outs = ex.run_generator(fr, gen.args, gen.kwargs, st, consume, gen.bound_self)
        final = []
        for o in outs:
            if o.kind == "break":
                final.append(Outcome("fall", None, o.st))
            else:
                final.append(o)
        return final

    def for_symbolic(self, ex, s, seq, st):
        """Loop over a symbolic-length sequence, cut by the sidecar invariant."""
        from .contracts import Args

        from .abstractions import FDictItems, for_fdict

        if isinstance(seq, FDictItems):
            return for_fdict(self, ex, s, seq, st)
        loops = st.ghost.get("loops", {})
        ordinal = self.loop_ordinal(ex, s, st)
        qn = st.env["__func__"].qualname
        spec = loops.get((qn, ordinal))
        if spec is None and qn == ex.top:
            spec = loops.get(ordinal)
        if spec is None:
            mf = self.try_map_filter_loop(ex, s, seq, st)
            if mf is not None:
                return mf
            ex.unsupported(s, f"loop #{ordinal} over symbolic sequence needs an invariant in the sidecar")
        a = st.ghost.get("args")
        # soundness guard: a local that exists before the loop and is re-assigned in its body is loop-carried state;
        # unless the invariant carries (havocs) it, the arbitrary iteration would start from its pre-loop value
        stale = sorted(n for n in self.names_assigned_in(s.body) if n in st.env and n not in spec.carried and n not in {x.id for x in ast.walk(s.target) if isinstance(x, ast.Name)})
        if stale:
            ex.unsupported(s, f"loop #{ordinal} re-assigns {', '.join(stale)}: loop-carried state that invariant {spec.name} does not cover (contract needs updating)")
        if isinstance(seq, SOpaque) and seq.sort == "PatternList":
            seq = OpaquePatternList(seq)
        if isinstance(seq, SSeq):
            n = V.v_len(seq)
        elif hasattr(seq, "seq"):
            n = V.v_len(seq.seq)
        elif getattr(seq, "n", None) is not None:
            n = SInt(seq.n)
        else:
            n = V.sint(fresh_name("itercount"))
            st.assume(n.t >= 0)
        nt = V.z3int(n)

        def carried_of(state):
            return {k: (state.ghost.get(k[6:]) if k.startswith("ghost:") else state.env.get(k)) for k in spec.carried}

        def set_carried(state, var, val):
            if var.startswith("ghost:"):
                state.ghost[var[6:]] = val
            else:
                state.env[var] = val

        # 1. invariant holds on entry
        cx = Ctx(st, st.ghost.get("loop_log0", 0))
        init_lemmas = [V.to_z3_bool(x) for x in (spec.lemmas(a, 0, st) if spec.lemmas else [])]
        ex.side_obligations.append((spec.name + ".init", list(st.pc) + init_lemmas, spec.invariant(a, carried_of(st), 0, cx, st), spec.props))
        # 2. preservation from an arbitrary iteration
        body_st = st.fork()
        assumptions = []
        k = z3.Int(fresh_name("k"))
        for var, kind in spec.carried.items():
            cur = carried_of(body_st).get(var)
            if hasattr(cur, "__pyvc_havoc__"):
                cur.__pyvc_havoc__(fresh_name(var))  # in place: aliases of the object see the havoc too
            else:
                set_carried(body_st, var, kind.fresh(fresh_name(var), assumptions))
        for x in assumptions:
            body_st.assume(x)
        body_st.assume(z3.And(k >= 0, k < nt))
        if isinstance(seq, SSeq) and isinstance(seq.elem, tuple) and seq.elem[0] == "enum":
            body_st.assume(z3.And(seq.t[k] >= 0, seq.t[k] < len(seq.elem[1])))
        for lem in (spec.lemmas(a, SInt(k), body_st) if spec.lemmas else []):
            body_st.assume(lem)
        body_st.log = list(st.log) + [("LoopHavoc", ordinal)]
        body_st.assume(spec.invariant(a, carried_of(body_st), SInt(k), Ctx(body_st, 0), body_st))
        outs = []
        elem = self.seq_elem(seq, k)
        for ao in ex.assign(s.target, elem, body_st):
            if ao.kind != "fall":
                outs.append(ao)
                continue
            ao.st.ghost["loop_k"] = SInt(k)
            for o in ex.exec_block(s.body, ao.st):
                if o.kind in ("fall", "continue"):
                    ex.side_obligations.append(
                        (spec.name + ".preserved", list(o.st.pc), spec.invariant(a, carried_of(o.st), SInt(k + 1), Ctx(o.st, 0), o.st), spec.props)
                    )
                elif o.kind == "break":
                    raise Unsupported("break in invariant-cut loop")
                else:
                    outs.append(o)  # return / raise / yield-propagated from inside the loop
        # 3. after the loop
        exit_st = st
        assumptions = []
        for var, kind in spec.carried.items():
            cur = carried_of(exit_st).get(var)
            if hasattr(cur, "__pyvc_havoc__"):
                cur.__pyvc_havoc__(fresh_name(var + "_exit"))
            else:
                set_carried(exit_st, var, kind.fresh(fresh_name(var + "_exit"), assumptions))
        for x in assumptions:
            exit_st.assume(x)
        exit_st.log = list(st.log) + [("LoopHavoc", ordinal)]
        for lem in (spec.lemmas(a, n, exit_st) if spec.lemmas else []):
            exit_st.assume(lem)
        exit_st.assume(spec.invariant(a, carried_of(exit_st), n, Ctx(exit_st, 0), exit_st))
        if s.orelse:
            outs.extend(ex.exec_block(s.orelse, exit_st))
        else:
            outs.append(Outcome("fall", None, exit_st))
        return outs

    # ------------------------------------------------------------------ filter/map loops without an invariant
    def try_map_filter_loop(self, ex, s, seq, st):
        """`acc = []; for x in <symbolic sequence>: [guards with continue]; acc.append(e)` is the loop spelling of a
        list comprehension: handled by the same element-wise abstraction (SymMapped), so that rewriting a
        comprehension as a loop (or the reverse) needs no sidecar invariant. Recognised only if the body is
        element-independent: it appends to exactly one list that was empty, assigns only names that did not exist
        before, and contains nothing but if / continue / raise / logging / those appends and assignments."""
        from .abstractions import SymMapped

        if s.orelse:
            return None
        accs, assigned = set(), set()

        def ok_stmt(n):
            if isinstance(n, ast.If):
                return all(ok_stmt(x) for x in n.body) and all(ok_stmt(x) for x in n.orelse)
            if isinstance(n, (ast.Continue, ast.Pass, ast.Raise)):
                return True
            if isinstance(n, ast.Expr) and isinstance(n.value, ast.Call) and isinstance(n.value.func, ast.Attribute) and isinstance(n.value.func.value, ast.Name):
                f = n.value.func
                if f.value.id == "logger":
                    return True
                if f.attr == "append" and len(n.value.args) == 1 and not n.value.keywords:
                    accs.add(f.value.id)
                    return True
                return False
            if isinstance(n, (ast.Assign, ast.AnnAssign)):
                tgts = n.targets if isinstance(n, ast.Assign) else [n.target]
                for t in tgts:
                    names = [t] if isinstance(t, ast.Name) else (list(t.elts) if isinstance(t, (ast.Tuple, ast.List)) else None)
                    if names is None or not all(isinstance(x, ast.Name) for x in names):
                        return False
                    assigned.update(x.id for x in names)
                return getattr(n, "value", None) is not None
            return False

        if not all(ok_stmt(n) for n in s.body) or len(accs) != 1:
            return None
        (acc,) = accs
        if st.env.get(acc) != [] or not isinstance(st.env.get(acc), list):
            return None
        tnames = {n.id for n in ast.walk(s.target) if isinstance(n, ast.Name)}
        if any(a in st.env for a in assigned) or acc in assigned or acc in tnames:
            return None
        # the accumulator may be mentioned only as the receiver of .append
        uses = [n for b in s.body for n in ast.walk(b) if isinstance(n, ast.Name) and n.id == acc]
        appends = [n for b in s.body for n in ast.walk(b) if isinstance(n, ast.Call) and isinstance(n.func, ast.Attribute) and n.func.attr == "append" and isinstance(n.func.value, ast.Name) and n.func.value.id == acc]
        if len(uses) != len(appends):
            return None
        env_snapshot = dict(st.env)

        def fn(ex_, elem, st0):
            s1 = st0.fork()
            frame = dict(env_snapshot)
            frame[acc] = []
            s1.frames.append(frame)
            res = []
            for ao in ex_.assign(s.target, elem, s1):
                if ao.kind != "fall":
                    ao.st.frames.pop()
                    res.append((ao.st, "raise", ao.value))
                    continue
                for o in ex_.exec_block(s.body, ao.st):
                    got = o.st.env.get(acc)
                    o.st.frames.pop()
                    if o.kind == "raise":
                        res.append((o.st, "raise", o.value))
                    elif o.kind in ("fall", "continue"):
                        if not isinstance(got, list) or len(got) > 1:
                            raise Unsupported("filter/map loop appends more than once per element")
                        res.append((o.st, "keep", got[0]) if got else (o.st, "drop", None))
                    else:
                        raise Unsupported(f"filter/map loop body ends with {o.kind}")
            return res

        sm = SymMapped(seq, fn, "list")
        outs = []
        for r in self._symmapped_outcomes(ex, sm, st):
            if isinstance(r, Exc):
                outs.append(Outcome("raise", r.exc, r.st))
            else:
                r.st.env[acc] = sm
                for a in assigned | tnames:
                    r.st.env.pop(a, None)  # per-element temporaries are not defined after the abstraction
                outs.append(Outcome("fall", None, r.st))
        ex.stats["map_filter_loops"] = ex.stats.get("map_filter_loops", 0) + 1
        return outs

    def seq_elem(self, seq, k):
        if isinstance(seq, SSeq):
            e = seq.t[k]
            if seq.elem == "str":
                return SStr(e)
            if seq.elem == "int":
                return SInt(e)
            if isinstance(seq.elem, tuple) and seq.elem[0] == "enum":
                return SEnum(e, seq.elem[1])
        if hasattr(seq, "__pyvc_elem__"):
            return seq.__pyvc_elem__(k)
        raise Unsupported("seq_elem")

    @staticmethod
    def names_assigned_in(body):
        """Local names bound by the statements of a block (not descending into nested scopes / comprehensions)."""
        out = set()

        def targets(t):
            if isinstance(t, ast.Name):
                out.add(t.id)
            elif isinstance(t, (ast.Tuple, ast.List)):
                for e in t.elts:
                    targets(e)
            elif isinstance(t, ast.Starred):
                targets(t.value)

        def visit(n):
            if isinstance(n, (ast.FunctionDef, ast.AsyncFunctionDef, ast.Lambda, ast.ClassDef, ast.ListComp, ast.SetComp, ast.DictComp, ast.GeneratorExp)):
                return
            if isinstance(n, ast.Assign):
                for t in n.targets:
                    targets(t)
            elif isinstance(n, (ast.AugAssign, ast.AnnAssign)):
                if isinstance(n, ast.AugAssign) or n.value is not None:
                    targets(n.target)
            elif isinstance(n, (ast.For, ast.AsyncFor)):
                targets(n.target)
            elif isinstance(n, (ast.With, ast.AsyncWith)):
                for it in n.items:
                    if it.optional_vars is not None:
                        targets(it.optional_vars)
            elif isinstance(n, ast.NamedExpr):
                targets(n.target)
            elif isinstance(n, ast.ExceptHandler) and n.name:
                out.add(n.name)
            for c in ast.iter_child_nodes(n):
                visit(c)

        for st_ in body:
            visit(st_)
        return out

    def loop_ordinal(self, ex, s, st):
        fr = st.env["__func__"]
        n = 0
        for node in ast.walk(fr.node):
            if isinstance(node, (ast.For, ast.While)):
                if node is s:
                    return n
                n += 1
        return -1

    def while_stmt(self, ex, s, st):
        outs = []
        states = [st]
        sym_rounds = 0
        for _ in range(2000):
            nxt = []
            forked = False
            for cur in states:
                for r in ex.eval(s.test, cur):
                    if isinstance(r, Exc):
                        outs.append(Outcome("raise", r.exc, r.st))
                        continue
                    c = v_truthy(r.v)
                    if isinstance(c, SBool):
                        c = c.t
                    if isinstance(c, z3.BoolRef):
                        c = z3.simplify(c)
                        if z3.is_true(c):
                            c = True
                        elif z3.is_false(c):
                            c = False
                        else:
                            # symbolic condition: bounded unwinding with an unwinding assertion - both branches are
                            # followed; the loop must provably end (the continuing branch becomes infeasible or the
                            # condition concrete) within SYM_UNWIND rounds, otherwise an invariant is needed
                            forked = True
                            t, f = ex.split(c, r.st)
                            if f is not None:
                                if s.orelse:
                                    outs.extend(ex.exec_block(s.orelse, f))
                                else:
                                    outs.append(Outcome("fall", None, f))
                            if t is not None:
                                for o in ex.exec_block(s.body, t):
                                    if o.kind in ("fall", "continue"):
                                        nxt.append(o.st)
                                    elif o.kind == "break":
                                        outs.append(Outcome("fall", None, o.st))
                                    else:
                                        outs.append(o)
                            continue
                    if not c:
                        if s.orelse:
                            outs.extend(ex.exec_block(s.orelse, r.st))
                        else:
                            outs.append(Outcome("fall", None, r.st))
                        continue
                    for o in ex.exec_block(s.body, r.st):
                        if o.kind in ("fall", "continue"):
                            nxt.append(o.st)
                        elif o.kind == "break":
                            outs.append(Outcome("fall", None, o.st))
                        else:
                            outs.append(o)
            states = nxt
            if not states:
                return outs
            if forked:
                sym_rounds += 1
                if sym_rounds > SYM_UNWIND:
                    ex.unsupported(s, f"while with symbolic condition still running after {SYM_UNWIND} unwindings: needs an invariant")
        ex.unsupported(s, "while loop did not terminate concretely within 2000 iterations")

    def with_stmt(self, ex, s, st):
        if len(s.items) != 1:
            ex.unsupported(s, "multiple with items")
        item = s.items[0]
        outs = []
        for r in ex.eval(item.context_expr, st):
            if isinstance(r, Exc):
                outs.append(Outcome("raise", r.exc, r.st))
                continue
            cm = r.v
            if not isinstance(cm, FileVal):
                ex.unsupported(s, f"with on {cm!r}")
            cur = r.st
            if item.optional_vars is not None:
                aos = ex.assign(item.optional_vars, cm, cur)
            else:
                aos = [Outcome("fall", None, cur)]
            for ao in aos:
                if ao.kind != "fall":
                    outs.append(ao)
                    continue
                for o in ex.exec_block(s.body, ao.st):
                    o.st.emit("Close", cm.path.s)
                    outs.append(o)
        return outs

    # ------------------------------------------------------------------ comprehensions
    def comprehension(self, ex, node, st, kind):
        if len(node.generators) != 1:
            ex.unsupported(node, "nested comprehension")
        gen = node.generators[0]
        outs = []
        for r in ex.eval(gen.iter, st):
            if isinstance(r, Exc):
                outs.append(r)
                continue
            it = r.v
            if isinstance(it, SGuard):
                items_res = []
                for g, alt in V.as_guards(it):
                    s2 = r.st.fork()
                    s2.assume(g)
                    if ex.feasible is None or ex.feasible(s2.pc):
                        if alt is None:
                            items_res.append(Exc(ExcVal(TypeError, ("not iterable",)), s2))
                        else:
                            items_res.append(Val(self.iter_concrete(ex, alt, node), s2))
            elif isinstance(it, GenCall):
                items_res = self.collect_generator(ex, it, r.st, node)
            elif isinstance(it, SSeq) or hasattr(it, "__pyvc_symbolic_iter__"):
                outs.extend(self.symbolic_comprehension_outcomes(ex, node, gen, it, r.st, kind))
                continue
            else:
                items_res = [Val(self.iter_concrete(ex, it, node), r.st)]
            for ir in items_res:
                if isinstance(ir, Exc):
                    outs.append(ir)
                    continue
                outs.extend(self._comp_over(ex, node, gen, ir.v, ir.st, kind))
        return outs

    def symbolic_comprehension_outcomes(self, ex, node, gen, it, st, kind):
        """The comprehension either raises (some element's evaluation raises) or yields the
        element-wise abstraction under the assumption that no element raised."""
        from .abstractions import SymMapped

        sm = self.symbolic_comprehension(ex, node, gen, it, st, kind)
        return self._symmapped_outcomes(ex, sm, st)

    def _symmapped_outcomes(self, ex, sm, st):
        from .abstractions import SymMapped

        root = sm.root() if isinstance(sm.base, SymMapped) else sm.base
        if not isinstance(root, SSeq) or root.elem != "str":
            return [Val(sm, st)]
        probe = z3.String(fresh_name("probe"))
        base = st.fork()
        n0 = len(base.pc)
        raising = {}
        for s1, k, val in sm.elementwise(ex, SStr(probe), base):
            if k == "raise":
                cond = z3.And(*s1.pc[n0:]) if len(s1.pc) > n0 else z3.BoolVal(True)
                raising.setdefault(val.cls, []).append(cond)
        out = []
        if raising:
            allc = z3.Or(*[c for cs in raising.values() for c in cs])
            for cls in raising:
                s2 = st.fork()
                out.append(Exc(ExcVal(cls, (V.sstr(fresh_name("excmsg")),)), s2))
            # No assumption is made on the normal path: a raise alternative may be a
            # nondeterministic outcome of a callee (e.g. "may raise re.error"), and returning
            # normally then only means that choice was not taken for any element.
            sm.no_raise = True
        out.append(Val(sm, st))
        return out

    def symbolic_comprehension(self, ex, node, gen, it, st, kind):
        """[elt for target in <symbolic sequence> if conds]: element-wise abstraction."""
        from .abstractions import SymMapped

        if kind == "dict":
            ex.unsupported(node, "dict comprehension over symbolic sequence")
        env_snapshot = dict(st.env)

        def fn(ex_, elem, st0):
            s = st0.fork()
            s.frames.append(dict(env_snapshot))
            res = []
            for r in self._comp_over(ex_, node, gen, [elem], s, "list"):
                r.st.frames.pop()
                if isinstance(r, Exc):
                    res.append((r.st, "raise", r.exc))
                else:
                    if len(r.v) == 1:
                        res.append((r.st, "keep", r.v[0]))
                    else:
                        res.append((r.st, "drop", None))
            return res

        return SymMapped(it, fn, kind)

    def _comp_over(self, ex, node, gen, items, st, kind):
        # comprehension scope: loop variables do not leak
        saved = dict(st.env)
        states = [([], st)]
        excs = []
        for it in items:
            nxt = []
            for acc, cur in states:
                for ao in ex.assign(gen.target, it, cur):
                    if ao.kind != "fall":
                        excs.append(Exc(ao.value, ao.st))
                        continue
                    conds = [(True, ao.st)]
                    for cnd in gen.ifs:
                        nc = []
                        for keep, s2 in conds:
                            if not keep:
                                nc.append((False, s2))
                                continue
                            for rr in ex.eval(cnd, s2):
                                if isinstance(rr, Exc):
                                    excs.append(rr)
                                    continue
                                t, f = ex.split(v_truthy(rr.v), rr.st)
                                if t is not None:
                                    nc.append((True, t))
                                if f is not None:
                                    nc.append((False, f))
                        conds = nc
                    for keep, s2 in conds:
                        if not keep:
                            nxt.append((acc, s2))
                            continue
                        if kind == "dict":
                            rs, ee = ex.eval_seq([node.key, node.value], s2)
                            excs.extend(ee)
                            for (k, v), s3 in rs:
                                nxt.append((acc + [(k, v)], s3))
                        else:
                            for rr in ex.eval(node.elt, s2):
                                if isinstance(rr, Exc):
                                    excs.append(rr)
                                else:
                                    nxt.append((acc + [rr.v], rr.st))
            states = nxt
        out = list(excs)
        for acc, cur in states:
            for k in list(cur.env):
                if k not in saved:
                    del cur.env[k]
            for k, v in saved.items():
                if k in _names(gen.target):
                    cur.env[k] = v
            if kind == "list":
                out.append(Val(acc, cur))
            elif kind == "set":
                out.append(Val(self.mkset(acc), cur))
            else:
                out.append(Val(dict(acc), cur))
        return out

    def mkset(self, items):
        if V.contains_sym(items):
            return SymSet(items)
        return set(items)

    def collect_generator(self, ex, gen, st, node):
        """Run a generator to completion, returning Val(list of yields) per path."""
        key = fresh_name("__collect")

        def consume(v, cur):
            cur.ghost.setdefault(key, [])
            cur.ghost[key] = cur.ghost[key] + [v]
            return [Outcome("fall", None, cur)]

        outs = ex.run_generator(gen.fr, gen.args, gen.kwargs, st, consume, gen.bound_self)
        res = []
        for o in outs:
            if o.kind == "fall":
                res.append(Val(list(o.st.ghost.pop(key, [])), o.st))
            elif o.kind == "raise":
                res.append(Exc(o.value, o.st))
            else:
                raise Unsupported("generator collect: unexpected outcome")
        return res

    # ------------------------------------------------------------------ calls
    def call(self, ex, fn, args, kwargs, st, node):
        if isinstance(fn, FuncRef):
            return self.call_repo(ex, fn, args, kwargs, st, node)
        if isinstance(fn, BoundMethod):
            return self.call_repo(ex, fn.func, args, kwargs, st, node, bound_self=fn.obj)
        if isinstance(fn, MethodOf):
            return self.call_method(ex, fn.obj, fn.name, args, kwargs, st, node)
        if isinstance(fn, Lambda):
            return self.call_lambda(ex, fn, args, st, node)
        if isinstance(fn, SObj):
            for k in fn.cls.__mro__:
                if "__call__" in vars(k):
                    raw = vars(k)["__call__"]
                    fr = ex.src.funcref(f"{raw.__module__}.{raw.__qualname__}")
                    return self.call_repo(ex, fr, args, kwargs, st, node, bound_self=fn)
            ex.unsupported(node, "object not callable")
        if isinstance(fn, (SGuard, SEnum)):
            out = []
            for g, f in V.as_guards(fn):
                s2 = st.fork()
                s2.assume(g)
                if ex.feasible is None or ex.feasible(s2.pc):
                    out.extend(self.call(ex, f, args, kwargs, s2, node))
            return out
        try:
            m = self.fn_models.get(fn)
        except TypeError:
            m = None
        if m is not None:
            return m(ex, args, kwargs, st, node)
        if isinstance(fn, type):
            return self.call_class(ex, fn, args, kwargs, st, node)
        if isinstance(fn, types.FunctionType):
            mod = getattr(fn, "__module__", "") or ""
            if mod.startswith("bumpver") or mod == "lexid":
                fr = ex.wrap_global(fn, None, fn.__name__)
                if isinstance(fr, FuncRef):
                    return self.call_repo(ex, fr, args, kwargs, st, node)
        if fn is next and args and isinstance(args[0], GenList):
            # next(<generator expression>[, default]): the generator is modelled as the list of what it would yield
            g = args[0]
            if g:
                return [Val(g.pop(0), st)]
            if len(args) > 1:
                return [Val(args[1], st)]
            return [ex.raise_(StopIteration, st)]
        if fn is iter and len(args) == 1 and isinstance(args[0], (list, tuple)) and not isinstance(args[0], GenList):
            return [Val(GenList(args[0]), st)]
        if not V.contains_sym(args) and not V.contains_sym(kwargs) and (fn in self.PURE_CONCRETE or getattr(fn, "__module__", None) in ("builtins", "operator", "itertools")):
            if not (_plain(args) and _plain(kwargs)):
                # an exception of the *model's* Python objects (PathVal, records, ...) is not an exception of the program
                ex.unsupported(node, f"call of {getattr(fn, '__name__', fn)!r} on modelled (non-plain) values")
            try:
                return [Val(fn(*args, **kwargs), st)]
            except Exception as e:
                return [ex.raise_(type(e), st, *e.args)]
        ex.unsupported(node, f"call of {fn!r}")

    def call_lambda(self, ex, lam, args, st, node):
        a = lam.node.args
        names = [x.arg for x in a.args]
        if len(names) != len(args):
            ex.unsupported(node, "lambda arity")
        env = dict(lam.env)
        env.update(zip(names, args))
        st.frames.append(env)
        out = []
        for r in ex.eval(lam.node.body, st):
            r.st.frames.pop()
            out.append(r)
        return out

    def call_repo(self, ex, fr, args, kwargs, st, node, bound_self=None):
        c = self.registry.get(fr.qualname)
        variant = getattr(self, "callee_variants", {}).get(fr.qualname)
        if variant is not None:
            c = self.registry[f"{fr.qualname}#{variant}"]
        if fr.qualname in self.inline_ok:
            c = None
        if c is not None and not c.inline:
            if _is_generator(fr.node) and c.callee_hook is None:
                return [Val(GenCall(fr, args, kwargs, bound_self), st)]
            if _is_generator(fr.node):
                return [Val(GenCall(fr, args, kwargs, bound_self), st)]
            # recursion and calls to other functions under contract are modular
            return apply_contract(ex, c, fr, args, kwargs, st, node, bound_self)
        if (c is not None and c.inline) or fr.qualname in self.inline_ok or ".<locals>." in fr.qualname:
            return ex.call_funcref(fr, args, kwargs, st, bound_self)
        if fr.qualname.startswith("bumpver.") and c is None:
            # a repository function without a contract (typically a helper extracted by a refactoring): executed
            # inline as part of the caller's body - exact, bounded by the inline depth limit, recorded in the evidence
            ex.stats["auto_inlined"] = ex.stats.get("auto_inlined", 0) + 1
            ex.auto_inlined = getattr(ex, "auto_inlined", set()) | {fr.qualname}
            return ex.call_funcref(fr, args, kwargs, st, bound_self)
        ex.unsupported(node, f"call to {fr.qualname}: neither under contract nor marked inline")

    def call_class(self, ex, cls, args, kwargs, st, node):
        if is_namedtuple_class(cls):
            fields = cls._fields
            vals = dict(zip(fields, args))
            for k, v in kwargs.items():
                if k not in fields or k in vals:
                    return [ex.raise_(TypeError, st)]
                vals[k] = v
            for f in fields:
                if f not in vals:
                    d = getattr(cls, "_field_defaults", {})
                    if f in d:
                        vals[f] = d[f]
                    else:
                        return [ex.raise_(TypeError, st)]
            if not V.contains_sym(list(vals.values())) and not any(isinstance(x, (list, dict, PathVal, SObj)) for x in vals.values()):
                return [Val(cls(**vals), st)]
            return [Val(SRec(cls, {f: vals[f] for f in fields}), st)]
        if issubclass(cls, BaseException):
            return [Val(ExcVal(cls, args), st)]
        if issubclass(cls, enum.Enum):
            (v,) = args
            if isinstance(v, enum.Enum):
                return [Val(v, st)]
            if isinstance(v, (SEnum, SGuard)):
                out = []
                for g, x in V.as_guards(v):
                    s2 = st.fork()
                    s2.assume(g)
                    if ex.feasible is None or ex.feasible(s2.pc):
                        out.extend(self.call_class(ex, cls, [x], {}, s2, node))
                return out
            if isinstance(v, SStr):
                members = list(cls)
                hit = b_or(*[v.t == z3.StringVal(m.value) for m in members])
                t, f = ex.split(hit, st)
                out = []
                if t is not None:
                    idx = z3.Int(fresh_name("enum#"))
                    t.assume(z3.And(idx >= 0, idx < len(members)))
                    for i, m in enumerate(members):
                        t.assume((idx == i) == (v.t == z3.StringVal(m.value)))
                    out.append(Val(SEnum(idx, members), t))
                if f is not None:
                    out.append(ex.raise_(ValueError, f))
                return out
            try:
                return [Val(cls(v), st)]
            except ValueError:
                return [ex.raise_(ValueError, st)]
        if cls is str:
            if not args:
                return [Val("", st)]
            if st.ghost.get("digit_mode") and isinstance(args[0], SInt):
                from .digits import int_to_digitstr_cases

                return int_to_digitstr_cases(ex, args[0], st)
            from .digits import DigitStr

            if isinstance(args[0], DigitStr):
                return [Val(args[0], st)]
            return [Val(self.to_str(args[0], st), st)]
        if cls is int:
            if not args:
                return [Val(0, st)]
            base = kwargs.get("base", args[1] if len(args) > 1 else 10)
            return self.to_int(ex, args[0], st, node, base)
        if cls is bool:
            return [Val(V._wrapb(v_truthy(args[0])) if args else False, st)]
        if cls is list:
            if not args:
                return [Val([], st)]
            if isinstance(args[0], GenCall):
                gc = self.registry.get(args[0].fr.qualname)
                if gc is not None and getattr(gc, "as_list", None) is not None and args[0].fr.qualname != ex.top:
                    ex.stats["calls_by_contract"] += 1
                    return gc.as_list(ex, args[0], st, node)
                return self.collect_generator(ex, args[0], st, node)
            if isinstance(args[0], SSeq):
                return [Val(args[0], st)]
            return [Val(list(self.iter_concrete(ex, args[0], node)), st)]
        if cls is tuple:
            if not args:
                return [Val((), st)]
            if isinstance(args[0], GenCall):
                return [Val(tuple(r.v), r.st) if isinstance(r, Val) else r for r in self.collect_generator(ex, args[0], st, node)]
            return [Val(tuple(self.iter_concrete(ex, args[0], node)), st)]
        if cls is dict:
            if not args:
                return [Val(dict(kwargs), st)]
            src = args[0]
            if src is os.environ:
                d = {"<os.environ>": True}
                d.update(kwargs)
                return [Val(d, st)]
            if isinstance(src, GenCall):
                gc = self.registry.get(src.fr.qualname)
                if gc is not None and getattr(gc, "as_dict", None) is not None and src.fr.qualname != ex.top:
                    ex.stats["calls_by_contract"] += 1
                    return [Val(gc.as_dict(ex, src, st, node), st)]
                out = []
                for r in self.collect_generator(ex, src, st, node):
                    if isinstance(r, Exc):
                        out.append(r)
                    else:
                        out.append(Val(self.mkdict(ex, r.v, kwargs, node), r.st))
                return out
            if isinstance(src, dict):
                d = dict(src)
                d.update(kwargs)
                return [Val(d, st)]
            if hasattr(src, "__pyvc_todict__"):
                return [Val(src.__pyvc_todict__(), st)]
            return [Val(self.mkdict(ex, self.iter_concrete(ex, src, node), kwargs, node), st)]
        if cls is set or cls is frozenset:
            if not args:
                return [Val(set(), st)]
            if hasattr(args[0], "__pyvc_toset__"):
                return [Val(args[0].__pyvc_toset__(), st)]
            from .abstractions import SymStrSet

            if isinstance(args[0], SymStrSet):
                return [Val(args[0], st)]
            if isinstance(args[0], SSeq) and args[0].elem == "str":
                return [Val(SymStrSet(args[0]), st)]
            items = self.iter_concrete(ex, args[0], node)
            return [Val(self.mkset(items), st)]
        if cls in self.fn_models:
            return self.fn_models[cls](ex, args, kwargs, st, node)
        if cls.__module__.startswith("bumpver"):
            return self.construct_repo_object(ex, cls, args, kwargs, st, node)
        m = self.fn_models.get(cls)
        if m is not None:
            return m(ex, args, kwargs, st, node)
        ex.unsupported(node, f"constructor {cls!r}")

    def mkdict(self, ex, items, kwargs, node):
        d = {}
        for it in items:
            k, v = ex.unpack(it, 2, node)
            if V.contains_sym(k):
                raise Unsupported("dict() with symbolic key")
            d[k] = v
        d.update(kwargs)
        return d

    def construct_repo_object(self, ex, cls, args, kwargs, st, node):
        obj = SObj(cls, {})
        init = None
        for k in cls.__mro__:
            if "__init__" in vars(k) and isinstance(vars(k)["__init__"], types.FunctionType):
                init = vars(k)["__init__"]
                break
        if init is None:
            return [Val(obj, st)]
        fr = ex.src.funcref(f"{init.__module__}.{init.__qualname__}")
        out = []
        for r in ex.call_funcref(fr, args, kwargs, st, bound_self=obj):
            if isinstance(r, Exc):
                out.append(r)
            else:
                out.append(Val(obj if r.st is st else _find_clone(r.st, obj, st), r.st))
        return out

    # ------------------------------------------------------------------ methods of builtin values
    def call_method(self, ex, obj, name, args, kwargs, st, node):
        import logging as _logging

        if isinstance(obj, _logging.Logger) and name in ("debug", "info", "warning", "error", "critical", "exception", "log"):
            # A-log: a logger method reached through an alias (log_fn = logger.debug) is the same no-op effect
            st.emit("Log", name, getattr(node, "lineno", 0))
            return [Val(None, st)]
        if obj is os.environ and name == "copy":
            return [Val({"<os.environ>": True}, st)]
        if (obj is sys.stdout or obj is sys.stderr or getattr(obj, "name", None) in ("<stdout>", "<stderr>")) and name in ("write", "isatty", "flush"):
            if name == "write":
                st.emit("Out", tuple(args))
                return [Val(None, st)]
            if name == "isatty":
                return [Val(V.sbool(fresh_name("isatty")), st)]
            return [Val(None, st)]
        if isinstance(obj, SRec):
            if name == "_replace":
                bad = [k for k in kwargs if k not in obj.fields]
                if bad:
                    return [ex.raise_(ValueError, st)]
                return [Val(obj.replace(**kwargs), st)]
            if name == "_asdict":
                return [Val(dict(obj.fields), st)]
        if isinstance(obj, tuple) and hasattr(obj, "_fields"):
            if name == "_replace":
                if V.contains_sym(kwargs):
                    return [Val(SRec(type(obj), obj._asdict()).replace(**kwargs), st)]
                try:
                    return [Val(obj._replace(**kwargs), st)]
                except ValueError:
                    return [ex.raise_(ValueError, st)]
            if name == "_asdict":
                return [Val(dict(obj._asdict()), st)]
        if isinstance(obj, (str, SStr)):
            from . import strmodels

            return strmodels.str_method(self, ex, obj, name, args, kwargs, st, node)
        if isinstance(obj, list):
            return self.list_method(ex, obj, name, args, kwargs, st, node)
        if isinstance(obj, dict):
            return self.dict_method(ex, obj, name, args, kwargs, st, node)
        if isinstance(obj, (set, frozenset)):
            return self.set_method(ex, obj, name, args, kwargs, st, node)
        if isinstance(obj, PathVal):
            return self.path_method(ex, obj, name, args, kwargs, st, node)
        if isinstance(obj, FileVal):
            return self.file_method(ex, obj, name, args, kwargs, st, node)
        if hasattr(obj, "__pyvc_method__"):
            return obj.__pyvc_method__(ex, name, args, kwargs, st, node)
        import re as _re

        if isinstance(obj, _re.Pattern):
            from .remodels import pattern_method

            return pattern_method(self, ex, obj, name, args, kwargs, st, node)
        if isinstance(obj, SOpaque):
            hook = self.fn_models.get(("opaque", obj.sort, name))
            if hook:
                return hook(ex, obj, args, kwargs, st, node)
            ex.unsupported(node, f"method {name} on opaque {obj.sort}")
        if not V.contains_sym(obj) and not V.contains_sym(args) and not V.contains_sym(kwargs):
            if isinstance(obj, (dt.date, dt.datetime, dt.timedelta, tuple, bytes, int)):
                try:
                    return [Val(getattr(obj, name)(*args, **kwargs), st)]
                except Exception as e:
                    return [ex.raise_(type(e), st)]
        ex.unsupported(node, f"method {name} on {obj!r}")

    def list_method(self, ex, obj, name, args, kwargs, st, node):
        if name == "append":
            obj.append(args[0])
            return [Val(None, st)]
        if name == "extend":
            obj.extend(self.iter_concrete(ex, args[0], node))
            return [Val(None, st)]
        if name == "pop":
            if not obj:
                return [ex.raise_(IndexError, st)]
            return [Val(obj.pop(*args), st)]
        if name == "count":
            r = 0
            for x in obj:
                r = v_arith("+", r, v_ite(v_eq(x, args[0]), 1, 0))
            return [Val(r, st)]
        if name == "sort":
            if V.contains_sym(obj) or kwargs.get("key") is not None and not callable(kwargs.get("key")):
                ex.unsupported(node, "sort of symbolic list")
            obj.sort(**kwargs)
            return [Val(None, st)]
        if name == "index" and not V.contains_sym(obj) and not V.contains_sym(args):
            try:
                return [Val(obj.index(*args), st)]
            except ValueError:
                return [ex.raise_(ValueError, st)]
        ex.unsupported(node, f"list.{name}")

    def dict_method(self, ex, obj, name, args, kwargs, st, node):
        if name == "get":
            k = args[0]
            default = args[1] if len(args) > 1 else None
            if isinstance(k, (SGuard, SEnum)):
                return [Val(V.merge_alts([(g, obj.get(kk, default)) for g, kk in V.as_guards(k)]), st)]
            if isinstance(k, SStr):
                keys = [kk for kk in obj if isinstance(kk, str)]
                alts = [(k.t == z3.StringVal(kk), obj[kk]) for kk in keys]
                alts.append((z3.And(*[k.t != z3.StringVal(kk) for kk in keys]) if keys else True, default))
                return [Val(V.merge_alts(alts), st)]
            if V.contains_sym(k):
                ex.unsupported(node, "dict.get symbolic key")
            return [Val(obj.get(k, default), st)]
        if name == "items":
            return [Val(list(obj.items()), st)]
        if name == "keys":
            return [Val(list(obj.keys()), st)]
        if name == "values":
            return [Val(list(obj.values()), st)]
        if name == "copy":
            return [Val(dict(obj), st)]
        if name == "update":
            if args:
                obj.update(args[0])
            obj.update(kwargs)
            return [Val(None, st)]
        if name == "setdefault":
            if args[0] not in obj:
                obj[args[0]] = args[1] if len(args) > 1 else None
            return [Val(obj[args[0]], st)]
        if name == "pop":
            if args[0] in obj:
                return [Val(obj.pop(args[0]), st)]
            if len(args) > 1:
                return [Val(args[1], st)]
            return [ex.raise_(KeyError, st)]
        ex.unsupported(node, f"dict.{name}")

    def set_method(self, ex, obj, name, args, kwargs, st, node):
        if name == "add":
            if isinstance(args[0], SOpaque) and args[0].sort == "Pattern" and len(obj) == 0:
                # the (so far empty) Python set becomes a symbolic set of patterns
                from contracts.rewrite_lines import PatSet, PSET, PATS

                ps = PatSet(z3.K(PATS, z3.BoolVal(False)))
                for frame in st.frames:
                    for k, v in list(frame.items()):
                        if v is obj:
                            frame[k] = ps
                return ps.__pyvc_method__(ex, "add", args, kwargs, st, node)
            if V.contains_sym(args[0]):
                ex.unsupported(node, "set.add symbolic")
            obj.add(args[0])
            return [Val(None, st)]
        ex.unsupported(node, f"set.{name}")

    # ------------------------------------------------------------------ files and paths (A-io)
    def path_method(self, ex, p, name, args, kwargs, st, node):
        if name == "exists":
            ver = fs_version(st)
            st.emit("Exists", p.s)
            return [Val(SBool(FS_EXISTS(V.z3str(p.s), z3.IntVal(ver))), st)]
        if name == "open":
            mode = kwargs.get("mode", args[0] if args else "r")
            return self.open_file(ex, p, mode, kwargs, st, node)
        if name == "absolute":
            return [Val(p, st)]
        if name in ("read_bytes", "read_text") and not args:
            # Path.read_bytes() / read_text(encoding=..): open, read, close in one call
            mode = "rb" if name == "read_bytes" else "rt"
            out = []
            for r in self.open_file(ex, p, mode, kwargs, st, node):
                if isinstance(r, Exc):
                    out.append(r)
                else:
                    out.extend(self.file_method(ex, r.v, "read", [], {}, r.st, node))
            return out
        ex.unsupported(node, f"Path.{name}")

    def open_file(self, ex, p, mode, kwargs, st, node):
        kw = {k: v for k, v in kwargs.items() if k != "mode"}
        st.emit("Open", p.s, mode, kw.get("newline", "<absent>"), kw.get("encoding", "<absent>"), getattr(node, "lineno", 0))
        ok = st
        out = []
        # opening may fail with OSError (missing file, permissions)
        bad = st.fork()
        bad.log = bad.log + [("OpenFailed", p.s)]
        out.append(ex.raise_(OSError, bad, "open failed"))
        out.append(Val(FileVal(p, mode, kw), ok))
        return out

    def file_method(self, ex, f, name, args, kwargs, st, node):
        if name == "read":
            ver = fs_version(st)
            st.emit("Read", f.path.s)
            if "b" in f.mode:
                # bytes of the file: the utf-8 encoding of its text (only ASCII needles are searched in it)
                return [Val(BytesVal(SStr(FS_CONTENT(V.z3str(f.path.s), z3.IntVal(ver)))), st)]
            return [Val(SStr(FS_CONTENT(V.z3str(f.path.s), z3.IntVal(ver))), st)]
        if name == "write":
            st.emit("Write", f.path.s, args[0], f.mode)
            return [Val(None, st)]
        ex.unsupported(node, f"file.{name}")

    # ------------------------------------------------------------------ default function models
    def install_default_models(self):
        M = self.fn_models
        import click
        import logging

        def m_sys_exit(ex, args, kwargs, st, node):
            code = args[0] if args else 0
            return [Exc(ExcVal(SystemExit, (code,)), st)]

        M[sys.exit] = m_sys_exit

        def m_len(ex, args, kwargs, st, node):
            (x,) = args
            if x is None:
                return [ex.raise_(TypeError, st)]
            return [Val(v_len(x), st)]

        M[len] = m_len

        def m_isinstance(ex, args, kwargs, st, node):
            v, t = args
            return [Val(self.isinstance_(v, t), st)]

        M[isinstance] = m_isinstance

        def _quantified(ex, sm, st, node, want_all):
            """any(...) / all(...) over an element-wise abstraction of a symbolic sequence: a quantified formula over the
            index j of the underlying sequence (elements that are filtered out do not count)."""
            from .abstractions import SymMapped

            root = sm.root() if isinstance(sm.base, SymMapped) else sm.base
            if isinstance(root, SSeq):
                n = z3.Length(root.t)
            elif getattr(root, "n", None) is not None:
                n = V.z3int(root.n)
            else:
                ex.unsupported(node, "any/all over a symbolic collection without a length")
            j = z3.Int(fresh_name("j") + "!q")
            elem = self.seq_elem(root, j)
            base = st.fork()
            n0 = len(base.pc)
            holds = []
            for s1, kind, val in sm.elementwise(ex, elem, base):
                if kind == "raise":
                    ex.unsupported(node, "any/all over elements whose evaluation may raise")
                extra = z3.And(*s1.pc[n0:]) if len(s1.pc) > n0 else z3.BoolVal(True)
                if kind == "keep":
                    t = V.to_z3_bool(v_truthy(val))
                    holds.append(z3.And(extra, t if not want_all else z3.Not(t)))
            body = z3.And(j >= 0, j < n, z3.Or(*holds) if holds else z3.BoolVal(False))
            f = z3.Exists([j], body)
            return SBool(z3.Not(f) if want_all else f)

        def m_any(ex, args, kwargs, st, node):
            from .abstractions import SymMapped

            if isinstance(args[0], SymMapped):
                return [Val(_quantified(ex, args[0], st, node, False), st)]
            items = self.iter_concrete(ex, args[0], node)
            return [Val(V._wrapb(b_or(*[v_truthy(x) for x in items])), st)]

        def m_all(ex, args, kwargs, st, node):
            from .abstractions import SymMapped

            if isinstance(args[0], SymMapped):
                return [Val(_quantified(ex, args[0], st, node, True), st)]
            items = self.iter_concrete(ex, args[0], node)
            return [Val(V._wrapb(b_and(*[v_truthy(x) for x in items])), st)]

        M[any] = m_any
        M[all] = m_all

        def m_getattr(ex, args, kwargs, st, node):
            obj, name = args[0], args[1]
            if isinstance(name, (SEnum, SGuard)):
                alts = []
                for g, nm in V.as_guards(name):
                    rs = self.getattr(ex, obj, nm, st, node)
                    if len(rs) != 1 or not isinstance(rs[0], Val):
                        raise Unsupported("getattr with symbolic name forked")
                    alts.append((g, rs[0].v))
                return [Val(SGuard(alts), st)]
            if not isinstance(name, str):
                ex.unsupported(node, "getattr with symbolic name")
            if len(args) > 2:
                if isinstance(obj, SRec) and name not in obj.fields:
                    return [Val(args[2], st)]
                if not isinstance(obj, (SRec, SObj)) and not hasattr(obj, name):
                    return [Val(args[2], st)]
            return self.getattr(ex, obj, name, st, node)

        M[getattr] = m_getattr

        def m_hasattr(ex, args, kwargs, st, node):
            obj, name = args
            if hasattr(obj, "__pyvc_hasattr__"):
                return [Val(obj.__pyvc_hasattr__(name), st)]
            if isinstance(obj, SRec):
                return [Val(name in obj.fields, st)]
            if isinstance(obj, SObj):
                return [Val(name in obj.attrs or hasattr(obj.cls, name), st)]
            return [Val(hasattr(obj, name), st)]

        M[hasattr] = m_hasattr

        def m_enumerate(ex, args, kwargs, st, node):
            x = args[0]
            if isinstance(x, GenCall):
                out = []
                for r in self.collect_generator(ex, x, st, node):
                    out.append(Val(list(enumerate(r.v)), r.st) if isinstance(r, Val) else r)
                return out
            if (isinstance(x, SSeq) or hasattr(x, "__pyvc_symbolic_iter__")) and len(args) == 1 and not kwargs:
                from .abstractions import SymEnumerated

                return [Val(SymEnumerated(self, x), st)]
            if isinstance(x, SSeq) or hasattr(x, "__pyvc_symbolic_iter__"):
                ex.unsupported(node, "enumerate(start=...) over symbolic sequence")
            return [Val(list(enumerate(self.iter_concrete(ex, x, node), *args[1:])), st)]

        M[enumerate] = m_enumerate

        def m_zip(ex, args, kwargs, st, node):
            return [Val(list(zip(*[self.iter_concrete(ex, x, node) for x in args])), st)]

        M[zip] = m_zip

        def m_range(ex, args, kwargs, st, node):
            if kwargs or not V.contains_sym(args):
                try:
                    return [Val(range(*args), st)]
                except Exception as e:
                    return [ex.raise_(type(e), st)]
            if len(args) > 2:
                ex.unsupported(node, "range with a step over symbolic bounds")
            from .abstractions import SymRange

            lo, hi = (0, args[0]) if len(args) == 1 else args
            return [Val(SymRange(lo, hi), st)]

        M[range] = m_range

        def m_reversed(ex, args, kwargs, st, node):
            return [Val(list(reversed(self.iter_concrete(ex, args[0], node))), st)]

        M[reversed] = m_reversed

        import itertools as _it

        def m_dropwhile(ex, args, kwargs, st, node):
            pred, items = args[0], self.iter_concrete(ex, args[1], node)
            out = []
            cur = st
            for i, it in enumerate(items):
                if cur is None:
                    break
                rs = self.call(ex, pred, [it], {}, cur, node)
                if len(rs) != 1 or not isinstance(rs[0], Val):
                    ex.unsupported(node, "dropwhile predicate forks")
                t, f = ex.split(ex.truthy(rs[0].v, rs[0].st), rs[0].st)
                if f is not None:
                    out.append(Val(list(items[i:]), f))
                cur = t
            if cur is not None:
                out.append(Val([], cur))
            return out

        M[_it.dropwhile] = m_dropwhile

        def m_sorted(ex, args, kwargs, st, node):
            x = args[0]
            if isinstance(x, GenCall):
                gc = self.registry.get(x.fr.qualname)
                if gc is not None and getattr(gc, "as_list", None) is not None and x.fr.qualname != ex.top:
                    out = []
                    for r in gc.as_list(ex, x, st, node):
                        if isinstance(r, Exc):
                            out.append(r)
                        elif hasattr(r.v, "__pyvc_sorted__"):
                            lst = r.v.__pyvc_sorted__(ex, kwargs, r.st)
                            r.st.ghost["sorted_matches"] = lst
                            out.append(Val(lst, r.st))
                        else:
                            from contracts.diff import sorted_path_items

                            lst = sorted_path_items(ex, r.v, r.st)
                            r.st.ghost["diff_items"] = lst
                            out.append(Val(lst, r.st))
                    return out
            if isinstance(x, GenCall):
                out = []
                for r in self.collect_generator(ex, x, st, node):
                    if isinstance(r, Exc):
                        out.append(r)
                    else:
                        out.extend(m_sorted(ex, [r.v] + list(args[1:]), kwargs, r.st, node))
                return out
            items = self.iter_concrete(ex, x, node)
            key = kwargs.get("key")
            if isinstance(key, Lambda):
                keys = []
                for it in items:
                    rs = self.call_lambda(ex, key, [it], st, node)
                    if len(rs) != 1 or not isinstance(rs[0], Val) or V.contains_sym(rs[0].v):
                        ex.unsupported(node, "sorted with symbolic key")
                    keys.append(rs[0].v)
                order = sorted(range(len(items)), key=lambda i: keys[i], reverse=bool(kwargs.get("reverse", False)))
                return [Val([items[i] for i in order], st)]
            if key is not None and not callable(key):
                ex.unsupported(node, "sorted key")
            if V.contains_sym(items):
                # sort by concrete first components when they are all distinct
                firsts = [it[0] if isinstance(it, tuple) else it for it in items]
                if not V.contains_sym(firsts) and len(set(map(repr, firsts))) == len(firsts) and key is None:
                    order = sorted(range(len(items)), key=lambda i: firsts[i], reverse=bool(kwargs.get("reverse", False)))
                    return [Val([items[i] for i in order], st)]
                ex.unsupported(node, "sorted of symbolic items")
            return [Val(sorted(items, key=key, reverse=bool(kwargs.get("reverse", False))), st)]

        M[sorted] = m_sorted

        def m_max(ex, args, kwargs, st, node):
            items = list(args) if len(args) > 1 else self.iter_concrete(ex, args[0], node)
            r = items[0]
            for x in items[1:]:
                r = v_ite(v_cmp(">", x, r), x, r)
            return [Val(r, st)]

        def m_min(ex, args, kwargs, st, node):
            items = list(args) if len(args) > 1 else self.iter_concrete(ex, args[0], node)
            r = items[0]
            for x in items[1:]:
                r = v_ite(v_cmp("<", x, r), x, r)
            return [Val(r, st)]

        M[max] = m_max
        M[min] = m_min

        def m_print(ex, args, kwargs, st, node):
            st.emit("Out", tuple(args))
            return [Val(None, st)]

        M[print] = m_print
        M[click.echo] = m_print

        def m_noop(ex, args, kwargs, st, node):
            return [Val(None, st)]

        M[logging.basicConfig] = m_noop

        def m_iter(ex, args, kwargs, st, node):
            ex.unsupported(node, "iter()")

        M[iter] = m_iter

        def m_open(ex, args, kwargs, st, node):
            path = args[0]
            mode = kwargs.get("mode", args[1] if len(args) > 1 else "r")
            p = path if isinstance(path, PathVal) else PathVal(path)
            return self.open_file(ex, p, mode, kwargs, st, node)

        M[open] = m_open
        M[io.open] = m_open

        import pathlib

        def m_path(ex, args, kwargs, st, node):
            if not args:
                return [Val(PathVal("."), st)]
            a0 = args[0]
            if isinstance(a0, PathVal):
                return [Val(a0, st)]
            return [Val(PathVal(a0), st)]

        M[pathlib.Path] = m_path
        try:
            from bumpver import pathlib as bpl

            M[bpl.Path] = m_path
        except Exception:
            pass

        # ---- A-proc: process environment and subprocesses
        M[os.environ.copy] = lambda ex, args, kwargs, st, node: [Val({"<os.environ>": True}, st)]

        def m_popen(ex, args, kwargs, st, node):
            st.emit("Popen", args[0] if args else kwargs.get("args"), kwargs.get("env"))
            bad = st.fork()
            proc = ProcVal(V.sint(fresh_name("returncode")))
            return [Exc(ExcVal(OSError, (V.sstr(fresh_name("oserr")),)), bad), Val(proc, st)]

        M[subprocess.Popen] = m_popen

        def m_check_output(ex, args, kwargs, st, node):
            st.emit("Exec", args[0] if args else kwargs.get("args"), kwargs.get("env"))
            out = []
            for cls in (subprocess.CalledProcessError, OSError):
                s2 = st.fork()
                out.append(Exc(ExcVal(cls, (V.sstr(fresh_name("excmsg")),)), s2))
            out.append(Val(BytesVal(V.sstr(fresh_name("output"))), st))
            return out

        M[subprocess.check_output] = m_check_output

        def m_unlink(ex, args, kwargs, st, node):
            st.emit("Unlink", args[0])
            return [Val(None, st)]

        M[os.unlink] = m_unlink

        def m_path_exists(ex, args, kwargs, st, node):
            ver = fs_version(st)
            st.emit("Exists", args[0])
            return [Val(SBool(FS_EXISTS(V.z3str(args[0]), z3.IntVal(ver))), st)]

        M[os.path.exists] = m_path_exists

        def m_sp_call(ex, args, kwargs, st, node):
            st.emit("Exec", args[0] if args else kwargs.get("args"), kwargs.get("env"))
            bad = st.fork()
            return [Exc(ExcVal(OSError, (V.sstr(fresh_name("oserr")),)), bad), Val(V.sint(fresh_name("retcode")), st)]

        M[subprocess.call] = m_sp_call

        import tempfile

        def m_tmpfile(ex, args, kwargs, st, node):
            name = V.sstr(fresh_name("tmpname"))
            st.emit("TempFile", name)
            return [Val(FileVal(PathVal(name), args[0] if args else "w+b", {}), st)]

        M[tempfile.NamedTemporaryFile] = m_tmpfile

        import shlex

        def m_shlex_split(ex, args, kwargs, st, node):
            from . import shlexmodel

            return shlexmodel.split(self, ex, args[0], st, node)

        M[shlex.split] = m_shlex_split

    def isinstance_(self, v, t):
        if isinstance(t, tuple):
            return b_or(*[self.isinstance_(v, x) for x in t])
        if isinstance(v, (SGuard, SEnum)):
            return b_or(*[b_and(g, self.isinstance_(x, t)) for g, x in V.as_guards(v)])
        if isinstance(v, SOpt):
            if t is type(None):
                return v.isnone
            return b_and(b_not(v.isnone), self.isinstance_(v.val, t))
        if isinstance(v, SInt):
            return t in (int, object)
        if isinstance(v, SBool):
            return t in (bool, int, object)
        if isinstance(v, SStr):
            return t in (str, object)
        if isinstance(v, SRec):
            return issubclass(v.cls, t)
        if isinstance(v, SObj):
            return issubclass(v.cls, t)
        if isinstance(v, PathVal):
            import pathlib

            return issubclass(pathlib.Path, t) if isinstance(t, type) else False
        if isinstance(v, ExcVal):
            return issubclass(v.cls, t)
        if isinstance(v, SSeq):
            return t in (list, object)
        if hasattr(v, "__pyvc_isinstance__"):
            return v.__pyvc_isinstance__(t)
        try:
            return isinstance(v, t)
        except TypeError:
            raise Unsupported(f"isinstance({v!r}, {t!r})")


class OpaquePatternList:
    """A list of compiled patterns of unknown length; elements expose raw_pattern/version_pattern text."""

    __pyvc_symbolic_iter__ = True

    def __init__(self, op):
        self.op = op
        self.n = z3.Int(fresh_name("npatterns"))

    def __pyvc_elem__(self, k):
        tag = fresh_name("pattern")
        return SOpaque("Pattern", z3.Const(tag, V.opaque_sort("Pattern")), attrs=dict(raw_pattern=V.sstr(tag + ".raw_pattern"), version_pattern=V.sstr(tag + ".version_pattern"), regexp=SOpaque("Regex", z3.Const(tag + ".regexp", V.opaque_sort("Regex")))))


class ProcVal:
    """subprocess.Popen object (A-proc): pipes are not modelled (they only feed log text)."""

    def __init__(self, returncode):
        self.returncode = returncode
        self.stdout = None
        self.stderr = None

    def __pyvc_method__(self, ex, name, args, kwargs, st, node):
        if name == "wait":
            st.emit("ProcResult", "wait", self)
            return [Val(self.returncode, st)]
        raise Unsupported(f"Popen.{name}")


class BytesVal:
    """bytes holding the utf-8 encoding of a string."""

    def __init__(self, s):
        self.s = s

    def __pyvc_method__(self, ex, name, args, kwargs, st, node):
        if name == "decode":
            return [Val(self.s, st)]
        raise Unsupported(f"bytes.{name}")

    def __pyvc_contains__(self, needle):
        if isinstance(needle, bytes) and needle.isascii():
            return z3.Contains(V.z3str(self.s), z3.StringVal(needle.decode("ascii")))
        raise Unsupported("bytes containment")


class SymSet:
    """A set with symbolic members of concrete count (duplicates possible)."""

    def __init__(self, items):
        self.items = list(items)

    def __pyvc_contains__(self, needle):
        return b_or(*[v_eq(needle, x) for x in self.items])

    def __pyvc_truthy__(self):
        return len(self.items) > 0

    def __pyvc_iter__(self):
        return list(self.items)


def _names(t):
    return {n.id for n in ast.walk(t) if isinstance(n, ast.Name)}


def _find_clone(st, obj, orig_st):
    # objects constructed before a fork: locate the clone by walking env of both states
    return obj
