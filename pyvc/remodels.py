"""A-re: models of compiled regular expressions applied to symbolic strings.
Only the *shape* of the API is modelled (a match has a span inside the subject
and groups that are substrings or None); which strings match is left
uninterpreted unless the caller's contract says more."""
import itertools

import z3

from .values import *  # noqa
from . import values as V
from .symexec import Val, Exc, Unsupported, fresh_name

_ids = itertools.count()


class SymMatch:
    def __init__(self, pattern, subject, tag):
        self.pattern, self.subject, self.tag = pattern, subject, tag
        self.start = z3.Int(f"{tag}.start")
        self.end = z3.Int(f"{tag}.end")
        self.groups = {}

    def facts(self):
        n = z3.Length(V.z3str(self.subject))
        return z3.And(self.start >= 0, self.start <= self.end, self.end <= n)

    def group0(self):
        return SStr(z3.SubString(V.z3str(self.subject), self.start, self.end - self.start))

    def named(self, name):
        if name not in self.groups:
            self.groups[name] = SOpt(z3.Bool(f"{self.tag}.{name}?none"), SStr(z3.String(f"{self.tag}.{name}")))
        return self.groups[name]

    def __pyvc_truthy__(self):
        return True

    def __pyvc_method__(self, ex, name, args, kwargs, st, node):
        if name == "groupdict":
            return [Val({g: self.named(g) for g in self.pattern.groupindex}, st)]
        if name == "group":
            if not args or args[0] == 0:
                return [Val(self.group0(), st)]
            if isinstance(args[0], str):
                return [Val(self.named(args[0]), st)]
            return [Val(self.named(f"#{args[0]}"), st)]
        if name == "span":
            return [Val((SInt(self.start), SInt(self.end)), st)]
        if name == "start":
            return [Val(SInt(self.start), st)]
        if name == "end":
            return [Val(SInt(self.end), st)]
        raise Unsupported(f"match.{name}")


class SymMatchOpt:
    """Result of search/match: None or a match."""

    def __init__(self, isnone, m):
        self.isnone, self.m = isnone, m

    def __pyvc_is_none__(self):
        return self.isnone

    def __pyvc_truthy__(self):
        return z3.Not(self.isnone)

    def __pyvc_method__(self, ex, name, args, kwargs, st, node):
        t, f = ex.split(self.isnone, st)
        out = []
        if t is not None:
            out.append(ex.raise_(AttributeError, t, name))
        if f is not None:
            out.extend(self.m.__pyvc_method__(ex, name, args, kwargs, f, node))
        return out


class SymMatchSeq:
    __pyvc_symbolic_iter__ = True

    def __init__(self, pattern, subject, tag):
        self.pattern, self.subject, self.tag = pattern, subject, tag
        self.n = z3.Int(f"{tag}.count")

    def __pyvc_len__(self):
        return SInt(self.n)

    def __pyvc_elem__(self, k):
        return SymMatch(self.pattern, self.subject, fresh_name(f"{self.tag}[k]"))


def pattern_method(models, ex, pat, name, args, kwargs, st, node):
    if not V.contains_sym(args) and not V.contains_sym(kwargs):
        try:
            return [Val(getattr(pat, name)(*args, **kwargs), st)]
        except Exception as e:
            return [ex.raise_(type(e), st)]
    subject = args[0]
    tag = fresh_name(f"re{next(_ids)}")
    if name == "finditer":
        seq = SymMatchSeq(pat, subject, tag)
        st.assume(seq.n >= 0)
        return [Val(seq, st)]
    if name in ("search", "match"):
        m = SymMatch(pat, subject, tag)
        isnone = z3.Bool(f"{tag}?none")
        st.assume(z3.Implies(z3.Not(isnone), m.facts()))
        if name == "match":
            st.assume(z3.Implies(z3.Not(isnone), m.start == 0))
        return [Val(SymMatchOpt(isnone, m), st)]
    raise Unsupported(f"re.Pattern.{name} on symbolic string")
