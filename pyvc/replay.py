"""Replay of solver counterexamples against the real code of the same tree."""
import importlib
import json
import os
import traceback

VERIF = os.path.dirname(os.path.dirname(os.path.abspath(__file__)))


class ConcreteCtx:
    def __init__(self, log=None, ghost=None):
        self.log = log or []
        self.log0 = 0
        self.new = self.log
        self.ghost = ghost or {}
        self.st = None


def resolve_callable(qualname):
    parts = qualname.split(".")
    for i in range(len(parts) - 1, 0, -1):
        try:
            mod = importlib.import_module(".".join(parts[:i]))
        except ImportError:
            continue
        obj = mod
        ok = True
        for nm in parts[i:]:
            if not hasattr(obj, nm):
                ok = False
                break
            obj = getattr(obj, nm)
        if ok:
            return obj
    raise KeyError(qualname)


def find_clause(contract, name):
    for cl in contract.ensures_:
        if cl.name == name:
            return "ensures", cl
    for cls, lst in contract.exsures_.items():
        for cl in lst:
            if cl.name == name:
                return cls, cl
    return None, None


def to_py(v):
    """JSON model -> Python values (namedtuples are rebuilt lazily by the replayer)."""
    return v


def replay_obligation(src, reg, contract, ob, result):
    """Run the real function on the decoded counterexample and evaluate the failed
    clause concretely. Returns a JSON-able dict."""
    model_py = result.pop("model_py", None)
    info = dict(obligation=ob.name, function=contract.qualname, variant=contract.variant, reproduced=False)
    if model_py is None:
        info["note"] = "solver gave no model"
        return info
    custom = getattr(contract, "replayer", None)
    if custom is not None:
        info.update(custom(contract, ob, model_py))
        info.setdefault("reproduced", False)
        return info
    if ob.kind == "side":
        info["note"] = "side obligation (loop invariant / call-site precondition): no direct concrete replay"
        return info
    # the real function may write files named by the counter-model (config init, rewrite): run it in a scratch directory
    import os, shutil, tempfile

    cwd, scratch = os.getcwd(), tempfile.mkdtemp(prefix="pyvc_replay_")
    try:
        os.chdir(scratch)
        return generic_replay(contract, ob.name, ob.kind, model_py, info)
    finally:
        os.chdir(cwd)
        shutil.rmtree(scratch, ignore_errors=True)


def generic_replay(contract, obname, obkind, model_py, info):
    from .contracts import Args

    try:
        fn = resolve_callable(contract.qualname)
    except KeyError:
        info["note"] = "function not resolvable for replay"
        return info
    fn = getattr(fn, "__wrapped__", fn)
    kwargs = {p: model_py[p] for p in contract.params if p in model_py}

    def _is_model_object(v):
        if isinstance(v, (list, tuple, set, frozenset)):
            return any(_is_model_object(x) for x in v)
        if isinstance(v, dict):
            return any(_is_model_object(x) for x in v.values())
        return type(v).__module__.split(".")[0] in ("pyvc", "contracts") or (isinstance(v, str) and v.startswith("<") and ":" in v and v.endswith(">"))

    if any(_is_model_object(v) for v in kwargs.values()):
        # an abstract value (opaque sort, modelled object) has no concrete counterpart to call the real function with
        info["note"] = "counterexample contains abstract values that cannot be turned into real arguments"
        info["inputs"] = {k: repr(v)[:200] for k, v in kwargs.items()}
        return info
    patched = []
    try:
        for (modname, attr) in contract.globals_:
            key = f"{modname}.{attr}"
            if key in model_py:
                mod = importlib.import_module(modname)
                patched.append((mod, attr, getattr(mod, attr)))
                setattr(mod, attr, model_py[key])
        envs = [None]
        search = getattr(contract, "replay_search", None)
        if search is not None:
            envs = list(search(model_py))
        for env in envs:
            undo = env() if env is not None else None
            try:
                try:
                    res = fn(**kwargs)
                    raised = None
                except BaseException as e:  # noqa
                    res, raised = None, e
            finally:
                if undo:
                    undo()
            info["inputs"] = _j(kwargs)
            info["observed"] = _j(res) if raised is None else f"raised {type(raised).__name__}: {raised}"
            a = Args(kwargs)
            where, cl = find_clause(contract, obname)
            ok = None
            if obkind == "raises_only":
                ok = raised is None or any(isinstance(raised, c) for c in contract.exsures_)
            elif cl is None:
                info["note"] = "clause not found"
                return info
            elif where == "ensures":
                if raised is not None:
                    ok = None
                else:
                    ok = bool(cl.fn(a, res, ConcreteCtx()))
            else:
                if raised is not None and isinstance(raised, where):
                    ok = bool(cl.fn(a, raised, ConcreteCtx()))
            if ok is False:
                info["reproduced"] = True
                return info
        info["note"] = "counterexample did not reproduce on the real function (over-approximated callee or environment)"
        return info
    except Exception:
        info["error"] = traceback.format_exc()
        return info
    finally:
        for mod, attr, old in patched:
            setattr(mod, attr, old)


def _j(v):
    from .contracts import _jsonable

    return _jsonable(v)


def write_replay(prop, obname, payload):
    d = os.path.join(VERIF, "replays", prop)
    os.makedirs(d, exist_ok=True)
    safe = obname.replace("/", "_").replace(" ", "_")
    path = os.path.join(d, safe + ".json")
    payload = dict(payload)
    payload["replay_cmd"] = f"./check {prop} --replay {os.path.relpath(path, VERIF)}"
    with open(path, "w") as fh:
        json.dump(payload, fh, indent=1, default=repr)
    return os.path.relpath(path, VERIF)


def replay_file(path):
    """./check Cxx --replay <path>: re-run a stored counterexample on the current tree."""
    import sys

    sys.path.insert(0, VERIF)
    p = path if os.path.isabs(path) else os.path.join(VERIF, path)
    data = json.load(open(p))
    print(json.dumps({k: data.get(k) for k in ("property", "obligation", "function", "inputs", "observed", "reproduced", "verdict")}, indent=1))
    rp = data.get("python_replay")
    if rp:
        mod = importlib.import_module(rp["module"])
        ok = getattr(mod, rp["function"])(*rp.get("args", []))
        print("replay on current tree:", "FAILS (violation reproduced)" if not ok else "passes")
        return 1 if not ok else 0
    from .driver import load_registry
    from .contracts import Args

    reg = load_registry()
    key = data.get("contract_key")
    if key and key in reg and data.get("model_py_repr") is not None:
        contract = reg[key]
        model_py = _rebuild(data["model"], contract)
        info = generic_replay(contract, data["obligation"], data.get("kind", "ensures"), model_py, {})
        print("replay on current tree:", "FAILS (violation reproduced)" if info.get("reproduced") else "does not reproduce", info.get("observed"))
        return 1 if info.get("reproduced") else 0
    print("no executable replay recorded for this obligation (solver output only)")
    return 0


def _rebuild(model, contract):
    """Rebuild Python values (namedtuples, dates) from the JSON form of a model."""
    import datetime

    def conv(v):
        if isinstance(v, dict) and "__namedtuple__" in v:
            from bumpver import version, config, parse, patterns, rewrite

            for m in (version, config, parse, patterns, rewrite):
                cls = getattr(m, v["__namedtuple__"], None)
                if cls is not None:
                    return cls(**{k: conv(x) for k, x in v.items() if k != "__namedtuple__"})
        if isinstance(v, dict) and "__date__" in v:
            return datetime.date.fromisoformat(v["__date__"])
        if isinstance(v, dict):
            return {k: conv(x) for k, x in v.items()}
        if isinstance(v, list):
            return [conv(x) for x in v]
        return v

    return {k: conv(v) for k, v in (model or {}).items()}
