"""Aggregation of results, evidence files, verdict lines and exit codes."""
import json
import os
import re

from .replay import write_replay

VERIF = os.path.dirname(os.path.dirname(os.path.abspath(__file__)))


def manifest_level(prop):
    try:
        m = json.load(open(os.path.join(VERIF, "MANIFEST.json")))
        for c in m["checks"]:
            if c["property_id"] == prop:
                return c["level_claimed"]["category"]
    except Exception:
        pass
    return "other"


def scan_assumptions(reg, keys):
    """Mechanical list of what stays assumed: trusted contracts reachable from the
    contracts of this property, plus the axioms of the models (DESIGN 1.4)."""
    out = []
    for k, c in reg.items():
        if c.trusted and c.variant is None:
            out.append(f"contract of {c.qualname} assumed at call sites: {c.trusted}")
        for cl in getattr(c, "assumed_", []):
            out.append(f"axiom on {c.qualname}: {cl.name}")
    return out


AXIOMS = [
    "A-dec: str(n)/int(s)/zero-padded formatting on decimal digit strings follow SMT-LIB int.to.str/str.to.int; (n>=0 => str(n) in [0-9]+ and int(str(n))=n); lexical order on equal-length digit strings is numeric order",
    "A-str: str.replace/startswith/endswith/format/join as the SMT string operations of the same meaning; format inserts argument text verbatim",
    "A-io: open(...).read() returns the file content unchanged only with newline='' and encoding given (checked as call-site obligations); write stores its argument",
    "A-proc: subprocess.check_output(argv) either returns bytes or raises CalledProcessError/OSError after the command was attempted; sys.exit(n) raises SystemExit(n)",
    "A-log: logger.* calls neither raise nor have effects; their arguments are not evaluated",
    "A-py3: Python-3 branches of hasattr/PY2 compatibility code",
    "Python integers are unbounded: arithmetic is mathematical (exact, not an assumption)",
    "symbolic executor pyvc itself (AST -> VC translation) and z3 5.1 / cvc5 1.0.3 are trusted",
]


def finish(prop, tier, seed, reg, keys, presults, py_results, known, wall):
    errors = [r for r in presults if r.get("error")]
    functions = {}
    obligations = {}  # name -> aggregate
    solver_time = 0.0
    backends = {}
    nqueries = 0
    canary_bad = []
    for r in presults:
        info = r.get("info") or {}
        if info:
            f = functions.setdefault(r["key"], dict(function=info.get("function"), contract=r["key"], file=info.get("file"), lines=info.get("lines"), sha256=info.get("sha256"), paths=info.get("paths"), path_kinds=info.get("path_kinds"), wall_s=0.0, precondition_sat=info.get("precondition_sat"), auto_inlined_callees=info.get("auto_inlined")))
            f["wall_s"] = round(f["wall_s"] + r.get("wall", 0.0), 2)
            if info.get("precondition_sat") == "unsat" or info.get("canary_feasible_path") is False or info.get("vacuous"):
                canary_bad.append(r["key"])
        for x in r.get("results", []):
            nqueries += 1
            solver_time += x.get("time", 0.0)
            backends[x.get("backend")] = backends.get(x.get("backend"), 0) + 1
            o = obligations.setdefault(x["name"], dict(name=x["name"], functions=set(), queries=0, unsat=0, sat=0, unknown=0, time=0.0, kind=x["kind"], cex=None, known=None))
            o["functions"].add(x["function"])
            o["queries"] += 1
            o["time"] += x.get("time", 0.0)
            v = x["verdict"]
            if v == "sat" and x.get("known_finding") and x.get("verdict_excluding_known") == "unsat":
                o["known"] = x["known_finding"]
                o["sat"] += 0
                o["unsat"] += 1
                o.setdefault("known_models", []).append(x)
                continue
            if v == "sat" and x.get("known_finding") and x.get("verdict_excluding_known") == "unknown":
                o["unknown"] += 1
                continue
            o[v] += 1
            if v == "sat" and (o["cex"] is None or (o["cex"].get("backend") == "skipped" and x.get("backend") != "skipped")):
                o["cex"] = x
    violations = []
    undecided = []
    known_lines = []
    for name, o in sorted(obligations.items()):
        if o["sat"]:
            violations.append(o)
        elif o["unknown"]:
            undecided.append(o)
        if o.get("known"):
            known_lines.append((o["known"], name))
    py_viol = [p for p in py_results if p.get("verdict") == "refuted" and not p.get("known_finding")]
    py_known = [p for p in py_results if p.get("verdict") == "refuted" and p.get("known_finding")]
    py_err = [p for p in py_results if p.get("verdict") == "error"]
    # obligations / discharged count what is decided for all inputs: P (VC unsat on every path) and X (complete
    # enumeration of a finite domain). Bounded layers (B) are reported next to them and never counted as discharged.
    decided_layers = [p for p in py_results if p.get("kind") != "B"]
    bounded_layers = [p for p in py_results if p.get("kind") == "B"]
    total_obl = len(obligations) + len(decided_layers)
    discharged = sum(1 for o in obligations.values() if not o["sat"] and not o["unknown"]) + sum(1 for p in decided_layers if p.get("verdict") == "held" or p.get("known_finding"))
    bounded_held = sum(1 for p in bounded_layers if p.get("verdict") == "held" or p.get("known_finding"))

    level = manifest_level(prop)
    samples = []
    for name, o in list(sorted(obligations.items()))[:6]:
        samples.append(dict(obligation=name, kind=o["kind"], queries=o["queries"], verdict=("refuted" if o["sat"] else "undecided" if o["unknown"] else "discharged"), functions=sorted(o["functions"])))
    for p in py_results[:6]:
        samples.append({k: p.get(k) for k in ("name", "kind", "verdict", "cases", "domain", "bound", "sample")})
    trusted = list(AXIOMS) + scan_assumptions(reg, keys)
    evaluations = nqueries + sum(int(p.get("cases", 0)) for p in py_results)
    distinct = len(obligations) + sum(int(p.get("distinct", p.get("cases", 0))) for p in py_results)
    explanation = (
        f"P: {len(obligations)} named obligations generated from the real source of {len(functions)} function contracts "
        f"({nqueries} per-path SMT queries, back ends {backends}); "
        f"X/B layers: {[(p['name'], p['kind'], p.get('cases')) for p in py_results]}. "
        "P = VC discharged unsat for all inputs; X = complete enumeration of a finite domain; B = bounded, never counted as proved "
        "(obligations/discharged count P and X only; B layers are counted in bounded_checks; an obligation whose only counterexamples are a listed known finding counts as discharged modulo that finding and is named under assumptions)."
    )
    ev = dict(
        property_id=prop,
        tier=tier,
        seed=seed,
        level=level,
        coverage=dict(
            obligations=total_obl,
            discharged=discharged,
            bounded_checks=len(bounded_layers),
            bounded_checks_held=bounded_held,
            checker_cmd=f"./check {prop} --tier {tier}",
            trusted_base=trusted,
            explanation=explanation,
            evaluations=evaluations,
            distinct_nontrivial=distinct,
            rule="one evaluation = one (function, path, clause) SMT query or one enumerated/bounded case; distinct = distinct named obligations + distinct enumerated cases",
            samples=samples,
            exhaustive=any(p.get("kind") == "X" for p in py_results),
            functions_under_contract=sorted(functions.values(), key=lambda f: f["contract"]),
            obligations_detail=[
                dict(name=n, kind=o["kind"], queries=o["queries"], unsat=o["unsat"], sat=o["sat"], unknown=o["unknown"], solver_s=round(o["time"], 3), known_finding=o.get("known"))
                for n, o in sorted(obligations.items())
            ],
            python_layers=[{k: v for k, v in p.items() if k != "witness_py"} for p in py_results],
            backends=backends,
            solver_time_s=round(solver_time, 2),
        ),
        assumptions=trusted + [f"known finding excluded from obligation {n}: {k}" for k, n in known_lines] + [f"known finding excluded from layer {p['name']}: {p.get('known_finding')}" for p in py_known],
        wall_s=round(wall, 2),
        violations=len(violations) + len(py_viol),
    )
    evdir = os.environ.get("VERIF_EVIDENCE_DIR") or os.path.join(VERIF, "evidence")
    os.makedirs(evdir, exist_ok=True)
    with open(os.path.join(evdir, f"{prop}.json"), "w") as fh:
        json.dump(ev, fh, indent=1, default=_default)

    # ---- verdict
    if errors or py_err or canary_bad:
        for r in errors:
            print(f"CHECKER-ERROR property={prop} contract={r['key']} {r['error'].strip().splitlines()[-1] if r['error'] else ''}")
            if "TRACEBACK" in (r["error"] or ""):
                print(r["error"])
        for p in py_err:
            print(f"CHECKER-ERROR property={prop} layer={p['name']} {p.get('detail')}")
        for k in canary_bad:
            print(f"CHECKER-ERROR property={prop} contract={k} vacuous (precondition unsatisfiable or no feasible path)")
    if total_obl + len(bounded_layers) == 0:
        print(f"CHECKER-ERROR property={prop} zero obligations generated")
        return 3
    for kf in known:
        hit = [n for k, n in known_lines if k == kf["id"]] or [p["name"] for p in py_known if kf["id"] in str(p.get("known_finding")).split(",")]
        if hit:
            print(f"KNOWN-FINDING: property={prop} {kf['what']} (obligation {hit[0]})")
    for o in violations:
        x = o["cex"]
        rp = x.get("replay") or {}
        payload = dict(property=prop, obligation=o["name"], function=x["function"], contract_key=x["function"], kind=x["kind"], verdict="sat", backend=x["backend"], solver_time=x["time"], model=x.get("model"), model_py_repr=repr(x.get("model")), detail=x.get("detail"), inputs=rp.get("inputs"), observed=rp.get("observed"), reproduced=rp.get("reproduced", False), note=rp.get("note"), error=rp.get("error"), solver_output=f"sat; model over contract inputs: {json.dumps(x.get('model'), default=repr)[:4000]}")
        path = write_replay(prop, o["name"], payload)
        tail = "" if rp.get("reproduced") else " no-failing-input-found"
        print(f"VIOLATION property={prop} replay={path}{tail}")
    for p in py_viol:
        payload = dict(property=prop, obligation=p["name"], kind=p["kind"], verdict="refuted", inputs=p.get("witness"), observed=p.get("observed"), reproduced=True, python_replay=p.get("python_replay"))
        path = write_replay(prop, p["name"], payload)
        print(f"VIOLATION property={prop} replay={path}")
    if violations or py_viol:
        return 1
    if errors or py_err or canary_bad:
        return 3
    if undecided:
        for o in undecided:
            print(f"UNDECIDED property={prop} obligation={o['name']}")
        return 2
    print(f"OK property={prop} tier={tier} obligations={total_obl} discharged={discharged} bounded={bounded_held}/{len(bounded_layers)} queries={nqueries} wall={wall:.1f}s")
    return 0


def _default(o):
    if isinstance(o, set):
        return sorted(o)
    return repr(o)
