"""A-proc: shlex.split. Concrete text is tokenised by the real shlex; for a symbolic text the
result is an arbitrary list of strings (sound over-approximation: nothing about the tokenisation of
a string containing unknown text can be relied upon - which is exactly why formatting values into
a command line before splitting it is refuted)."""
import shlex

import z3

from .values import *  # noqa
from . import values as V
from .symexec import Val, Exc, ExcVal, fresh_name


def split(models, ex, s, st, node):
    if isinstance(s, (SGuard, SEnum)):
        out = []
        for g, x in V.as_guards(s):
            s2 = st.fork()
            s2.assume(g)
            out.extend(split(models, ex, x, s2, node))
        return out
    if isinstance(s, str):
        try:
            return [Val(shlex.split(s), st)]
        except ValueError:
            return [ex.raise_(ValueError, st, "No closing quotation")]
    bad = st.fork()
    res = SSeq(z3.Const(fresh_name("shlex_tokens"), z3.SeqSort(z3.StringSort())), "str")
    return [Exc(ExcVal(ValueError, ("No closing quotation",)), bad), Val(res, st)]
