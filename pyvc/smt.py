"""Discharging queries: z3 first, cvc5 (CLI) for what z3 leaves unknown."""
import os
import subprocess
import tempfile
import time

import z3

CVC5 = "/usr/bin/cvc5"

STATS = {"z3_queries": 0, "cvc5_queries": 0, "z3_time": 0.0, "cvc5_time": 0.0}


def check(assertions, timeout_ms=10000, want_model=True, use_cvc5=True, logic=None):
    """Return (verdict, model_or_None, backend, seconds). verdict in sat/unsat/unknown."""
    s = z3.Solver()
    s.set("timeout", int(timeout_ms))
    for a in assertions:
        s.add(a)
    t0 = time.time()
    r = s.check()
    dt = time.time() - t0
    STATS["z3_queries"] += 1
    STATS["z3_time"] += dt
    if r == z3.unsat:
        return "unsat", None, "z3", dt
    if r == z3.sat:
        return "sat", (s.model() if want_model else None), "z3", dt
    # refutation under the order laws of the version key: z3 answers `unknown` for satisfiable queries that
    # contain the three quantified laws. They are total-preorder laws over an uninterpreted relation, for which
    # instantiation over the ground argument terms of the query is complete (a finite total preorder extends
    # to all strings by ranking every other string below the ground ones): retry with the instances.
    g = _ground_order_instances(assertions)
    if g is not None:
        s2 = z3.Solver()
        s2.set("timeout", int(timeout_ms))
        for a in g:
            s2.add(a)
        t1 = time.time()
        r2 = s2.check()
        dt += time.time() - t1
        if r2 == z3.sat:
            return "sat", (s2.model() if want_model else None), "z3-ground-order-laws", dt
        if r2 == z3.unsat:
            return "unsat", None, "z3-ground-order-laws", dt
    if not use_cvc5:
        return "unknown", None, "z3", dt
    v, dt2 = cvc5_check(s, timeout_ms)
    if v == "unsat":
        return "unsat", None, "cvc5", dt + dt2
    if v == "sat":
        # no model decoding from cvc5; caller may retry z3 with a longer budget
        return "sat", None, "cvc5", dt + dt2
    return "unknown", None, "z3+cvc5", dt + dt2


def _ground_order_instances(assertions):
    """If every quantified assertion is one of the order laws (bound variables named *!ol), return the
    assertions with those laws replaced by their instances over the ground arguments of the relation."""
    laws, rest = [], []
    for a in assertions:
        if z3.is_quantifier(a):
            if not all(a.var_name(i).endswith("!ol") for i in range(a.num_vars())):
                return None
            laws.append(a)
        else:
            rest.append(a)
    if not laws:
        return None
    # unit propagation: quantified callee facts guarded by a literal that this path refutes disappear
    try:
        goal = z3.Goal()
        for a in rest:
            goal.add(a)
        sub = z3.Then("simplify", "propagate-values", "simplify")(goal)
        if len(sub) == 1:
            rest = list(sub[0])
    except z3.Z3Exception:
        pass
    rel = None
    terms = {}
    seen = set()
    stack = list(rest)
    # the relation symbol: the uninterpreted predicate of the first law
    body = laws[0].body()
    st2 = [body]
    while st2:
        t = st2.pop()
        if z3.is_app(t) and t.decl().kind() == z3.Z3_OP_UNINTERPRETED and t.num_args() == 2:
            rel = t.decl()
            break
        st2.extend(t.children())
    if rel is None:
        return None
    while stack:
        t = stack.pop()
        if t.get_id() in seen:
            continue
        seen.add(t.get_id())
        if z3.is_quantifier(t):
            return None  # nested quantifier elsewhere: not the fragment this argument covers
        if z3.is_app(t):
            if t.decl().eq(rel):
                for c in t.children():
                    terms[c.get_id()] = c
            stack.extend(t.children())
    ts = list(terms.values())
    if not ts or len(ts) > 12:
        return None
    out = list(rest)
    for x in ts:
        out.append(rel(x, x))
        for y in ts:
            out.append(z3.Or(rel(x, y), rel(y, x)))
            for z in ts:
                out.append(z3.Implies(z3.And(rel(x, y), rel(y, z)), rel(x, z)))
    return out


def cvc5_check(solver, timeout_ms):
    text = solver.to_smt2()
    text = "(set-logic ALL)\n" + text
    t0 = time.time()
    with tempfile.NamedTemporaryFile("w", suffix=".smt2", delete=False) as fh:
        fh.write(text)
        path = fh.name
    try:
        p = subprocess.run(
            [CVC5, "--strings-exp", f"--tlimit={int(timeout_ms)}", path],
            capture_output=True,
            text=True,
            timeout=timeout_ms / 1000 + 5,
        )
        out = p.stdout.strip().splitlines()
        v = out[0].strip() if out else "unknown"
        if v not in ("sat", "unsat"):
            v = "unknown"
    except Exception:
        v = "unknown"
    finally:
        os.unlink(path)
    dt = time.time() - t0
    STATS["cvc5_queries"] += 1
    STATS["cvc5_time"] += dt
    return v, dt


_feas_cache = {}


def quick_feasible(pc, timeout_ms=int(os.environ.get("PYVC_PRUNE_MS", "60"))):
    """Cheap feasibility test used for pruning; unknown counts as feasible."""
    if not pc:
        return True
    s = z3.Solver()
    s.set("timeout", timeout_ms)
    for a in pc:
        s.add(a)
    r = s.check()
    STATS["z3_queries"] += 1
    return r != z3.unsat
