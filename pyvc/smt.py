"""Discharging queries: z3 first, cvc5 (CLI) for what z3 leaves unknown."""
import os
import subprocess
import tempfile
import time

import z3

CVC5 = "/usr/bin/cvc5"

STATS = {"z3_queries": 0, "cvc5_queries": 0, "z3_time": 0.0, "cvc5_time": 0.0}


def check(assertions, timeout_ms=10000, want_model=True, use_cvc5=True, logic=None):
    """Return (verdict, model_or_None, backend, seconds). verdict in sat/unsat/unknown."""
    s = z3.Solver()
    s.set("timeout", int(timeout_ms))
    for a in assertions:
        s.add(a)
    t0 = time.time()
    r = s.check()
    dt = time.time() - t0
    STATS["z3_queries"] += 1
    STATS["z3_time"] += dt
    if r == z3.unsat:
        return "unsat", None, "z3", dt
    if r == z3.sat:
        return "sat", (s.model() if want_model else None), "z3", dt
    if not use_cvc5:
        return "unknown", None, "z3", dt
    v, dt2 = cvc5_check(s, timeout_ms)
    if v == "unsat":
        return "unsat", None, "cvc5", dt + dt2
    if v == "sat":
        # no model decoding from cvc5; caller may retry z3 with a longer budget
        return "sat", None, "cvc5", dt + dt2
    return "unknown", None, "z3+cvc5", dt + dt2


def cvc5_check(solver, timeout_ms):
    text = solver.to_smt2()
    text = "(set-logic ALL)\n" + text
    t0 = time.time()
    with tempfile.NamedTemporaryFile("w", suffix=".smt2", delete=False) as fh:
        fh.write(text)
        path = fh.name
    try:
        p = subprocess.run(
            [CVC5, "--strings-exp", f"--tlimit={int(timeout_ms)}", path],
            capture_output=True,
            text=True,
            timeout=timeout_ms / 1000 + 5,
        )
        out = p.stdout.strip().splitlines()
        v = out[0].strip() if out else "unknown"
        if v not in ("sat", "unsat"):
            v = "unknown"
    except Exception:
        v = "unknown"
    finally:
        os.unlink(path)
    dt = time.time() - t0
    STATS["cvc5_queries"] += 1
    STATS["cvc5_time"] += dt
    return v, dt


_feas_cache = {}


def quick_feasible(pc, timeout_ms=int(os.environ.get("PYVC_PRUNE_MS", "60"))):
    """Cheap feasibility test used for pruning; unknown counts as feasible."""
    if not pc:
        return True
    s = z3.Solver()
    s.set("timeout", timeout_ms)
    for a in pc:
        s.add(a)
    r = s.check()
    STATS["z3_queries"] += 1
    return r != z3.unsat
