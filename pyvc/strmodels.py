"""Models of str methods (A-str). Concrete receivers and arguments are evaluated
natively; symbolic ones are translated to the SMT string theory where a direct
counterpart exists, otherwise the call is Unsupported (never guessed)."""
import z3

from .values import *  # noqa
from . import values as V
from .symexec import Val, Exc, Unsupported, fresh_name

WS = " \t\n\r\x0b\x0c"


def _conc(*xs):
    return not any(V.contains_sym(x) for x in xs)


def str_method(models, ex, obj, name, args, kwargs, st, node):
    if _conc(obj, args, kwargs) and not any(hasattr(a, "__pyvc_eq__") for a in args):
        try:
            r = getattr(obj, name)(*args, **kwargs)
        except Exception as e:
            return [ex.raise_(type(e), st)]
        return [Val(r, st)]
    if any(isinstance(a, (SGuard, SEnum)) for a in args):
        import itertools

        out = []
        alts = [V.as_guards(a) for a in args]
        for combo in itertools.product(*alts):
            s2 = st.fork()
            for g, _ in combo:
                s2.assume(g)
            if ex.feasible is None or ex.feasible(s2.pc):
                out.extend(str_method(models, ex, obj, name, [x for _, x in combo], kwargs, s2, node))
        return out
    s = V.z3str(obj)
    if name == "startswith":
        return [Val(SBool(z3.PrefixOf(V.z3str(args[0]), s)), st)]
    if name == "endswith":
        return [Val(SBool(z3.SuffixOf(V.z3str(args[0]), s)), st)]
    if name == "format":
        return str_format(models, ex, obj, args, kwargs, st, node)
    if name == "replace":
        old, new = args[0], args[1]
        if isinstance(old, str) and old == "":
            ex.unsupported(node, "replace of empty needle")
        t = z3.SeqRef(z3.Z3_mk_seq_replace_all(s.ctx_ref(), s.as_ast(), V.z3str(old).as_ast(), V.z3str(new).as_ast()), s.ctx)
        return [Val(SStr(t), st)]
    if name == "lower":
        from .models import LOWER

        return [Val(SStr(LOWER(s)), st)]
    if name == "strip" and not args:
        from .models import STRIP_WS

        return [Val(SStr(STRIP_WS(s)), st)]
    if name == "isdigit":
        digits = z3.Plus(z3.Range("0", "9"))
        return [Val(SBool(z3.InRe(s, digits)), st)]
    if name == "find":
        sub = V.z3str(args[0])
        start = V.z3int(args[1]) if len(args) > 1 else z3.IntVal(0)
        return [Val(SInt(z3.IndexOf(s, sub, start)), st)]
    if name == "count" and isinstance(args[0], str) and len(args[0]) == 1:
        ex.unsupported(node, "str.count symbolic")
    if name == "join":
        items = models.iter_concrete(ex, args[0], node)
        acc = None
        for i, it in enumerate(items):
            acc = it if acc is None else v_arith("+", v_arith("+", acc, obj), it)
        return [Val("" if acc is None else acc, st)]
    if name == "encode" or name == "decode":
        return [Val(obj, st)]
    if name == "zfill" and isinstance(args[0], int):
        w = args[0]
        res = s
        for k in range(0, w):
            res = z3.If(z3.Length(s) == k, z3.Concat(z3.StringVal("0" * (w - k)), s), res)
        return [Val(SStr(res), st)]
    ex.unsupported(node, f"str.{name} on symbolic string")


def str_format(models, ex, tmpl, args, kwargs, st, node):
    """str.format with a concrete template and possibly symbolic arguments:
    inserts argument text verbatim (A-str)."""
    import string

    if not isinstance(tmpl, str):
        ex.unsupported(node, "format with symbolic template")
    out = ""
    auto = 0
    try:
        parsed = list(string.Formatter().parse(tmpl))
    except ValueError:
        return [ex.raise_(ValueError, st)]
    for lit, field, spec, conv in parsed:
        out = v_arith("+", out, lit)
        if field is None:
            continue
        if conv:
            ex.unsupported(node, "format conversion")
        if field == "":
            field = str(auto)
            auto += 1
        if field.isdigit():
            i = int(field)
            if i >= len(args):
                return [ex.raise_(IndexError, st)]
            v = args[i]
        else:
            if "." in field or "[" in field:
                ex.unsupported(node, "format attribute access")
            if field not in kwargs:
                return [ex.raise_(KeyError, st)]
            v = kwargs[field]
        if spec and "{" in spec:
            # nested replacement field inside the format spec, e.g. '{0:0{1}}'
            import re as _re

            def _sub(m):
                j = m.group(1)
                vv = args[int(j)] if j.isdigit() else kwargs[j]
                if V.contains_sym(vv):
                    raise Unsupported("symbolic nested format spec")
                return str(vv)

            spec = _re.sub(r"\{(\w*)\}", _sub, spec)
        if spec and st.ghost.get("digit_mode") and isinstance(v, SInt) and spec.startswith("0") and spec[1:].isdigit() and parsed == [("", field if not field.isdigit() else field, parsed[0][2], None)]:
            from .digits import int_to_digitstr_cases

            return int_to_digitstr_cases(ex, v, st, width=int(spec[1:]))
        piece = models.format_spec(v, spec) if spec else models.to_str(v, st)
        out = v_arith("+", out, piece)
    return [Val(out, st)]
