"""Models of str methods (A-str). Concrete receivers and arguments are evaluated
natively; symbolic ones are translated to the SMT string theory where a direct
counterpart exists, otherwise the call is Unsupported (never guessed)."""
import z3

from .values import *  # noqa
from . import values as V
from .symexec import Val, Exc, Unsupported, fresh_name

WS = " \t\n\r\x0b\x0c"
PY_REPLACE_ALL = z3.Function("py_replace_all", z3.StringSort(), z3.StringSort(), z3.StringSort(), z3.StringSort())


def _conc(*xs):
    return not any(V.contains_sym(x) for x in xs)


def str_method(models, ex, obj, name, args, kwargs, st, node):
    if _conc(obj, args, kwargs) and not any(type(a).__name__ == "GenCall" for a in args) and not any(hasattr(a, "__pyvc_eq__") or hasattr(a, "__pyvc_symbolic_iter__") for a in args):
        try:
            r = getattr(obj, name)(*args, **kwargs)
        except Exception as e:
            return [ex.raise_(type(e), st)]
        return [Val(r, st)]
    if any(isinstance(a, (SGuard, SEnum)) for a in args):
        import itertools

        out = []
        alts = [V.as_guards(a) for a in args]
        for combo in itertools.product(*alts):
            s2 = st.fork()
            for g, _ in combo:
                s2.assume(g)
            if ex.feasible is None or ex.feasible(s2.pc):
                out.extend(str_method(models, ex, obj, name, [x for _, x in combo], kwargs, s2, node))
        return out
    s = V.z3str(obj)
    if name == "join" and isinstance(args[0], SOpaque) and args[0].sort == "Lines":
        return [Val(SStr(PY_JOIN(s, args[0].t)), st)]
    if name == "startswith":
        return [Val(SBool(z3.PrefixOf(V.z3str(args[0]), s)), st)]
    if name == "endswith":
        return [Val(SBool(z3.SuffixOf(V.z3str(args[0]), s)), st)]
    if name == "format":
        hook = st.ghost.get("symbolic_format_hook")
        if not isinstance(obj, str) and hook is not None:
            return hook(models, ex, obj, args, kwargs, st, node)
        return str_format(models, ex, obj, args, kwargs, st, node)
    if name == "replace":
        old, new = args[0], args[1]
        if isinstance(old, str) and old == "":
            ex.unsupported(node, "replace of empty needle")
        # str.replace replaces every occurrence; z3's str.replace only the first and the
        # Python binding of str.replace_all is unusable in z3 5.1: an uninterpreted
        # function with the two facts that are always true (A-str)
        o, nw = V.z3str(old), V.z3str(new)
        t = PY_REPLACE_ALL(s, o, nw)
        st.assume(z3.Implies(z3.Not(z3.Contains(s, o)), t == s))
        st.assume(z3.Implies(o == nw, t == s))
        return [Val(SStr(t), st)]
    if name == "lower":
        from .models import LOWER

        return [Val(SStr(LOWER(s)), st)]
    if name == "strip" and not args:
        return sym_strip(ex, obj, st, node)
    if name == "strip" and len(args) == 1 and isinstance(args[0], str) and not kwargs:
        # A-str: s.strip(chars) is an (uninterpreted) function of s and chars whose result is a substring of s
        t = PY_STRIP_CHARS(s, z3.StringVal(args[0]))
        st.assume(z3.Contains(s, t))
        return [Val(SStr(t), st)]
    if name == "split" and len(args) == 2 and isinstance(args[0], str) and args[0] and args[1] == 1:
        return sym_split_once(ex, obj, args[0], st, node)
    if name == "split" and len(args) == 1 and not kwargs:
        # A-str: sep.join(s.split(sep)) == s for a non-empty separator
        sep = V.z3str(args[0])
        parts = PY_SPLIT(s, sep)
        st.assume(z3.Implies(z3.Length(sep) > 0, PY_JOIN(sep, parts) == s))
        return [Val(SOpaque("Lines", parts), st)]
    if name == "splitlines" and not args:
        return [Val(SSeq(SPLITLINES(s), "str"), st)]
    if name in ("rstrip", "lstrip") and len(args) == 1 and isinstance(args[0], str):
        fn = z3.Function("py_" + name, z3.StringSort(), z3.StringSort(), z3.StringSort())
        return [Val(SStr(fn(s, z3.StringVal(args[0]))), st)]
    if name == "isdigit":
        digits = z3.Plus(z3.Range("0", "9"))
        return [Val(SBool(z3.InRe(s, digits)), st)]
    if name == "find":
        sub = V.z3str(args[0])
        start = V.z3int(args[1]) if len(args) > 1 else z3.IntVal(0)
        return [Val(SInt(z3.IndexOf(s, sub, start)), st)]
    if name == "count" and isinstance(args[0], str) and len(args[0]) == 1:
        ex.unsupported(node, "str.count symbolic")
    from .symexec import GenCall, Outcome

    if name == "join" and args and isinstance(args[0], GenCall):
        # the generator runs to completion; the joined text itself is not tracked (it is only printed)
        g = args[0]
        outs = ex.run_generator(g.fr, g.args, g.kwargs, st, lambda v, cur: [Outcome("fall", None, cur)], g.bound_self)
        res = []
        for o in outs:
            if o.kind == "fall":
                res.append(Val(V.sstr(fresh_name("joined")), o.st))
            elif o.kind == "raise":
                res.append(Exc(o.value, o.st))
            else:
                raise Unsupported("join over generator: unexpected outcome")
        return res
    if name == "join" and (hasattr(args[0], "__pyvc_symbolic_iter__") or isinstance(args[0], SSeq)):
        return [Val(V.sstr(fresh_name("joined")), st)]  # text of a symbolic list: not tracked (only feeds messages)
    if name == "join":
        items = models.iter_concrete(ex, args[0], node)
        acc = None
        for i, it in enumerate(items):
            acc = it if acc is None else v_arith("+", v_arith("+", acc, obj), it)
        return [Val("" if acc is None else acc, st)]
    if name == "encode" or name == "decode":
        return [Val(obj, st)]
    if name == "zfill" and isinstance(args[0], int):
        w = args[0]
        res = s
        for k in range(0, w):
            res = z3.If(z3.Length(s) == k, z3.Concat(z3.StringVal("0" * (w - k)), s), res)
        return [Val(SStr(res), st)]
    ex.unsupported(node, f"str.{name} on symbolic string")


def str_format(models, ex, tmpl, args, kwargs, st, node):
    """str.format with a concrete template and possibly symbolic arguments:
    inserts argument text verbatim (A-str)."""
    import string

    if not isinstance(tmpl, str):
        ex.unsupported(node, "format with symbolic template")
    out = ""
    auto = 0
    try:
        parsed = list(string.Formatter().parse(tmpl))
    except ValueError:
        return [ex.raise_(ValueError, st)]
    for lit, field, spec, conv in parsed:
        out = v_arith("+", out, lit)
        if field is None:
            continue
        if conv:
            ex.unsupported(node, "format conversion")
        if field == "":
            field = str(auto)
            auto += 1
        if field.isdigit():
            i = int(field)
            if i >= len(args):
                return [ex.raise_(IndexError, st)]
            v = args[i]
        else:
            if "." in field or "[" in field:
                ex.unsupported(node, "format attribute access")
            if field not in kwargs:
                return [ex.raise_(KeyError, st)]
            v = kwargs[field]
        if spec and "{" in spec:
            # nested replacement field inside the format spec, e.g. '{0:0{1}}'
            import re as _re

            def _sub(m):
                j = m.group(1)
                vv = args[int(j)] if j.isdigit() else kwargs[j]
                if V.contains_sym(vv):
                    raise Unsupported("symbolic nested format spec")
                return str(vv)

            spec = _re.sub(r"\{(\w*)\}", _sub, spec)
        if spec and st.ghost.get("digit_mode") and isinstance(v, SInt) and spec.startswith("0") and spec[1:].isdigit() and parsed == [("", field if not field.isdigit() else field, parsed[0][2], None)]:
            from .digits import int_to_digitstr_cases

            return int_to_digitstr_cases(ex, v, st, width=int(spec[1:]))
        piece = models.format_spec(v, spec) if spec else models.to_str(v, st)
        out = v_arith("+", out, piece)
    return [Val(out, st)]


# --------------------------------------------------------------------------- partial evaluation helpers
def parts_of(t):
    """Flatten a z3 string term into a list of parts: Python str for literals, z3 terms otherwise."""
    out = []

    def walk(x):
        if z3.is_string_value(x):
            s = x.as_string()
            import re

            s = re.sub(r"\\u\{([0-9a-fA-F]+)\}", lambda m: chr(int(m.group(1), 16)), s)
            if s:
                out.append(s)
        elif z3.is_app(x) and x.decl().kind() == z3.Z3_OP_SEQ_CONCAT:
            for c in x.children():
                walk(c)
        else:
            out.append(x)

    walk(z3.simplify(t))
    merged = []
    for p in out:
        if isinstance(p, str) and merged and isinstance(merged[-1], str):
            merged[-1] += p
        else:
            merged.append(p)
    return merged


def from_parts(parts):
    if not parts:
        return ""
    if all(isinstance(p, str) for p in parts):
        return "".join(parts)
    ts = [z3.StringVal(p) if isinstance(p, str) else p for p in parts]
    return SStr(ts[0] if len(ts) == 1 else z3.Concat(*ts))


WS_RE = z3.Union(*[z3.Re(c) for c in WS])


def first_nonws(t):
    return z3.And(z3.Length(t) > 0, z3.Not(z3.InRe(z3.SubString(t, 0, 1), WS_RE)))


def last_nonws(t):
    return z3.And(z3.Length(t) > 0, z3.Not(z3.InRe(z3.SubString(t, z3.Length(t) - 1, 1), WS_RE)))


def sym_split_once(ex, obj, sep, st, node):
    """s.split(sep, 1) for concrete non-empty sep."""
    parts = parts_of(V.z3str(obj))
    if parts and isinstance(parts[0], str) and sep in parts[0]:
        i = parts[0].index(sep)
        left = parts[0][:i]
        right = from_parts([parts[0][i + len(sep) :]] + parts[1:]) if parts[0][i + len(sep) :] else from_parts(parts[1:])
        return [Val([left, right], st)]
    s = V.z3str(obj)
    idx = z3.IndexOf(s, z3.StringVal(sep), 0)
    t, f = ex.split(idx < 0, st)
    out = []
    if t is not None:
        out.append(Val([obj], t))
    if f is not None:
        left = SStr(z3.SubString(s, 0, idx))
        right = SStr(z3.SubString(s, idx + len(sep), z3.Length(s) - idx - len(sep)))
        out.append(Val([left, right], f))
    return out


def sym_strip(ex, obj, st, node):
    from .models import STRIP_WS

    parts = parts_of(V.z3str(obj))
    # strip(ws ++ rest) = strip(rest), strip(rest ++ ws) = strip(rest)
    while parts and isinstance(parts[0], str) and not parts[0].strip(WS):
        parts = parts[1:]
    while parts and isinstance(parts[-1], str) and not parts[-1].strip(WS):
        parts = parts[:-1]
    # concrete whitespace at the ends is removed as long as a concrete non-blank character remains there
    if parts and isinstance(parts[0], str) and parts[0].lstrip(WS):
        parts[0] = parts[0].lstrip(WS)
    if parts and isinstance(parts[-1], str) and parts[-1].rstrip(WS):
        parts[-1] = parts[-1].rstrip(WS)
    n = from_parts(parts)
    if isinstance(n, str):
        return [Val(n.strip(), st)]
    t = STRIP_WS(n.t)
    # facts about str.strip() that are always true (A-str)
    st.assume(z3.Implies(z3.And(first_nonws(n.t), last_nonws(n.t)), t == n.t))
    st.assume(z3.Contains(n.t, t))
    st.assume(z3.Implies(z3.Length(t) > 0, z3.And(first_nonws(t), last_nonws(t))))
    return [Val(SStr(t), st)]


# the lines of a text are an opaque value at file level (z3's sequence theory is incomplete for
# uninterpreted functions over Seq(String)); indexable lines are used only inside rewrite_lines
PY_STRIP_CHARS = z3.Function("py_strip_chars", z3.StringSort(), z3.StringSort(), z3.StringSort())
LINES = V.opaque_sort("Lines")
PY_SPLIT = z3.Function("py_split", z3.StringSort(), z3.StringSort(), LINES)
PY_JOIN = z3.Function("py_join", z3.StringSort(), LINES, z3.StringSort())
SPLITLINES = z3.Function("py_splitlines", z3.StringSort(), z3.SeqSort(z3.StringSort()))
