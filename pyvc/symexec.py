"""Forward symbolic executor over the AST of the real bumpver functions.

One execution path = one State (path condition, locals, effect log).  Branches
fork the state; loops over concrete sequences are unrolled, loops over symbolic
sequences are cut by the invariant given in the sidecar contract; calls to
functions under contract are replaced by their contract (modular), calls to
small helpers marked inline are executed from their real source.

Anything not understood raises Unsupported (checker error, never a verdict).
"""
import ast
import importlib
import inspect
import os
import sys
import types
import itertools
import enum

import z3

from .values import *  # noqa
from . import values as V


class Unsupported(Exception):
    pass


class ExcVal:
    """A raised exception instance."""

    def __init__(self, cls, args=(), attrs=None):
        self.cls = cls
        self.args = tuple(args)
        self.attrs = attrs or {}

    def __repr__(self):
        return f"ExcVal({self.cls.__name__}, {self.args})"


class FuncRef:
    """A function of the code under verification (real source, by AST)."""

    def __init__(self, qualname, node, module, cls=None):
        self.qualname = qualname
        self.node = node
        self.module = module
        self.cls = cls

    def __repr__(self):
        return f"FuncRef({self.qualname})"


class BoundMethod:
    def __init__(self, obj, func):
        self.obj = obj
        self.func = func


class SObj:
    """Instance of a repo class with (possibly symbolic) attributes."""

    def __init__(self, cls, attrs):
        self.cls = cls
        self.attrs = dict(attrs)

    def __repr__(self):
        return f"SObj({self.cls.__name__}, {self.attrs})"


class Lambda:
    def __init__(self, node, env, module):
        self.node = node
        self.env = env
        self.module = module


_counter = itertools.count()


def fresh_name(base):
    return f"{base}!{next(_counter)}"


# --------------------------------------------------------------------------- source access


class Source:
    """Real source of the tree under verification."""

    def __init__(self, src_root=None):
        self.src_root = src_root or os.environ.get("BUMPVER_SRC", "/repo/src")
        if self.src_root not in sys.path or sys.path[0] != self.src_root:
            sys.path.insert(0, self.src_root)
        for m in [m for m in sys.modules if m == "bumpver" or m.startswith("bumpver.")]:
            f = getattr(sys.modules[m], "__file__", "") or ""
            if not f.startswith(self.src_root):
                del sys.modules[m]
        self._asts = {}
        self._texts = {}

    def module(self, name):
        mod = importlib.import_module(name)
        f = getattr(mod, "__file__", "")
        if name.startswith("bumpver") and not os.path.abspath(f).startswith(os.path.abspath(self.src_root)):
            raise RuntimeError(f"module {name} loaded from {f}, expected under {self.src_root}")
        return mod

    def module_ast(self, modname):
        if modname not in self._asts:
            mod = self.module(modname)
            with open(mod.__file__, encoding="utf-8") as fh:
                text = fh.read()
            self._texts[modname] = text
            self._asts[modname] = ast.parse(text)
        return self._asts[modname]

    def module_text(self, modname):
        self.module_ast(modname)
        return self._texts[modname]

    def funcref(self, qualname):
        """qualname: 'bumpver.v2version._incr_numeric' or 'bumpver.vcs.VCSAPI.status'."""
        parts = qualname.split(".")
        for i in range(len(parts) - 1, 0, -1):
            modname = ".".join(parts[:i])
            try:
                mod = self.module(modname)
            except ImportError:
                continue
            if not isinstance(mod, types.ModuleType):
                continue
            tree = self.module_ast(modname)
            rest = parts[i:]
            node = tree
            cls = None
            ok = True
            for j, nm in enumerate(rest):
                found = None
                for ch in node.body:
                    if isinstance(ch, (ast.FunctionDef, ast.ClassDef)) and ch.name == nm:
                        found = ch
                if found is None:
                    ok = False
                    break
                if isinstance(found, ast.ClassDef) and j < len(rest) - 1:
                    cls = getattr(mod, nm)
                node = found
            if ok and isinstance(node, ast.FunctionDef):
                return FuncRef(qualname, node, mod, cls)
        raise KeyError(f"function under contract not found in current tree: {qualname}")

    def segment(self, fr):
        text = self.module_text(fr.module.__name__)
        lines = text.splitlines()
        n = fr.node
        start = min([n.lineno] + [d.lineno for d in n.decorator_list])
        return "\n".join(lines[start - 1 : n.end_lineno]), start, n.end_lineno


# --------------------------------------------------------------------------- state


class State:
    def __init__(self):
        self.pc = []
        self.frames = [{}]  # call stack of local environments; env = frames[-1]
        self.gen_stack = []  # frames of generators suspended at a yield
        self.log = []
        self.ghost = {}
        self.notes = []
        self.depth = 0

    @property
    def env(self):
        return self.frames[-1]

    @env.setter
    def env(self, e):
        self.frames[-1] = e

    def fork(self):
        s = State()
        memo = {}
        s.pc = list(self.pc)
        s.frames = [_clone(f, memo) for f in self.frames]
        s.gen_stack = [_clone(f, memo) for f in self.gen_stack]
        s.log = list(self.log)
        s.ghost = _clone(self.ghost, memo)
        s.notes = list(self.notes)
        s.depth = self.depth
        return s

    def assume(self, c):
        if isinstance(c, SBool):
            c = c.t
        if isinstance(c, bool):
            if not c:
                self.pc.append(z3.BoolVal(False))
            return
        self.pc.append(c)

    def emit(self, *event):
        self.log.append(tuple(event))


def _clone(v, memo):
    i = id(v)
    if i in memo:
        return memo[i]
    if isinstance(v, list):
        r = v.__class__() if type(v) is not list else []  # keeps GenList (generator expression results)
        memo[i] = r
        r.extend(_clone(x, memo) for x in v)
        return r
    if isinstance(v, dict):
        r = {}
        memo[i] = r
        for k, x in v.items():
            r[k] = _clone(x, memo)
        return r
    if isinstance(v, set):
        r = set(v)
        memo[i] = r
        return r
    if isinstance(v, SObj):
        r = SObj(v.cls, {})
        memo[i] = r
        r.attrs = _clone(v.attrs, memo)
        return r
    if hasattr(v, "__pyvc_clone__"):
        r = v.__pyvc_clone__(memo)
        memo[i] = r
        return r
    return v


class Val:
    __slots__ = ("v", "st")

    def __init__(self, v, st):
        self.v = v
        self.st = st


class Exc:
    __slots__ = ("exc", "st")

    def __init__(self, exc, st):
        self.exc = exc
        self.st = st


class Outcome:
    __slots__ = ("kind", "value", "st")

    def __init__(self, kind, value, st):
        self.kind = kind  # fall | return | raise | break | continue
        self.value = value
        self.st = st

    def __repr__(self):
        return f"Outcome({self.kind}, {self.value!r})"


# --------------------------------------------------------------------------- executor


class Executor:
    def __init__(self, source, registry, models, solver_check=None, max_paths=20000):
        self.src = source
        self.registry = registry  # qualname -> Contract
        self.models = models  # Models instance
        self.call_obligations = []  # (name, state, cond) collected preconditions at call sites
        self.side_obligations = []  # (name, state, cond) from loops etc.
        self.max_paths = max_paths
        self.npaths = 0
        self.top = None
        self.inline_depth_limit = 6
        self.feasible = solver_check
        self.loop_specs = {}
        self.stats = {"forks": 0, "pruned": 0, "calls_by_contract": 0, "inlined": 0}

    # ----------------------------------------------------------------- helpers
    def unsupported(self, node, msg=""):
        ln = getattr(node, "lineno", "?")
        raise Unsupported(f"UNSUPPORTED {self.cur_file()}:{ln} {type(node).__name__} {msg}")

    def cur_file(self):
        return getattr(self, "_cur_file", "?")

    def split(self, cond, st, strong=False):
        """Fork st on a bool-ish. Returns [(True-state|None), (False-state|None)].
        strong=True: use a generous solver budget for the feasibility test (needed where an
        infeasible branch would be unsupported rather than merely redundant)."""
        if isinstance(cond, SBool):
            cond = cond.t
        if isinstance(cond, bool):
            return (st, None) if cond else (None, st)
        cond = z3.simplify(cond)
        if z3.is_true(cond):
            return (st, None)
        if z3.is_false(cond):
            return (None, st)
        self.stats["forks"] += 1
        st_t = st
        st_f = st.fork()
        st_t.pc.append(cond)
        st_f.pc.append(z3.Not(cond))
        if self.feasible is not None and not self._independent(cond, st.pc[:-1] if st is st_t else st.pc):
            feas = (lambda pc: self.feasible(pc, 5000)) if strong else self.feasible
            if not feas(st_t.pc):
                self.stats["pruned"] += 1
                st_t = None
            if not feas(st_f.pc):
                self.stats["pruned"] += 1
                st_f = None
        return (st_t, st_f)

    def _independent(self, cond, pc):
        """cond shares no uninterpreted symbol with the path condition: both branches are
        feasible whenever the path is (no solver call needed)."""
        try:
            cv = _free_symbols(cond)
            if not cv:
                return False
            for c in pc:
                if cv & _free_symbols(c):
                    return False
            return True
        except Exception:
            return False

    def truthy(self, v, st):
        if hasattr(v, "__pyvc_truthy_st__"):
            return v.__pyvc_truthy_st__(self, st)
        return v_truthy(v)

    def raise_(self, cls, st, *args):
        return Exc(ExcVal(cls, args), st)

    # ----------------------------------------------------------------- function entry
    def const_eval(self, node, mod):
        try:
            return eval(compile(ast.Expression(node), "<default>", "eval"), vars(mod))
        except Exception as e:  # pragma: no cover
            raise Unsupported(f"default value: {ast.dump(node)} {e}")

    # ----------------------------------------------------------------- statements
    def exec_block(self, stmts, st):
        """Returns list of Outcome."""
        states = [st]
        outs = []
        for s in stmts:
            nxt = []
            for cur in states:
                for o in self.exec_stmt(s, cur):
                    if o.kind == "fall":
                        nxt.append(o.st)
                    else:
                        outs.append(o)
            states = nxt
            if not states:
                break
        outs.extend(Outcome("fall", None, s) for s in states)
        self.npaths = max(self.npaths, len(outs))
        if len(outs) > self.max_paths:
            raise Unsupported(f"path explosion: {len(outs)} paths")
        return outs

    def exec_stmt(self, s, st):
        m = getattr(self, "stmt_" + type(s).__name__, None)
        if m is None:
            self.unsupported(s)
        return m(s, st)

    def _exc_out(self, r):
        return Outcome("raise", r.exc, r.st)

    def stmt_Pass(self, s, st):
        return [Outcome("fall", None, st)]

    def stmt_Global(self, s, st):
        return [Outcome("fall", None, st)]

    def stmt_Expr(self, s, st):
        if isinstance(s.value, ast.Constant):
            return [Outcome("fall", None, st)]
        if isinstance(s.value, (ast.Yield,)):
            return self.do_yield(s.value, st)
        outs = []
        for r in self.eval(s.value, st):
            if isinstance(r, Exc):
                outs.append(self._exc_out(r))
            elif isinstance(r, Outcome):
                outs.append(r)
            else:
                outs.append(Outcome("fall", None, r.st))
        return outs

    def stmt_Assign(self, s, st):
        outs = []
        for r in self.eval(s.value, st):
            if isinstance(r, Exc):
                outs.append(self._exc_out(r))
                continue
            if isinstance(r, Outcome):
                outs.append(r)
                continue
            sts = [r.st]
            for tgt in s.targets:
                nsts = []
                for cur in sts:
                    for o in self.assign(tgt, r.v, cur):
                        if o.kind == "fall":
                            nsts.append(o.st)
                        else:
                            outs.append(o)
                sts = nsts
            outs.extend(Outcome("fall", None, x) for x in sts)
        return outs

    def stmt_AnnAssign(self, s, st):
        if s.value is None:
            return [Outcome("fall", None, st)]
        outs = []
        for r in self.eval(s.value, st):
            if isinstance(r, Exc):
                outs.append(self._exc_out(r))
            elif isinstance(r, Outcome):
                outs.append(r)
            else:
                outs.extend(self.assign(s.target, r.v, r.st))
        return outs

    def stmt_AugAssign(self, s, st):
        op = {ast.Add: "+", ast.Sub: "-", ast.Mult: "*", ast.FloorDiv: "//", ast.Mod: "%"}.get(type(s.op))
        if op is None:
            self.unsupported(s)
        load = ast.copy_location(_as_load(s.target), s.target)
        outs = []
        for r1 in self.eval(load, st):
            if isinstance(r1, Exc):
                outs.append(self._exc_out(r1))
                continue
            for r2 in self.eval(s.value, r1.st):
                if isinstance(r2, Exc):
                    outs.append(self._exc_out(r2))
                    continue
                cur = r1.v
                if isinstance(cur, list) and op == "+":
                    # list += iterable mutates in place
                    cur.extend(list(r2.v))
                    outs.append(Outcome("fall", None, r2.st))
                    continue
                for r3 in self.binop(op, cur, r2.v, r2.st, s):
                    if isinstance(r3, Exc):
                        outs.append(self._exc_out(r3))
                    else:
                        outs.extend(self.assign(s.target, r3.v, r3.st))
        return outs

    def assign(self, tgt, v, st):
        if isinstance(tgt, ast.Name):
            st.env[tgt.id] = v
            return [Outcome("fall", None, st)]
        if isinstance(tgt, (ast.Tuple, ast.List)):
            if isinstance(v, (tuple, list)) and len(v) != len(tgt.elts):
                return [Outcome("raise", ExcVal(ValueError, ("unpack",)), st)]
            items = self.unpack(v, len(tgt.elts), tgt)
            sts = [st]
            outs = []
            for t, x in zip(tgt.elts, items):
                n = []
                for cur in sts:
                    for o in self.assign(t, x, cur):
                        (n if o.kind == "fall" else outs).append(o.st if o.kind == "fall" else o)
                sts = n
            return outs + [Outcome("fall", None, x) for x in sts]
        if isinstance(tgt, ast.Subscript):
            outs = []
            for r1 in self.eval(tgt.value, st):
                if isinstance(r1, Exc):
                    outs.append(self._exc_out(r1))
                    continue
                for r2 in self.eval(tgt.slice, r1.st):
                    if isinstance(r2, Exc):
                        outs.append(self._exc_out(r2))
                        continue
                    outs.extend(self.models.setitem(self, r1.v, r2.v, v, r2.st, tgt))
            return outs
        if isinstance(tgt, ast.Attribute):
            outs = []
            for r1 in self.eval(tgt.value, st):
                if isinstance(r1, Exc):
                    outs.append(self._exc_out(r1))
                    continue
                if isinstance(r1.v, SObj):
                    r1.v.attrs[tgt.attr] = v
                    outs.append(Outcome("fall", None, r1.st))
                else:
                    self.unsupported(tgt, "attribute store")
            return outs
        self.unsupported(tgt, "assign target")

    def unpack(self, v, n, node):
        if isinstance(v, SRec):
            v = tuple(v.fields.values())
        if isinstance(v, (tuple, list)):
            if len(v) != n:
                raise Unsupported(f"unpack length mismatch at line {node.lineno}")
            return list(v)
        if hasattr(v, "__pyvc_unpack__"):
            return v.__pyvc_unpack__(n)
        self.unsupported(node, f"unpack {v!r}")

    def stmt_Return(self, s, st):
        if s.value is None:
            return [Outcome("return", None, st)]
        outs = []
        for r in self.eval(s.value, st):
            if isinstance(r, Exc):
                outs.append(self._exc_out(r))
            elif isinstance(r, Outcome):
                outs.append(r)
            else:
                outs.append(Outcome("return", r.v, r.st))
        return outs

    def stmt_Raise(self, s, st):
        if s.exc is None:
            exc = st.env.get("__handling__")
            if exc is None:
                self.unsupported(s, "bare raise outside handler")
            return [Outcome("raise", exc, st)]
        outs = []
        for r in self.eval(s.exc, st):
            if isinstance(r, Exc):
                outs.append(self._exc_out(r))
                continue
            v = r.v
            if isinstance(v, type) and issubclass(v, BaseException):
                v = ExcVal(v, ())
            if not isinstance(v, ExcVal):
                self.unsupported(s, f"raise of {v!r}")
            outs.append(Outcome("raise", v, r.st))
        return outs

    def stmt_Assert(self, s, st):
        outs = []
        for r in self.eval(s.test, st):
            if isinstance(r, Exc):
                outs.append(self._exc_out(r))
                continue
            t, f = self.split(self.truthy(r.v, r.st), r.st)
            if t is not None:
                outs.append(Outcome("fall", None, t))
            if f is not None:
                outs.append(Outcome("raise", ExcVal(AssertionError, ()), f))
        return outs

    def stmt_If(self, s, st):
        outs = []
        for r in self.eval(s.test, st):
            if isinstance(r, Exc):
                outs.append(self._exc_out(r))
                continue
            cond = self.truthy(r.v, r.st)
            base_pc_len = len(r.st.pc)
            base_log_len = len(r.st.log)
            base_env = dict(r.st.env)
            base_ghost = dict(r.st.ghost)
            t, f = self.split(cond, r.st)
            outs_t, outs_f = [], []
            if t is not None:
                self.narrow(s.test, True, t)
                outs_t = self.exec_block(s.body, t)
            if f is not None:
                self.narrow(s.test, False, f)
                outs_f = self.exec_block(s.orelse, f)
            merged = None
            if t is not None and f is not None and len(outs_t) == 1 and len(outs_f) == 1:
                merged = self.try_merge(cond, outs_t[0], outs_f[0], base_pc_len, base_log_len, base_env, base_ghost)
            if merged is not None:
                outs.append(merged)
            else:
                outs.extend(outs_t)
                outs.extend(outs_f)
        return outs

    def try_merge(self, cond, ot, of, base_pc_len, base_log_len, base_env, base_ghost):
        """If-conversion: two fall-through branches without effects are merged into one
        state whose differing locals become if-then-else values."""
        if ot.kind != "fall" or of.kind != "fall":
            return None
        a, b = ot.st, of.st
        if len(a.log) != base_log_len or len(b.log) != base_log_len:
            return None
        if isinstance(cond, SBool):
            cond = cond.t
        if isinstance(cond, bool):
            return None
        for k in set(a.ghost) | set(b.ghost):
            if not _same(a.ghost.get(k), b.ghost.get(k)):
                return None
        if set(a.env) != set(b.env):
            return None
        new_env = {}
        for k in a.env:
            x, y = a.env[k], b.env[k]
            if _same(x, y):
                new_env[k] = x
                continue
            if k.startswith("__"):
                return None
            if isinstance(x, (list, dict, set, SObj)) or isinstance(y, (list, dict, set, SObj)):
                # mutable containers: only identical-by-content immutables are merged
                if isinstance(x, type(y)) and not contains_sym(x) and not contains_sym(y) and x == y and not isinstance(x, SObj):
                    new_env[k] = x
                    continue
                return None
            try:
                m = v_ite(cond, x, y)
            except Exception:
                return None
            if isinstance(m, SGuard):
                return None
            new_env[k] = m
        # assumptions added inside the branches stay guarded by the branch condition
        extra_a = a.pc[base_pc_len + 1 :]
        extra_b = b.pc[base_pc_len + 1 :]
        a.pc = a.pc[:base_pc_len]
        for e in extra_a:
            a.pc.append(z3.Implies(cond, e))
        for e in extra_b:
            a.pc.append(z3.Implies(z3.Not(cond), e))
        a.env = new_env
        self.stats["merged"] = self.stats.get("merged", 0) + 1
        return Outcome("fall", None, a)

    def narrow(self, test, truth, st):
        """After a test on `x is None` / `x is not None` / truthiness of an optional local,
        replace the local by its payload where it is known not to be None."""
        def payload(name):
            v = st.env.get(name)
            if isinstance(v, SOpt):
                st.env[name] = v.val
            elif isinstance(v, SGuard):
                alts = [(g, x) for g, x in v.alts if x is not None]
                if len(alts) == 1:
                    st.env[name] = alts[0][1]
                elif alts:
                    st.env[name] = SGuard(alts)
        if isinstance(test, ast.Compare) and len(test.ops) == 1 and isinstance(test.left, ast.Name):
            c = test.comparators[0]
            if isinstance(c, ast.Constant) and c.value is None:
                if isinstance(test.ops[0], ast.Is) and not truth:
                    payload(test.left.id)
                if isinstance(test.ops[0], ast.IsNot) and truth:
                    payload(test.left.id)
                if isinstance(test.ops[0], ast.Is) and truth:
                    st.env[test.left.id] = None
                if isinstance(test.ops[0], ast.IsNot) and not truth:
                    st.env[test.left.id] = None
        elif isinstance(test, ast.Name) and truth:
            payload(test.id)
        elif isinstance(test, ast.Call) and isinstance(test.func, ast.Name) and test.func.id == "isinstance" and len(test.args) == 2 and isinstance(test.args[0], ast.Name):
            # isinstance(x, T) on a guarded local: keep the alternatives that are (not) instances of T
            name = test.args[0].id
            v = st.env.get(name)
            if isinstance(v, SGuard):
                try:
                    rs = self.eval(test.args[1], st)
                    t = rs[0].v if len(rs) == 1 and isinstance(rs[0], Val) else None
                    if t is not None:
                        alts = []
                        for g, x in v.alts:
                            r = self.models.isinstance_(x, t)
                            if isinstance(r, bool):
                                if r == truth:
                                    alts.append((g, x))
                            else:
                                alts.append((g, x))
                        if len(alts) == 1:
                            st.env[name] = alts[0][1]
                        elif alts:
                            st.env[name] = SGuard(alts)
                except Unsupported:
                    pass
        elif isinstance(test, ast.BoolOp) and isinstance(test.op, ast.And) and truth:
            for v in test.values:
                self.narrow(v, True, st)
        elif isinstance(test, ast.BoolOp) and isinstance(test.op, ast.Or) and not truth:
            for v in test.values:
                self.narrow(v, False, st)
        elif isinstance(test, ast.UnaryOp) and isinstance(test.op, ast.Not):
            self.narrow(test.operand, not truth, st)

    def stmt_Break(self, s, st):
        return [Outcome("break", None, st)]

    def stmt_Continue(self, s, st):
        return [Outcome("continue", None, st)]

    def stmt_FunctionDef(self, s, st):
        st.env[s.name] = FuncRef(st.env["__func__"].qualname + ".<locals>." + s.name, s, st.env["__module__"])
        return [Outcome("fall", None, st)]

    def stmt_Try(self, s, st):
        outs = []
        body_outs = self.exec_block(s.body, st)
        after = []
        for o in body_outs:
            if o.kind == "raise":
                handled = False
                residual = o.st
                for h in s.handlers:
                    m = self.exc_matches(o.value, h, residual)
                    if m is True:
                        hs = residual
                        if h.name:
                            hs.env[h.name] = o.value
                        prev = hs.env.get("__handling__")
                        hs.env["__handling__"] = o.value
                        for ho in self.exec_block(h.body, hs):
                            ho.st.env["__handling__"] = prev
                            after.append(ho)
                        handled = True
                        break
                if not handled:
                    after.append(o)
            elif o.kind == "fall":
                if s.orelse:
                    after.extend(self.exec_block(s.orelse, o.st))
                else:
                    after.append(o)
            else:
                after.append(o)
        if not s.finalbody:
            return after
        for o in after:
            for fo in self.exec_block(s.finalbody, o.st):
                if fo.kind == "fall":
                    outs.append(Outcome(o.kind, o.value, fo.st))
                else:
                    outs.append(fo)
        return outs

    def exc_matches(self, exc, handler, st):
        if handler.type is None:
            return True
        mod = st.env["__module__"]
        t = self.const_eval(handler.type, mod)
        if not isinstance(t, tuple):
            t = (t,)
        return any(issubclass(exc.cls, c) for c in t)

    def stmt_With(self, s, st):
        return self.models.with_stmt(self, s, st)

    def stmt_While(self, s, st):
        return self.models.while_stmt(self, s, st)

    def stmt_For(self, s, st):
        return self.models.for_stmt(self, s, st)

    # generic loop body driver over a concrete list of items
    def unroll(self, target, items, body, orelse, st):
        outs = []
        states = [st]
        for it in items:
            nxt = []
            for cur in states:
                for ao in self.assign(target, it, cur):
                    if ao.kind != "fall":
                        outs.append(ao)
                        continue
                    for o in self.exec_block(body, ao.st):
                        if o.kind in ("fall", "continue"):
                            nxt.append(o.st)
                        elif o.kind == "break":
                            outs.append(Outcome("fall", None, o.st))
                        else:
                            outs.append(o)
            states = nxt
            if not states:
                break
        for cur in states:
            if orelse:
                outs.extend(self.exec_block(orelse, cur))
            else:
                outs.append(Outcome("fall", None, cur))
        return outs

    # ----------------------------------------------------------------- generators
    def do_yield(self, node, st):
        consumer = st.env.get("__consumer__")
        if consumer is None:
            self.unsupported(node, "yield without consumer")
        outs = []
        vals = [Val(None, st)] if node.value is None else self.eval(node.value, st)
        for r in vals:
            if isinstance(r, Exc):
                outs.append(self._exc_out(r))
                continue
            outs.extend(consumer(r.v, r.st))
        return outs

    def run_generator(self, fr, args, kwargs, st, consume, bound_self=None):
        """Execute generator function fr; for each yielded value call
        consume(value, state) -> list[Outcome] in the caller's frame
        ('fall' => resume the generator; anything else leaves the for statement).
        Returns Outcomes: 'fall' (generator exhausted), or the propagated break/return/raise."""

        def consumer(v, s):
            s.gen_stack.append(s.frames.pop())  # suspend the generator frame
            res = []
            for o in consume(v, s):
                if o.kind == "fall":
                    o.st.frames.append(o.st.gen_stack.pop())  # resume
                    res.append(o)
                else:
                    o.st.gen_stack.pop()  # generator abandoned
                    res.append(Outcome("propagate", o, o.st))
            return res

        outs = self.run_function_raw(fr, args, kwargs, st, bound_self, extra_env={"__consumer__": consumer})
        final = []
        for o in outs:
            if o.kind == "return":
                final.append(Outcome("fall", None, o.st))
            elif o.kind == "raise":
                final.append(o)
            elif o.kind == "propagate":
                final.append(o.value)
        return final

    def run_function_raw(self, fr, args, kwargs, st, bound_self=None, extra_env=None):
        """Execute the body of fr in a new frame. Returns Outcomes of kind
        return/raise (frame popped) or propagate (left through a yield consumer)."""
        node = fr.node
        saved_file = getattr(self, "_cur_file", "?")
        env = self.bind_args(fr, args, kwargs, bound_self)
        if ".<locals>." in fr.qualname:
            # a nested function reads the variables of its enclosing function (closure): supported when it is called
            # from that function's own frame
            outer = st.env
            owner = outer.get("__func__")
            if owner is not None and fr.qualname.startswith(owner.qualname + ".<locals>."):
                env = dict({k: v for k, v in outer.items() if k not in env}, **env)
        if extra_env:
            env.update(extra_env)
        st.frames.append(env)
        st.depth += 1
        self._cur_file = getattr(fr.module, "__file__", "?")
        body = _strip_doc(node.body)
        outs = self.exec_block(body, st)
        res = []
        for o in outs:
            o.st.depth -= 1
            if o.kind == "fall":
                o.st.frames.pop()
                res.append(Outcome("return", None, o.st))
            elif o.kind in ("return", "raise"):
                o.st.frames.pop()
                res.append(o)
            elif o.kind == "propagate":
                res.append(o)
            else:
                raise Unsupported(f"{o.kind} escaped function {fr.qualname}")
        self._cur_file = saved_file
        return res

    def bind_args(self, fr, args, kwargs, bound_self=None):
        node = fr.node
        env = {}
        a = node.args
        params = [x.arg for x in a.posonlyargs + a.args]
        pos = list(args)
        if bound_self is not None:
            pos = [bound_self] + pos
        defaults = a.defaults
        ndef = len(defaults)
        mod = fr.module
        kwargs = dict(kwargs)
        for i, p in enumerate(params):
            if i < len(pos):
                env[p] = pos[i]
            elif p in kwargs:
                env[p] = kwargs.pop(p)
            else:
                di = i - (len(params) - ndef)
                if di < 0:
                    raise Unsupported(f"missing argument {p} for {fr.qualname}")
                env[p] = self.const_eval(defaults[di], mod)
        if len(pos) > len(params):
            if a.vararg:
                env[a.vararg.arg] = tuple(pos[len(params) :])
            else:
                raise Unsupported(f"too many args for {fr.qualname}")
        elif a.vararg:
            env[a.vararg.arg] = ()
        for kw, d in zip(a.kwonlyargs, a.kw_defaults):
            if kw.arg in kwargs:
                env[kw.arg] = kwargs.pop(kw.arg)
            elif d is not None:
                env[kw.arg] = self.const_eval(d, mod)
            else:
                raise Unsupported(f"missing kwonly {kw.arg}")
        if a.kwarg:
            env[a.kwarg.arg] = dict(kwargs)
        elif kwargs:
            raise Unsupported(f"unexpected kwargs {list(kwargs)} for {fr.qualname}")
        env["__module__"] = mod
        env["__func__"] = fr
        return env

    def call_funcref(self, fr, args, kwargs, st, bound_self=None):
        """Inline execution of a repo function. Returns list of Val/Exc."""
        if st.depth > self.inline_depth_limit:
            raise Unsupported(f"inline depth exceeded at {fr.qualname}")
        if _is_generator(fr.node):
            return [Val(GenCall(fr, args, kwargs, bound_self), st)]
        self.stats["inlined"] += 1
        outs = self.run_function_raw(fr, args, kwargs, st, bound_self)
        res = []
        for o in outs:
            if o.kind == "return":
                res.append(Val(o.value, o.st))
            elif o.kind == "raise":
                res.append(Exc(o.value, o.st))
            else:
                raise Unsupported("propagate out of plain call")
        return res

    # ----------------------------------------------------------------- expressions
    def eval(self, node, st):
        m = getattr(self, "expr_" + type(node).__name__, None)
        if m is None:
            self.unsupported(node)
        return m(node, st)

    def eval_seq(self, nodes, st):
        """Evaluate nodes left to right. Returns (list of ([values], st), list of Exc)."""
        results = [([], st)]
        excs = []
        for n in nodes:
            nxt = []
            for vals, cur in results:
                for r in self.eval(n, cur):
                    if isinstance(r, Exc):
                        excs.append(r)
                    else:
                        nxt.append((vals + [r.v], r.st))
            results = nxt
        return results, excs

    def expr_Constant(self, node, st):
        return [Val(node.value, st)]

    def expr_Name(self, node, st):
        nm = node.id
        if nm in st.env:
            return [Val(st.env[nm], st)]
        mod = st.env.get("__module__")
        if mod is not None and hasattr(mod, nm):
            return [Val(self.wrap_global(getattr(mod, nm), mod, nm), st)]
        import builtins

        if hasattr(builtins, nm):
            return [Val(getattr(builtins, nm), st)]
        self.unsupported(node, f"unknown name {nm}")

    def wrap_global(self, v, mod, nm):
        if isinstance(v, types.FunctionType):
            real = inspect.unwrap(v)
            modname = getattr(real, "__module__", "") or ""
            if modname.startswith("bumpver") or modname == "lexid":
                qn = modname + "." + real.__qualname__
                try:
                    return self.src.funcref(qn)
                except KeyError:
                    return v
        return v

    def expr_Attribute(self, node, st):
        out = []
        for r in self.eval(node.value, st):
            if isinstance(r, Exc):
                out.append(r)
                continue
            out.extend(self.models.getattr(self, r.v, node.attr, r.st, node))
        return out

    def expr_Tuple(self, node, st):
        res, excs = self.eval_seq(node.elts, st)
        return [Val(tuple(v), s) for v, s in res] + excs

    def expr_List(self, node, st):
        res, excs = self.eval_seq(node.elts, st)
        return [Val(list(v), s) for v, s in res] + excs

    def expr_Set(self, node, st):
        res, excs = self.eval_seq(node.elts, st)
        return [Val(set(v), s) for v, s in res] + excs

    def expr_Dict(self, node, st):
        if any(k is None for k in node.keys):
            self.unsupported(node, "dict unpacking")
        res, excs = self.eval_seq(list(node.keys) + list(node.values), st)
        n = len(node.keys)
        out = []
        for v, s in res:
            out.append(Val(dict(zip(v[:n], v[n:])), s))
        return out + excs

    def expr_JoinedStr(self, node, st):
        parts = []
        for p in node.values:
            if isinstance(p, ast.Constant):
                parts.append(p)
            else:
                parts.append(p)
        results = [("", st)]
        excs = []
        for p in parts:
            nxt = []
            for acc, cur in results:
                if isinstance(p, ast.Constant):
                    nxt.append((v_arith("+", acc, p.value), cur))
                    continue
                try:
                    rs = self.eval(p.value, cur)
                except Unsupported:
                    nxt.append((v_arith("+", acc, V.sstr(fresh_name("fstr"))), cur))
                    continue
                for r in rs:
                    if isinstance(r, Exc):
                        excs.append(r)
                        continue
                    spec = None
                    if p.format_spec is not None:
                        spec = "".join(c.value for c in p.format_spec.values if isinstance(c, ast.Constant))
                    s = self.models.format_value(self, r.v, spec, p.conversion, r.st)
                    nxt.append((v_arith("+", acc, s), r.st))
            results = nxt
        return [Val(a, s) for a, s in results] + excs

    def expr_UnaryOp(self, node, st):
        out = []
        for r in self.eval(node.operand, st):
            if isinstance(r, Exc):
                out.append(r)
            elif isinstance(node.op, ast.Not):
                t = b_not(self.truthy(r.v, r.st))
                out.append(Val(V._wrapb(t), r.st))
            elif isinstance(node.op, ast.USub):
                out.append(Val(v_neg(r.v), r.st))
            else:
                self.unsupported(node)
        return out

    def expr_BoolOp(self, node, st):
        # operand-returning semantics, left to right with short circuit
        is_and = isinstance(node.op, ast.And)

        def go(i, cur):
            out = []
            for r in self.eval(node.values[i], cur):
                if isinstance(r, Exc):
                    out.append(r)
                    continue
                if i == len(node.values) - 1:
                    out.append(r)
                    continue
                t = self.truthy(r.v, r.st)
                if isinstance(t, bool):
                    if t == is_and:
                        out.extend(go(i + 1, r.st))
                    else:
                        out.append(r)
                    continue
                # symbolic: try to merge if the rest evaluates without effects/forks
                snap_log = len(r.st.log)
                try:
                    rest = go(i + 1, r.st.fork())
                except Unsupported:
                    rest = None
                if rest is not None and len(rest) == 1 and isinstance(rest[0], Val) and len(rest[0].st.log) == snap_log and len(rest[0].st.pc) == len(r.st.pc):
                    other = rest[0].v
                    try:
                        merged = v_ite(t, other, r.v) if is_and else v_ite(t, r.v, other)
                        if not isinstance(merged, SGuard):
                            out.append(Val(merged, r.st))
                            continue
                    except TypeError:
                        pass
                a, b = self.split(t, r.st)
                if is_and:
                    if a is not None:
                        out.extend(go(i + 1, a))
                    if b is not None:
                        out.append(Val(r.v, b))
                else:
                    if a is not None:
                        out.append(Val(r.v, a))
                    if b is not None:
                        out.extend(go(i + 1, b))
            return out

        return go(0, st)

    def expr_IfExp(self, node, st):
        out = []
        for r in self.eval(node.test, st):
            if isinstance(r, Exc):
                out.append(r)
                continue
            t, f = self.split(self.truthy(r.v, r.st), r.st)
            if t is not None:
                self.narrow(node.test, True, t)
                out.extend(self.eval(node.body, t))
            if f is not None:
                self.narrow(node.test, False, f)
                out.extend(self.eval(node.orelse, f))
        return out

    def expr_Compare(self, node, st):
        res, excs = self.eval_seq([node.left] + list(node.comparators), st)
        out = list(excs)
        for vals, cur in res:
            acc = True
            ok = True
            for op, a, b in zip(node.ops, vals, vals[1:]):
                try:
                    c = self.compare(op, a, b, cur, node)
                except TypeError as e:
                    self.unsupported(node, str(e))
                acc = b_and(acc, c)
            out.append(Val(V._wrapb(acc), cur))
        return out

    def needs_protocol(self, v):
        """Instances of classes of the code under verification compare through their real dunder methods."""
        if isinstance(v, SObj):
            return True
        if isinstance(v, (tuple, list)):
            return any(self.needs_protocol(x) for x in v)
        if isinstance(v, (SGuard,)):
            return any(self.needs_protocol(x) for _, x in v.alts)
        t = type(v)
        return getattr(t, "__module__", "").startswith("bumpver") and not isinstance(v, (tuple, enum.Enum))

    def rich_compare(self, sym, a, b, st, node):
        """Python's comparison protocol: type(a).__op__(a, b); on NotImplemented the reflected
        method of b; == falls back to identity, ordering to TypeError. Dunder methods of repo classes are
        executed from their real source. Returns a bool-ish (single path required)."""
        if isinstance(a, (SGuard, SEnum)) or isinstance(b, (SGuard, SEnum)):
            alts = []
            for g1, x in V.as_guards(a):
                for g2, y in V.as_guards(b):
                    alts.append((b_and(g1, g2), self.rich_compare(sym, x, y, st, node)))
            return b_or(*[b_and(g, r) for g, r in alts])
        if isinstance(a, (tuple, list)) and isinstance(b, (tuple, list)) and type(a) is type(b):
            n = min(len(a), len(b))
            if sym in ("==", "!="):
                if len(a) != len(b):
                    return sym == "!="
                eq = b_and(*[self.rich_compare("==", x, y, st, node) for x, y in zip(a, b)])
                return eq if sym == "==" else b_not(eq)
            # CPython (tuplerichcompare / list_richcompare): the first position whose items are not == decides, and
            # those two items are compared with the SAME operator (`<=` stays `<=`): a sentinel's __le__/__ge__ is
            # what runs for `key_a <= key_b`, not its __lt__
            strict = sym
            if len(a) == len(b):
                res = sym in ("<=", ">=")
            elif len(a) < len(b):
                res = sym in ("<", "<=")
            else:
                res = sym in (">", ">=")
            pairs = []
            for i in range(n):
                try:
                    pairs.append((self.rich_compare("==", a[i], b[i], st, node), self.rich_compare(strict, a[i], b[i], st, node)))
                except TypeError as e:
                    # comparing position i would raise TypeError: it must be unreachable, i.e. some
                    # earlier position already differs (obligation), and the result is decided there
                    reach = b_and(*[eq for eq, _ in pairs])
                    self.side_obligations.append((f"C16.{self.top.split('.')[-1]}.no_type_error_in_key_comparison", list(st.pc), b_not(reach), ("C16",)))
                    res = False
                    break
            for eq, c in reversed(pairs):
                res = b_ite(eq, res, c)
            return res
        name = {"<": "__lt__", "<=": "__le__", ">": "__gt__", ">=": "__ge__", "==": "__eq__", "!=": "__ne__"}[sym]
        refl = {"<": "__gt__", "<=": "__ge__", ">": "__lt__", ">=": "__le__", "==": "__eq__", "!=": "__ne__"}[sym]
        for obj, other, meth in ((a, b, name), (b, a, refl)):
            r = self._call_dunder(obj, other, meth, st, node)
            if r is not NotImplemented:
                return r
        if sym == "==":
            return a is b
        if sym == "!=":
            return a is not b
        raise TypeError(f"'{sym}' not supported between {type(a).__name__} and {type(b).__name__}")

    def _call_dunder(self, obj, other, meth, st, node):
        cls = obj.cls if isinstance(obj, SObj) else type(obj)
        mod = getattr(cls, "__module__", "")
        if not (mod.startswith("bumpver") or mod == "lexid"):
            # builtin operands: their dunder knows nothing about repo classes
            if self.needs_protocol(other):
                return NotImplemented
            sym = {"__lt__": "<", "__le__": "<=", "__gt__": ">", "__ge__": ">=", "__eq__": "==", "__ne__": "!="}[meth]
            if sym == "==":
                return v_eq(obj, other)
            if sym == "!=":
                return v_ne(obj, other)
            return v_cmp(sym, obj, other)
        raw = None
        for k in cls.__mro__:
            if meth in vars(k):
                raw = vars(k)[meth]
                break
        if raw is None or not isinstance(raw, types.FunctionType):
            return NotImplemented
        fr = self.src.funcref(f"{raw.__module__}.{raw.__qualname__}")
        s2 = st.fork()
        rs = self.call_funcref(fr, [other], {}, s2, bound_self=obj)
        vals = []
        for r in rs:
            if isinstance(r, Exc):
                raise Unsupported(f"{meth} raised {r.exc.cls.__name__}")
            extra = r.st.pc[len(st.pc):]
            vals.append((z3.And(*extra) if extra else True, r.v))
        if len(vals) == 1:
            v = vals[0][1]
            return v if v is NotImplemented else v_truthy(v)
        return b_or(*[b_and(g, v_truthy(v)) for g, v in vals])

    def compare(self, op, a, b, st, node):
        if not isinstance(op, (ast.Is, ast.IsNot, ast.In, ast.NotIn)) and (self.needs_protocol(a) or self.needs_protocol(b)):
            sym = {ast.Eq: "==", ast.NotEq: "!=", ast.Lt: "<", ast.LtE: "<=", ast.Gt: ">", ast.GtE: ">="}[type(op)]
            return self.rich_compare(sym, a, b, st, node)
        if isinstance(op, ast.Eq):
            return v_eq(a, b)
        if isinstance(op, ast.NotEq):
            return v_ne(a, b)
        if isinstance(op, ast.Is):
            if b is None:
                return v_is_none(a)
            if a is None:
                return v_is_none(b)
            if isinstance(b, bool) or isinstance(a, bool):
                return self.models.is_bool_identity(a, b)
            return a is b
        if isinstance(op, ast.IsNot):
            return b_not(self.compare(ast.Is(), a, b, st, node))
        if isinstance(op, (ast.In, ast.NotIn)) and hasattr(b, "member"):
            r = b.member(self, a, st)
            return r if isinstance(op, ast.In) else b_not(r)
        if isinstance(op, ast.In):
            return v_contains(a, b)
        if isinstance(op, ast.NotIn):
            return b_not(v_contains(a, b))
        sym = {ast.Lt: "<", ast.LtE: "<=", ast.Gt: ">", ast.GtE: ">="}[type(op)]
        return v_cmp(sym, a, b)

    def expr_BinOp(self, node, st):
        op = {ast.Add: "+", ast.Sub: "-", ast.Mult: "*", ast.FloorDiv: "//", ast.Mod: "%", ast.BitAnd: "&", ast.BitOr: "|", ast.Div: "/"}.get(type(node.op))
        if op is None:
            self.unsupported(node)
        res, excs = self.eval_seq([node.left, node.right], st)
        out = list(excs)
        for (a, b), cur in res:
            out.extend(self.binop(op, a, b, cur, node))
        return out

    def binop(self, op, a, b, st, node):
        return self.models.binop(self, op, a, b, st, node)

    def expr_Subscript(self, node, st):
        res, excs = self.eval_seq([node.value, node.slice], st)
        out = list(excs)
        for (obj, idx), cur in res:
            out.extend(self.models.getitem(self, obj, idx, cur, node))
        return out

    def expr_Slice(self, node, st):
        parts = [node.lower, node.upper, node.step]
        results = [([], st)]
        excs = []
        for p in parts:
            nxt = []
            for vals, cur in results:
                if p is None:
                    nxt.append((vals + [None], cur))
                else:
                    for r in self.eval(p, cur):
                        if isinstance(r, Exc):
                            excs.append(r)
                        else:
                            nxt.append((vals + [r.v], r.st))
            results = nxt
        return [Val(SliceVal(*v), s) for v, s in results] + excs

    def expr_Lambda(self, node, st):
        return [Val(Lambda(node, dict(st.env), st.env.get("__module__")), st)]

    def expr_Starred(self, node, st):
        out = []
        for r in self.eval(node.value, st):
            if isinstance(r, Exc):
                out.append(r)
            else:
                out.append(Val(StarArg(r.v), r.st))
        return out

    def expr_ListComp(self, node, st):
        return self.models.comprehension(self, node, st, "list")

    def expr_GeneratorExp(self, node, st):
        from .models import GenList

        out = []
        for r in self.models.comprehension(self, node, st, "list"):
            if isinstance(r, Val) and type(r.v) is list:
                r = Val(GenList(r.v), r.st)
            out.append(r)
        return out

    def expr_SetComp(self, node, st):
        return self.models.comprehension(self, node, st, "set")

    def expr_DictComp(self, node, st):
        return self.models.comprehension(self, node, st, "dict")

    def expr_Yield(self, node, st):
        self.unsupported(node, "yield as expression")

    def expr_Call(self, node, st):
        # logger.* : A-log (arguments not evaluated)
        f = node.func
        if isinstance(f, ast.Attribute) and isinstance(f.value, ast.Name) and f.value.id == "logger":
            st.emit("Log", f.attr, getattr(node, "lineno", 0))
            return [Val(None, st)]
        out = []
        for fr_ in self.eval(f, st):
            if isinstance(fr_, Exc):
                out.append(fr_)
                continue
            argnodes = list(node.args)
            kwnodes = [k for k in node.keywords]
            res, excs = self.eval_seq(argnodes + [k.value for k in kwnodes], fr_.st)
            out.extend(excs)
            for vals, cur in res:
                args = []
                for v in vals[: len(argnodes)]:
                    if isinstance(v, StarArg):
                        args.extend(self.models.iter_concrete(self, v.v, node))
                    else:
                        args.append(v)
                kwargs = {}
                for k, v in zip(kwnodes, vals[len(argnodes) :]):
                    if k.arg is None:
                        kwargs.update(self.models.mapping_items(self, v, node))
                    else:
                        kwargs[k.arg] = v
                fnv = fr_.v
                if cur is not fr_.st and isinstance(f, ast.Attribute) and _pure_ref(f.value):
                    # evaluating the arguments forked the state: the receiver of a method call must be the
                    # (cloned) object of the state the call runs in, not the one of the state before the fork
                    again = self.eval(f, cur)
                    if len(again) == 1 and not isinstance(again[0], Exc) and again[0].st is cur:
                        fnv = again[0].v
                out.extend(self.call(fnv, args, kwargs, cur, node))
        return out

    def call(self, fn, args, kwargs, st, node):
        return self.models.call(self, fn, args, kwargs, st, node)


def _pure_ref(node):
    """Name, attribute chain or constant subscript of one: re-evaluating it has no effect."""
    if isinstance(node, ast.Name):
        return True
    if isinstance(node, ast.Attribute):
        return _pure_ref(node.value)
    if isinstance(node, ast.Subscript) and isinstance(node.slice, ast.Constant):
        return _pure_ref(node.value)
    return False


def _same(x, y):
    if x is y:
        return True
    if isinstance(x, dict) and isinstance(y, dict):
        return x.keys() == y.keys() and all(_same(x[k], y[k]) for k in x)
    if isinstance(x, list) and isinstance(y, list):
        return len(x) == len(y) and all(_same(p, q) for p, q in zip(x, y))
    if isinstance(x, tuple) and isinstance(y, tuple):
        return len(x) == len(y) and all(_same(p, q) for p, q in zip(x, y))
    if isinstance(x, (str, int, bool)) and type(x) is type(y):
        return x == y
    return False


_fs_cache = {}


def _free_symbols(e):
    key = e.get_id()
    r = _fs_cache.get(key)
    if r is not None:
        return r
    out = set()
    seen = set()
    stack = [e]
    while stack:
        t = stack.pop()
        i = t.get_id()
        if i in seen:
            continue
        seen.add(i)
        if z3.is_app(t):
            if t.num_args() == 0 and t.decl().kind() == z3.Z3_OP_UNINTERPRETED:
                out.add(t.decl().name())
            elif t.decl().kind() == z3.Z3_OP_UNINTERPRETED:
                out.add(t.decl().name())
            stack.extend(t.children())
        elif z3.is_quantifier(t):
            stack.append(t.body())
    if len(_fs_cache) > 200000:
        _fs_cache.clear()
    _fs_cache[key] = (out, e)[0]
    return out


class SliceVal:
    def __init__(self, lo, hi, step):
        self.lo, self.hi, self.step = lo, hi, step


class StarArg:
    def __init__(self, v):
        self.v = v


class GenCall:
    """An un-started generator: iteration happens at the consuming site."""

    def __init__(self, fr, args, kwargs, bound_self=None):
        self.fr, self.args, self.kwargs, self.bound_self = fr, args, kwargs, bound_self


def _as_load(t):
    t2 = ast.parse(ast.unparse(t), mode="eval").body
    for n in ast.walk(t2):
        if hasattr(n, "lineno"):
            n.lineno = getattr(t, "lineno", 0)
    return t2


def _strip_doc(body):
    if body and isinstance(body[0], ast.Expr) and isinstance(body[0].value, ast.Constant) and isinstance(body[0].value.value, str):
        return body[1:]
    return body


def _is_generator(node):
    for n in ast.walk(node):
        if isinstance(n, (ast.Yield, ast.YieldFrom)):
            # exclude nested defs
            return True
    return False
