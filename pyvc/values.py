"""Value algebra of pyvc: every operation works on concrete Python values and on
symbolic values alike ("two interpretations" of DESIGN 1.3).

Concrete values are plain Python objects.  Symbolic values are instances of Sym
and wrap z3 terms.  A *bool-ish* is a Python bool or a z3 BoolRef.
"""
import z3

# --------------------------------------------------------------------------- bool-ish


def is_sym_bool(b):
    return isinstance(b, z3.BoolRef)


def to_z3_bool(b):
    if isinstance(b, SBool):
        return b.t
    if isinstance(b, bool):
        return z3.BoolVal(b)
    if isinstance(b, z3.BoolRef):
        return b
    raise TypeError(f"not bool-ish: {b!r}")


def b_not(a):
    if isinstance(a, SBool):
        a = a.t
    if isinstance(a, bool):
        return not a
    return z3.Not(a)


def b_and(*xs):
    out = []
    for x in xs:
        if isinstance(x, SBool):
            x = x.t
        if isinstance(x, bool):
            if not x:
                return False
        else:
            out.append(x)
    if not out:
        return True
    if len(out) == 1:
        return out[0]
    return z3.And(*out)


def b_or(*xs):
    out = []
    for x in xs:
        if isinstance(x, SBool):
            x = x.t
        if isinstance(x, bool):
            if x:
                return True
        else:
            out.append(x)
    if not out:
        return False
    if len(out) == 1:
        return out[0]
    return z3.Or(*out)


def b_implies(a, b):
    return b_or(b_not(a), b)


def b_iff(a, b):
    if isinstance(a, SBool):
        a = a.t
    if isinstance(b, SBool):
        b = b.t
    if isinstance(a, bool) and isinstance(b, bool):
        return a == b
    if isinstance(a, bool):
        return b if a else b_not(b)
    if isinstance(b, bool):
        return a if b else b_not(a)
    return a == b


def b_ite(c, a, b):
    if isinstance(c, SBool):
        c = c.t
    if isinstance(c, bool):
        return a if c else b
    return b_or(b_and(c, a), b_and(b_not(c), b))


# --------------------------------------------------------------------------- symbolic values


class Sym:
    """Base class of symbolic values."""

    __slots__ = ()


class SInt(Sym):
    __slots__ = ("t",)

    def __init__(self, t):
        self.t = t

    def __repr__(self):
        return f"SInt({self.t})"


class SBool(Sym):
    __slots__ = ("t",)

    def __init__(self, t):
        self.t = t

    def __repr__(self):
        return f"SBool({self.t})"


class SStr(Sym):
    __slots__ = ("t",)

    def __init__(self, t):
        self.t = t

    def __repr__(self):
        return f"SStr({self.t})"


class SOpt(Sym):
    """Optional[prim]: None when isnone, else val."""

    __slots__ = ("isnone", "val")

    def __init__(self, isnone, val):
        self.isnone = isnone
        self.val = val

    def __repr__(self):
        return f"SOpt({self.isnone}, {self.val})"


class SEnum(Sym):
    """A symbolic member of a finite set of concrete Python values.
    idx is a z3 Int in range(len(domain))."""

    __slots__ = ("idx", "domain")

    def __init__(self, idx, domain):
        self.idx = idx
        self.domain = tuple(domain)

    def __repr__(self):
        return f"SEnum({self.idx}, {self.domain})"

    def guard(self, i):
        return self.idx == i


class SGuard(Sym):
    """Guarded alternatives [(guard, value)], guards mutually exclusive and exhaustive."""

    __slots__ = ("alts",)

    def __init__(self, alts):
        self.alts = [(g, v) for g, v in alts if not (isinstance(g, bool) and not g)]

    def __repr__(self):
        return f"SGuard({self.alts})"


class SSeq(Sym):
    """Symbolic-length sequence of primitive values (z3 Seq)."""

    __slots__ = ("t", "elem")

    def __init__(self, t, elem):
        self.t = t
        self.elem = elem  # 'int' | 'str' | ('enum', domain)

    def __repr__(self):
        return f"SSeq({self.t})"


class SOpaque(Sym):
    __slots__ = ("sort", "t", "attrs")

    def __init__(self, sort, t, attrs=None):
        self.sort = sort
        self.t = t
        self.attrs = attrs or {}

    def __repr__(self):
        return f"SOpaque({self.sort}:{self.t})"


class SRec:
    """NamedTuple instance whose fields may be symbolic. Immutable."""

    __slots__ = ("cls", "fields")

    def __init__(self, cls, fields):
        self.cls = cls
        self.fields = dict(fields)

    def __repr__(self):
        return f"SRec({self.cls.__name__}, {self.fields})"

    def get(self, name):
        return self.fields[name]

    def replace(self, **kw):
        f = dict(self.fields)
        for k, v in kw.items():
            if k not in f:
                raise ValueError(f"Got unexpected field names: {k}")
            f[k] = v
        return SRec(self.cls, f)


_opaque_sorts = {}


def opaque_sort(name):
    if name not in _opaque_sorts:
        _opaque_sorts[name] = z3.DeclareSort(name)
    return _opaque_sorts[name]


# --------------------------------------------------------------------------- lifting


def is_sym(v):
    return isinstance(v, Sym)


def contains_sym(v):
    if isinstance(v, Sym):
        return True
    if isinstance(v, SRec):
        return any(contains_sym(x) for x in v.fields.values())
    if isinstance(v, (list, tuple, set, frozenset)):
        return any(contains_sym(x) for x in v)
    if isinstance(v, dict):
        return any(contains_sym(x) for x in v.values()) or any(contains_sym(x) for x in v.keys())
    return False


def z3int(v):
    if isinstance(v, SInt):
        return v.t
    if isinstance(v, z3.ArithRef):
        return v
    if isinstance(v, bool):
        return z3.IntVal(1 if v else 0)
    if isinstance(v, int):
        return z3.IntVal(v)
    if isinstance(v, SBool):
        return z3.If(v.t, z3.IntVal(1), z3.IntVal(0))
    raise TypeError(f"not int-like: {v!r}")


def z3str(v):
    if isinstance(v, SStr):
        return v.t
    if isinstance(v, z3.SeqRef):
        return v
    if isinstance(v, str):
        return z3.StringVal(v)
    raise TypeError(f"not str-like: {v!r}")


def kind_of(v):
    if isinstance(v, bool) or isinstance(v, SBool):
        return "bool"
    if isinstance(v, int) or isinstance(v, SInt):
        return "int"
    if isinstance(v, str) or isinstance(v, SStr):
        return "str"
    if v is None:
        return "none"
    if isinstance(v, SOpt):
        return "opt"
    return "other"


def as_guards(v):
    """View any value as guarded alternatives of non-SGuard/SEnum values."""
    if isinstance(v, SGuard):
        out = []
        for g, x in v.alts:
            for g2, x2 in as_guards(x):
                out.append((b_and(g, g2), x2))
        return out
    if isinstance(v, SEnum):
        return [(v.idx == i, d) for i, d in enumerate(v.domain)]
    return [(True, v)]


def v_map(fn, *vals):
    """Apply fn to all combinations of guarded alternatives and merge."""
    if not any(isinstance(v, (SGuard, SEnum)) for v in vals):
        return fn(*vals)
    alts = [as_guards(v) for v in vals]
    out = []

    def rec(i, g, chosen):
        if isinstance(g, bool) and not g:
            return
        if i == len(alts):
            out.append((g, fn(*chosen)))
            return
        for gi, vi in alts[i]:
            rec(i + 1, b_and(g, gi), chosen + [vi])

    rec(0, True, [])
    return merge_alts(out)


def merge_alts(alts):
    """Merge guarded alternatives into a single value where possible."""
    alts = [(g, v) for g, v in alts if not (isinstance(g, bool) and not g)]
    if not alts:
        raise ValueError("no alternatives")
    if len(alts) == 1:
        return alts[0][1]
    # all bool-ish
    if all(isinstance(v, (bool, z3.BoolRef, SBool)) for _, v in alts):
        r = b_or(*[b_and(g, v) for g, v in alts])
        return r if isinstance(r, bool) else SBool(r)
    res = alts[-1][1]
    for g, v in reversed(alts[:-1]):
        res = v_ite(g, v, res)
    return res


def v_ite(c, a, b):
    """Value-level if-then-else."""
    if isinstance(c, SBool):
        c = c.t
    if isinstance(c, bool):
        return a if c else b
    if a is b:
        return a
    ka, kb = kind_of(a), kind_of(b)
    if ka == kb == "int":
        if isinstance(a, int) and isinstance(b, int) and a == b:
            return a
        return SInt(z3.If(c, z3int(a), z3int(b)))
    if ka == kb == "bool":
        return SBool(z3.If(c, to_z3_bool(a), to_z3_bool(b)))
    if ka == kb == "str":
        if isinstance(a, str) and isinstance(b, str) and a == b:
            return a
        return SStr(z3.If(c, z3str(a), z3str(b)))
    if ka == kb == "none":
        return None
    if {ka, kb} <= {"none", "int", "str", "bool", "opt"}:
        oa, ob = to_opt(a, b), to_opt(b, a)
        if oa is not None and ob is not None and kind_of(oa.val) == kind_of(ob.val):
            return SOpt(z3.If(c, oa.isnone, ob.isnone), v_ite(c, oa.val, ob.val))
    if isinstance(a, SRec) and isinstance(b, SRec) and a.cls is b.cls:
        return SRec(a.cls, {k: v_ite(c, a.fields[k], b.fields[k]) for k in a.fields})
    if isinstance(a, tuple) and isinstance(b, tuple) and len(a) == len(b):
        return tuple(v_ite(c, x, y) for x, y in zip(a, b))
    if not contains_sym(a) and not contains_sym(b):
        try:
            if a == b:
                return a
        except Exception:
            pass
    return SGuard([(c, a), (b_not(c), b)])


def _default_like(v):
    k = kind_of(v)
    if k == "int":
        return 0
    if k == "str":
        return ""
    if k == "bool":
        return False
    if k == "opt":
        return _default_like(v.val)
    return None


def to_opt(v, other):
    """Lift v to SOpt using other to pick the payload kind for None."""
    if isinstance(v, SOpt):
        return v
    if v is None:
        d = _default_like(other)
        if d is None:
            return None
        return SOpt(z3.BoolVal(True), d)
    if kind_of(v) in ("int", "str", "bool"):
        return SOpt(z3.BoolVal(False), v)
    return None


# --------------------------------------------------------------------------- predicates


def v_is_none(v):
    if v is None:
        return True
    if isinstance(v, SOpt):
        return v.isnone
    if isinstance(v, (SGuard, SEnum)):
        return b_or(*[b_and(g, v_is_none(x)) for g, x in as_guards(v)])
    if hasattr(v, "__pyvc_is_none__"):
        return v.__pyvc_is_none__()
    return False


def v_truthy(v):
    if isinstance(v, SBool):
        return v.t
    if isinstance(v, z3.BoolRef):
        return v
    if isinstance(v, SInt):
        return v.t != 0
    if isinstance(v, SStr):
        return z3.Length(v.t) > 0
    if isinstance(v, SOpt):
        return b_and(b_not(v.isnone), v_truthy(v.val))
    if isinstance(v, SSeq):
        return z3.Length(v.t) > 0
    if isinstance(v, (SGuard, SEnum)):
        return b_or(*[b_and(g, v_truthy(x)) for g, x in as_guards(v)])
    if isinstance(v, SRec):
        return len(v.fields) > 0
    if isinstance(v, SOpaque):
        return True
    if type(v).__name__ in ("SObj", "PathVal", "FileVal", "ExcVal"):
        return True
    if hasattr(v, "__pyvc_truthy__"):
        return v.__pyvc_truthy__()
    return bool(v)


def unwrap_opt(v):
    """Payload of an optional (caller has established it is not None)."""
    if isinstance(v, SOpt):
        return v.val
    return v


def _prim_eq(a, b):
    ka, kb = kind_of(a), kind_of(b)
    if ka == "none" and kb == "none":
        return True
    if ka == "opt" or kb == "opt":
        if ka == "none":
            return b.isnone
        if kb == "none":
            return a.isnone
        oa, ob = to_opt(a, b), to_opt(b, a)
        if oa is None or ob is None:
            return False
        return b_or(
            b_and(oa.isnone, ob.isnone),
            b_and(b_not(oa.isnone), b_not(ob.isnone), _prim_eq(oa.val, ob.val)),
        )
    if ka == "none" or kb == "none":
        return False
    if ka in ("int", "bool") and kb in ("int", "bool"):
        if not is_sym(a) and not is_sym(b):
            return a == b
        if ka == kb == "bool":
            return to_z3_bool(a) == to_z3_bool(b)
        return z3int(a) == z3int(b)
    if ka == "str" and kb == "str":
        if not is_sym(a) and not is_sym(b):
            return a == b
        return z3str(a) == z3str(b)
    if ka != kb and ka in ("int", "bool", "str") and kb in ("int", "bool", "str"):
        return False
    return None


def v_eq(a, b):
    """Python == as a bool-ish."""
    if isinstance(a, (SGuard, SEnum)) or isinstance(b, (SGuard, SEnum)):
        if isinstance(a, SEnum) and isinstance(b, SEnum) and a.domain == b.domain:
            return a.idx == b.idx
        if isinstance(a, SGuard) and isinstance(b, SGuard) and len(a.alts) == len(b.alts) and all(
            (g1 is g2) or (isinstance(g1, z3.ExprRef) and isinstance(g2, z3.ExprRef) and g1.eq(g2)) for (g1, _), (g2, _) in zip(a.alts, b.alts)
        ):
            return b_or(*[b_and(g1, v_eq(x, y)) for (g1, x), (_, y) in zip(a.alts, b.alts)])
        r = v_map(lambda x, y: _wrapb(v_eq(x, y)), a, b)
        return r.t if isinstance(r, SBool) else r
    r = _prim_eq(a, b)
    if r is not None:
        return r
    if isinstance(a, SRec) or isinstance(b, SRec):
        fa = a.fields if isinstance(a, SRec) else (a._asdict() if hasattr(a, "_asdict") else None)
        fb = b.fields if isinstance(b, SRec) else (b._asdict() if hasattr(b, "_asdict") else None)
        if fa is None or fb is None or list(fa) != list(fb):
            if isinstance(a, SRec) and isinstance(b, tuple):
                return v_eq(tuple(a.fields.values()), b)
            if isinstance(b, SRec) and isinstance(a, tuple):
                return v_eq(a, tuple(b.fields.values()))
            return False
        return b_and(*[v_eq(fa[k], fb[k]) for k in fa])
    if isinstance(a, (list, tuple)) and isinstance(b, (list, tuple)):
        if isinstance(a, list) != isinstance(b, list):
            return False
        if len(a) != len(b):
            return False
        return b_and(*[v_eq(x, y) for x, y in zip(a, b)])
    if isinstance(a, SSeq) and isinstance(b, SSeq):
        return a.t == b.t
    if isinstance(a, SOpaque) and isinstance(b, SOpaque):
        if a.sort != b.sort:
            return False
        return a.t == b.t
    if hasattr(a, "__pyvc_eq__"):
        return a.__pyvc_eq__(b)
    if hasattr(b, "__pyvc_eq__"):
        return b.__pyvc_eq__(a)
    if contains_sym(a) or contains_sym(b):
        raise TypeError(f"v_eq unsupported: {a!r} == {b!r}")
    return a == b


def _wrapb(b):
    if isinstance(b, z3.BoolRef):
        return SBool(b)
    return b


def v_ne(a, b):
    return b_not(v_eq(a, b))


def _cmp_prim(op, a, b):
    ka, kb = kind_of(a), kind_of(b)
    if ka in ("int", "bool") and kb in ("int", "bool"):
        if not is_sym(a) and not is_sym(b):
            return {"<": a < b, "<=": a <= b, ">": a > b, ">=": a >= b}[op]
        x, y = z3int(a), z3int(b)
        return {"<": x < y, "<=": x <= y, ">": x > y, ">=": x >= y}[op]
    if ka == "str" and kb == "str":
        if not is_sym(a) and not is_sym(b):
            return {"<": a < b, "<=": a <= b, ">": a > b, ">=": a >= b}[op]
        x, y = z3str(a), z3str(b)
        # z3 str.< / str.<= are lexicographic by code point, as Python's
        return {"<": x < y, "<=": x <= y, ">": y < x, ">=": y <= x}[op]
    raise TypeError(f"cannot order {a!r} {op} {b!r}")


def v_cmp(op, a, b):
    """Python ordering comparison (<, <=, >, >=) as bool-ish. Sequences compare
    lexicographically as Python does."""
    if isinstance(a, (SGuard, SEnum)) or isinstance(b, (SGuard, SEnum)):
        r = v_map(lambda x, y: _wrapb(v_cmp(op, x, y)), a, b)
        return r.t if isinstance(r, SBool) else r
    if isinstance(a, SOpt):
        a = a.val
    if isinstance(b, SOpt):
        b = b.val
    if isinstance(a, (list, tuple)) and isinstance(b, (list, tuple)):
        return _cmp_seq(op, list(a), list(b))
    if hasattr(a, "__pyvc_cmp__"):
        return a.__pyvc_cmp__(op, b)
    if hasattr(b, "__pyvc_cmp__"):
        flip = {"<": ">", "<=": ">=", ">": "<", ">=": "<="}[op]
        return b.__pyvc_cmp__(flip, a)
    return _cmp_prim(op, a, b)


def _cmp_seq(op, a, b):
    # first index where elements differ decides; else lengths decide
    n = min(len(a), len(b))
    strict = {"<": "<", "<=": "<", ">": ">", ">=": ">"}[op]
    if len(a) == len(b):
        tail = op in ("<=", ">=")
    elif len(a) < len(b):
        tail = op in ("<", "<=")
    else:
        tail = op in (">", ">=")
    res = tail
    for i in reversed(range(n)):
        eq = v_eq(a[i], b[i])
        res = b_ite(eq, res, v_cmp(strict, a[i], b[i]))
    return res


# --------------------------------------------------------------------------- arithmetic


def v_arith(op, a, b):
    if isinstance(a, (SGuard, SEnum)) or isinstance(b, (SGuard, SEnum)):
        return v_map(lambda x, y: v_arith(op, x, y), a, b)
    if isinstance(a, SOpt):
        a = a.val
    if isinstance(b, SOpt):
        b = b.val
    ka, kb = kind_of(a), kind_of(b)
    if not contains_sym(a) and not contains_sym(b):
        import operator

        return {
            "+": operator.add,
            "-": operator.sub,
            "*": operator.mul,
            "//": operator.floordiv,
            "%": operator.mod,
        }[op](a, b)
    if ka in ("int", "bool") and kb in ("int", "bool"):
        x, y = z3int(a), z3int(b)
        if op == "+":
            return SInt(x + y)
        if op == "-":
            return SInt(x - y)
        if op == "*":
            return SInt(x * y)
        if op == "//":
            # python floor division; z3 div is floor for positive divisor
            if isinstance(b, int) and b > 0:
                return SInt(x / y)
            raise TypeError("symbolic // needs positive concrete divisor")
        if op == "%":
            if isinstance(b, int) and b > 0:
                return SInt(x % y)
            raise TypeError("symbolic % needs positive concrete divisor")
    if ka == "str" and kb == "str" and op == "+":
        return SStr(z3.Concat(z3str(a), z3str(b)))
    if op == "+" and isinstance(a, (list, tuple)) and isinstance(b, type(a)):
        return a + b
    raise TypeError(f"v_arith unsupported: {a!r} {op} {b!r}")


def v_neg(a):
    if isinstance(a, SInt):
        return SInt(-a.t)
    return -a


# --------------------------------------------------------------------------- strings


def v_len(v):
    if isinstance(v, SStr):
        return SInt(z3.Length(v.t))
    if isinstance(v, SSeq):
        return SInt(z3.Length(v.t))
    if isinstance(v, SOpt):
        return v_len(v.val)
    if isinstance(v, SRec):
        return len(v.fields)
    if hasattr(v, "__pyvc_len__"):
        return v.__pyvc_len__()
    return len(v)


def v_contains(needle, hay):
    """needle in hay."""
    if isinstance(hay, (SGuard, SEnum)) or isinstance(needle, (SGuard, SEnum)):
        r = v_map(lambda n, h: _wrapb(v_contains(n, h)), needle, hay)
        return r.t if isinstance(r, SBool) else r
    if isinstance(hay, SOpt):
        hay = hay.val
    if isinstance(needle, SOpt):
        needle = needle.val
    if isinstance(hay, (str, SStr)):
        if isinstance(hay, str) and isinstance(needle, str):
            return needle in hay
        return z3.Contains(z3str(hay), z3str(needle))
    if isinstance(hay, SSeq):
        if hay.elem == "str":
            return z3.Contains(hay.t, z3.Unit(z3str(needle)))
        return z3.Contains(hay.t, z3.Unit(z3int(needle)))
    if hasattr(hay, "__pyvc_contains__"):
        return hay.__pyvc_contains__(needle)
    if isinstance(hay, dict):
        hay = list(hay.keys())
    if isinstance(hay, (list, tuple, set, frozenset)):
        return b_or(*[v_eq(needle, h) for h in hay])
    raise TypeError(f"v_contains unsupported: {needle!r} in {hay!r}")


def sstr(name):
    return SStr(z3.String(name))


def sint(name):
    return SInt(z3.Int(name))


def sbool(name):
    return SBool(z3.Bool(name))
