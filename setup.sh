#!/bin/sh
# Build /verif/.venv offline: /venv's Python 3.12 + z3-solver, cvc5, jsonschema
# from the local wheelhouse, with a .pth that exposes /venv's site-packages
# (the editable install of /repo and its dependencies).
set -e
cd "$(dirname "$0")"
VENV=.venv
if [ -x "$VENV/bin/python" ] && "$VENV/bin/python" -c "import z3, cvc5, jsonschema, bumpver" 2>/dev/null; then
    exit 0
fi
rm -rf "$VENV"
/venv/bin/python -m venv "$VENV"
PIP_NO_INDEX=1 "$VENV/bin/python" -m pip install -q --no-index --find-links /opt/veriftools/wheels \
    z3-solver cvc5 jsonschema packaging >/dev/null
SP=$("$VENV/bin/python" -c "import sysconfig;print(sysconfig.get_paths()['purelib'])")
echo "import site; site.addsitedir('/venv/lib/python3.12/site-packages')" > "$SP/zz_repo_venv.pth"
"$VENV/bin/python" -c "import z3, cvc5, jsonschema, bumpver; print('verif venv ok', z3.get_version_string())"
