#!/usr/bin/env python3
"""Fake `git`: logs its argv (NUL separated, one record per line terminated by \\x01) and answers
from a JSON script in $FAKEGIT_DIR/script.json:
  {"status": "...", "tags": [...], "tags_merged": [...], "branches": "...", "remote_url": "...",
   "fail": {"commit": 1, ...}}"""
import json
import os
import sys

d = os.environ["FAKEGIT_DIR"]
argv = sys.argv[1:]
with open(os.path.join(d, "argv.log"), "ab") as fh:
    fh.write("\0".join(argv).encode("utf-8", "surrogateescape") + b"\x01")
try:
    sc = json.load(open(os.path.join(d, "script.json")))
except Exception:
    sc = {}
sub = argv[0] if argv else ""
key = sub
if sub == "tag" and "--list" in argv:
    key = "ls_tags_branch" if "--merged" in argv else "ls_tags"
elif sub == "tag":
    key = "tag"
elif sub == "push":
    key = "push"
rc = sc.get("fail", {}).get(key, 0)
if rc:
    sys.stderr.write(f"fake git: {key} failed\n")
    sys.exit(rc)
if sub == "rev-parse":
    print(".git")
elif sub == "status":
    sys.stdout.write(sc.get("status", ""))
elif key == "ls_tags":
    sys.stdout.write("".join(t + "\n" for t in sc.get("tags", [])))
elif key == "ls_tags_branch":
    sys.stdout.write("".join(t + "\n" for t in sc.get("tags_merged", sc.get("tags", []))))
elif sub == "branch":
    sys.stdout.write(sc.get("branches", ""))
elif sub == "config":
    url = sc.get("remote_url", "")
    if not url:
        sys.exit(1)
    print(url)
sys.exit(0)
