"""Bounded shadow (B): generated projects driven through the real `python -m bumpver` with a fake
git first on PATH. One scenario = one project + one invocation (plus a --dry twin); every oracle is
computed independently of bumpver (the generator knows where it put each occurrence).

This layer is *bounded* evidence and a source of real failing inputs for replays; it is never
counted as proved."""
import json
import os
import random
import re
import shutil
import stat
import subprocess
import sys
import tempfile

from checks._src import SRC_ROOT, ensure_src

HERE = os.path.dirname(os.path.abspath(__file__))
FAKEGIT = os.path.join(HERE, "fakegit.py")

TAGS = ["alpha", "beta", "rc", "post"]

# pattern family with an independent recogniser and an independent 'greater' oracle
FAMILIES = {
    "MAJOR.MINOR.PATCH": dict(rx=r"(\d+)\.(\d+)\.(\d+)", flags=["--patch", "--minor", "--major"], mk=lambda r: f"{r.randint(0, 3)}.{r.choice([0, 9, 10, 99])}.{r.choice([0, 3, 9, 10])}"),
    "vMAJOR.MINOR.PATCH[-TAG]": dict(rx=r"v(\d+)\.(\d+)\.(\d+)(?:-(alpha|beta|rc|post|dev|preview))?", flags=["--patch", "--minor", "--major"], mk=lambda r: f"v{r.randint(0, 3)}.{r.randint(0, 12)}.{r.randint(0, 12)}" + r.choice(["", "", "-alpha", "-beta", "-rc"])),
    "{semver}": dict(rx=r"(\d+)\.(\d+)\.(\d+)", flags=["--patch", "--minor", "--major"], mk=lambda r: f"{r.randint(0, 3)}.{r.randint(0, 12)}.{r.randint(0, 12)}"),
    "YYYY.BUILD[-TAG]": dict(rx=r"([1-9]\d{3})\.(\d+)(?:-(alpha|beta|rc|post|dev|preview))?", flags=[], mk=lambda r: f"{r.choice([2019, 2020, 2021])}.{r.choice([1001, 1009, 1099, 1999, 10999])}" + r.choice(["", "-beta"])),
}


def ref_key(s):
    import packaging.version as pv

    try:
        return (1, pv.Version(s))
    except pv.InvalidVersion:
        return (0, s)


def ref_pep440(s):
    import packaging.version as pv

    return str(pv.Version(s))


# a glob for each generated file name that matches that file only
GLOB_CHOICES = {
    "src/mod.py": ["src/*.py", "src/**/*.py", "./src/mod.py"],
    "README.md": ["README.*", "./README.md"],
    "docs/conf.py": ["docs/c*.py", "**/conf.py", "docs//conf.py"],
    "notes.txt": ["*.txt", "./notes.txt"],
    "setup.py": ["setup.*", "./setup.py"],
}
GLOBS = {k: v[0] for k, v in GLOB_CHOICES.items()}


class Scenario:
    def __init__(self, seed):
        r = random.Random(seed)
        self.seed = seed
        self.pattern = r.choice(list(FAMILIES))
        fam = FAMILIES[self.pattern]
        self.current = fam["mk"](r)
        self.sep = r.choice(["\n", "\n", "\r\n", "\r"])
        self.final_newline = r.random() < 0.8
        self.commit = r.random() < 0.6
        self.tag = self.commit and r.random() < 0.6
        self.push = self.commit and r.random() < 0.4
        self.dry = r.random() < 0.25
        self.flags = [r.choice(fam["flags"])] if fam["flags"] else []
        if "TAG" in self.pattern and r.random() < 0.3:
            # release tag changes, alone (may go backwards: alpha after beta must be rejected) or with a numeric bump
            self.flags = (self.flags if r.random() < 0.5 else []) + ["--tag", r.choice(["alpha", "beta", "rc", "final", "post"])]
        self.set_version = None
        if r.random() < 0.15:
            self.flags = []
            self.set_version = r.choice(["greater", "equal", "lower", "malformed", "pep_equal"])
        self.commit_message = r.choice([None, None, "bump {old_version} -> {new_version}", "it's a bump to {new_version}", 'say "hi" OLD -> NEW', "a' --amend '", "release {version} (unknown placeholder)"])
        # --tag-message: absent (configured template), empty (lightweight tag) or a template of its own
        self.tag_message = r.choice([None, None, None, "", "release {new_version}", "NEW after OLD"])
        # the configured template may contain the words OLD/NEW: the shorthand is a command-line feature only
        self.cfg_commit_message = r.choice(["bump version {old_version} -> {new_version}", "bump version {old_version} -> {new_version}", "Brand NEW release {new_version}, OLD one was {old_version}"])
        self.nfiles = r.randint(1, 4)
        self.files = {}
        self.sep_of = {}
        self.occ = {}  # file -> list of (line index, kind)
        self.file_patterns = {}
        names = ["src/mod.py", "README.md", "docs/conf.py", "notes.txt", "setup.py"]
        r.shuffle(names)
        for fn in names[: self.nfiles]:
            npat = r.randint(1, 2)
            kinds = r.sample(["version", "pep440", "quoted"], npat)
            lines = [f"# file {fn} line 0 ünïcode", "unrelated = one.two-three"]
            if r.random() < 0.3:
                # characters str.splitlines() would split on, a BOM, a stray CR / LF of the *other* style
                lines[0] = r.choice(["\ufeff", ""]) + lines[0] + r.choice([" form\x0cfeed", " vt\x0btab", " ls\u2028sep", " nel\x85", " fs\x1c", " x"])
            occ = []
            pats = []
            same_line = npat == 2 and r.random() < 0.25
            for i, k in enumerate(kinds):
                # occurrences are placeholders (\x01 = the version, \x02 = its PEP 440 form) filled in by render()
                if k == "version":
                    pats.append("{version}")
                    text = "release \x01 here"
                elif k == "pep440":
                    pats.append('pep = "{pep440_version}"')
                    text = 'pep = "\x02"'
                else:
                    pats.append('__version__ = "{version}"')
                    text = '__version__ = "\x01"'
                if same_line and i == 1:
                    if r.random() < 0.5:
                        lines[occ[0][0]] = lines[occ[0][0]] + "   " + text
                        occ.append((occ[0][0], k))
                    else:
                        # the later-configured pattern's occurrence to the LEFT of the earlier one, plus a line of its own
                        lines[occ[0][0]] = text + "   " + lines[occ[0][0]]
                        occ.append((occ[0][0], k))
                        lines.append("again: " + text)
                        occ.append((len(lines) - 1, k))
                else:
                    lines.append(text)
                    occ.append((len(lines) - 1, k))
                lines.append(f"filler {i} [brackets] (parens) *star*")
            # '{version}' would also match inside the quoted occurrence: keep kinds distinguishable
            if "version" in kinds and "quoted" in kinds:
                kinds = None
            self.files[fn] = lines
            # most projects use one line-ending style; some files (pasted in, generated) use another one
            self.sep_of[fn] = self.sep if r.random() < 0.7 else r.choice(["\n", "\r\n", "\r"])
            if self.sep_of[fn] == "\r\n" and r.random() < 0.15:
                lines[0] = lines[0] + " lone\rCR"  # a stray CR inside a line of a CRLF file
            self.occ[fn] = occ
            self.file_patterns[fn] = pats
            self.kinds_ok = kinds is not None
        # config spelling of the file entries: plain path, a glob, or two entries for one file
        self.split_entries = {fn: r.choice(["explicit_first", "glob_first"]) for fn in sorted(self.files) if r.random() < 0.3}
        self.globs = {fn: r.choice(GLOB_CHOICES[fn]) for fn in sorted(self.files)}  # recursive globs, ./ prefixes, doubled slashes
        # a section of another tool with a current_version line of its own (one that no generated pattern matches) in
        # front of bumpver's section
        self.foreign_section = r.random() < 0.2
        # the config file's own current_version line: listed explicitly, or left to the implicit default pattern
        self.implicit_self_pattern = r.random() < 0.5
        self.fault = r.choice([None, None, None, "nomatch", "missing", "nomatch_one"])
        self.fault_file = r.choice(sorted(self.files)) if self.fault else None
        if self.fault == "nomatch_one":
            # one pattern of a file loses its only occurrence while a sibling pattern matches on two lines
            cands = [fn for fn in sorted(self.files) if len(self.occ[fn]) == 2 and len({li for li, _ in self.occ[fn]}) == 2 and "version" in [k for _, k in self.occ[fn]]]
            if cands:
                fn = self.fault_file = r.choice(cands)
                (li_v,) = [li for li, k in self.occ[fn] if k == "version"]
                (li_o,) = [li for li, k in self.occ[fn] if k != "version"]
                self.files[fn][li_o] = "occurrence removed"
                self.files[fn].append(self.files[fn][li_v] + " (again)")
            else:
                self.fault = "nomatch"
        self.tags = []
        self.scope = r.choice(["default", "default", "global", "branch"])
        self.cli_scope = r.choice([None, None, None, "default", "global", "branch"])
        if self.commit and r.random() < 0.5:
            self.tags = [fam["mk"](r) for _ in range(r.randint(1, 4))] + ["junk", "v-not-a-version", "2023.02.30"]
        # a tag on another branch that equals the version this bump will produce (uniqueness, C09/C06)
        self.conflict = False
        eff_scope = self.cli_scope or self.scope
        if self.commit and eff_scope == "branch" and self.set_version is None and self.pattern in ("MAJOR.MINOR.PATCH", "{semver}") and r.random() < 0.5:
            a_, b_, c_ = [int(x) for x in self.current.split(".")]
            nxt = {"--patch": f"{a_}.{b_}.{c_ + 1}", "--minor": f"{a_}.{b_ + 1}.0", "--major": f"{a_ + 1}.0.0"}[self.flags[0]]
            self.tags = ["junk", nxt, "junk2"]  # merged listing = tags[:-2] = ["junk"]: the conflicting tag is only on another branch
            self.conflict = True
        self.dirty = r.choice(["", "", "", "?? untracked.txt\n", " M notes_other.txt\n"]) if self.commit else ""
        self.allow_dirty = r.random() < 0.3
        self.fail_cmd = r.choice([None, None, None, "commit", "tag", "push"]) if self.commit else None
        # "signal": the hook script is killed by a signal (negative return code in subprocess): a failure like exit 3
        self.pre_hook = r.choice([None, None, "ok", "fail", "signal"]) if self.commit else None
        self.post_hook = r.choice([None, None, "ok", "fail", "signal"]) if self.commit else None

    def render(self, lines, v):
        return [ln.replace("\x01", v).replace("\x02", self._pep(v)) for ln in lines]

    def _pep(self, v):
        try:
            return ref_pep440(v)
        except Exception:
            return v

    # ------------------------------------------------------------------ materialise
    def write(self, d):
        os.makedirs(os.path.join(d, ".git"))
        fp_lines = []
        late_lines = []
        for fn, lines in self.files.items():
            path = os.path.join(d, fn)
            os.makedirs(os.path.dirname(path), exist_ok=True)
            sep = self.sep_of.get(fn, self.sep)
            content = sep.join(self.render(lines, self.current)) + (sep if self.final_newline else "")
            if self.fault == "nomatch" and fn == self.fault_file:
                content = content.replace(self.current, "X.Y.Z").replace(self._pep(self.current), "X.Y.Z")
            if not (self.fault == "missing" and fn == self.fault_file):
                with open(path, "w", encoding="utf-8", newline="") as fh:
                    fh.write(content)
            plist = list(self.file_patterns[fn])
            if fn in self.split_entries and len(plist) == 2:
                # the same file reached through two entries (explicit path and a glob that matches only it), the
                # second one after the entries of the other files: "globbed and repeated file entries"
                first, second = (fn, self.globs[fn]) if self.split_entries[fn] == "explicit_first" else (self.globs[fn], fn)
                fp_lines.append(f'"{first}" = [\'{plist[0]}\']')
                late_lines.append(f'"{second}" = [\'{plist[1]}\']')
                continue
            if fn in self.split_entries and len(plist) == 1:
                line = f'"{self.globs[fn]}" = [\'{plist[0]}\']'
                if line not in fp_lines:  # several files may be reached through one glob entry
                    fp_lines.append(line)
                continue
            pats = ", ".join("'" + p + "'" for p in plist)
            fp_lines.append(f'"{fn}" = [{pats}]')
        fp_lines += late_lines
        hooks = ""
        for name, mode in (("pre_commit_hook", self.pre_hook), ("post_commit_hook", self.post_hook)):
            if mode:
                hp = os.path.join(d, name + ".sh")
                with open(hp, "w") as fh:
                    fh.write(f'#!/bin/sh\nprintf "%s\\0%s\\0%s\\001" "HOOK:{name}" "$BUMPVER_OLD_VERSION" "$BUMPVER_NEW_VERSION" >> "$FAKEGIT_DIR/argv.log"\n{"exit 0" if mode == "ok" else "exit 3" if mode == "fail" else "kill -KILL $$"}\n')
                os.chmod(hp, 0o755)
                hooks += f'{name} = "{name}.sh"\n'
        cfg = (
            ("[bumpversion]\ncurrent_version = \"9.9.9-foreign\"\ncommit = true\n\n" if self.foreign_section else "") + "[bumpver]\n"
            f'current_version = "{self.current}"\n'
            f'version_pattern = "{self.pattern}"\n'
            f'commit_message = "{self.cfg_commit_message}"\n'
            'tag_message = "{new_version}"\n'
            f'tag_scope = "{self.scope}"\n'
            f"{hooks}"
            f"commit = {'true' if self.commit else 'false'}\n"
            f"tag = {'true' if self.tag else 'false'}\n"
            f"push = {'true' if self.push else 'false'}\n"
            "\n[bumpver.file_patterns]\n"
            + ("" if self.implicit_self_pattern else '"bumpver.toml" = [\'current_version = "{version}"\']\n') + "\n".join(fp_lines) + "\n"
        )
        with open(os.path.join(d, "bumpver.toml"), "w", encoding="utf-8", newline="") as fh:
            fh.write(cfg)
        script = dict(status=self.dirty, tags=self.tags, tags_merged=self.tags[: max(0, len(self.tags) - 2)] if self.tags else [], branches="* master 1234567 [origin/master] msg\n" if self.push else "", fail={self.fail_cmd: 1} if self.fail_cmd else {})
        gd = os.path.join(d, ".fakegit")
        os.makedirs(gd)
        json.dump(script, open(os.path.join(gd, "script.json"), "w"))
        os.symlink(FAKEGIT, os.path.join(gd, "git"))
        return gd

    def argv(self, dry):
        a = [sys.executable, "-m", "bumpver", "update", "--no-fetch"] + self.flags
        if dry:
            a.append("--dry")
        if self.allow_dirty:
            a.append("--allow-dirty")
        if self.cli_scope is not None:
            a += ["--tag-scope", self.cli_scope]
        if self.commit_message is not None:
            a += ["--commit-message", self.commit_message]
        if getattr(self, "tag_message", None) is not None:
            a += ["--tag-message", self.tag_message]
        if self.set_version is not None:
            a += ["--set-version", self._target()]
        return a

    def _target(self):
        m = re.fullmatch(FAMILIES[self.pattern]["rx"], self.current)
        nums = [int(x) for x in m.groups()[:3] if x is not None and x.isdigit()]
        if self.pattern == "YYYY.BUILD[-TAG]":
            y, b = nums[0], nums[1]
            return {"greater": f"{y}.{b + 7}", "equal": self.current, "lower": f"{y - 1}.{b}", "malformed": "not-a-version", "pep_equal": f"{y}.{b:06d}"}[self.set_version]
        pre = "v" if self.pattern.startswith("v") else ""
        a, b, c = nums
        return {"greater": f"{pre}{a}.{b}.{c + 3}", "equal": self.current, "lower": f"{pre}{a}.{b}.{c - 1}" if c else f"{pre}{a}.{b}.{c}", "malformed": "not-a-version", "pep_equal": f"{pre}{a}.{b:02d}.{c}"}[self.set_version]


def read_argv_log(gd):
    p = os.path.join(gd, "argv.log")
    if not os.path.exists(p):
        return []
    data = open(p, "rb").read()
    return [rec.decode("utf-8", "surrogateescape").split("\0") for rec in data.split(b"\x01") if rec]


def snapshot(d):
    out = {}
    for root, dirs, files in os.walk(d):
        dirs[:] = [x for x in dirs if x not in (".git", ".fakegit")]
        for fn in files:
            p = os.path.join(root, fn)
            out[os.path.relpath(p, d)] = open(p, "rb").read()
    return out


def run_cli(d, gd, argv, extra_env=None):
    env = dict(os.environ, PYTHONPATH=SRC_ROOT, FAKEGIT_DIR=gd, PATH=gd + os.pathsep + os.environ.get("PATH", ""), PYTHONIOENCODING="utf-8", NO_COLOR="1")
    env.update(extra_env or {})
    p = subprocess.run(argv, cwd=d, env=env, capture_output=True)
    return p.returncode, p.stdout.decode("utf-8", "replace"), p.stderr.decode("utf-8", "replace")


MUTATING = ("add", "commit", "tag", "push")


def apply_unified_diff(before, diff_text):
    """Strict applier for the concatenated unified diffs printed by `update --dry` (A-lib check)."""
    files = dict(before)
    cur = None
    hunks = {}
    for line in diff_text.split("\n"):
        if line.startswith("--- "):
            cur = line[4:]
            hunks[cur] = []
        elif line.startswith("+++ "):
            continue
        elif line.startswith("@@") and cur is not None:
            m = re.match(r"@@ -(\d+)(?:,(\d+))? \+(\d+)(?:,(\d+))? @@", line)
            hunks[cur].append([int(m.group(1)), int(m.group(2) or 1), []])
        elif cur is not None and hunks.get(cur):
            hunks[cur][-1][2].append(line)
    return hunks


def plain_scenario(**over):
    """A deterministic, fault-free base scenario (one pattern family, commit + tag, no hooks, clean tree) with the
    given attributes overridden: for directed cases that must not depend on the luck of a seed."""
    sc = Scenario(0)
    sc.pattern, sc.current = "MAJOR.MINOR.PATCH", "0.1.9"
    sc.sep, sc.final_newline, sc.sep_of = "\n", True, {}
    sc.commit, sc.tag, sc.push, sc.dry = True, True, False, False
    sc.flags, sc.set_version, sc.commit_message, sc.tag_message = ["--patch"], None, None, None
    sc.cfg_commit_message = "bump version {old_version} -> {new_version}"
    sc.nfiles = 2
    sc.files = {"src/mod.py": ["# module", '__version__ = "\x01"', "tail"], "notes.txt": ["notes", "release \x01 here", 'pep = "\x02"']}
    sc.occ = {"src/mod.py": [(1, "quoted")], "notes.txt": [(1, "version"), (2, "pep440")]}
    sc.file_patterns = {"src/mod.py": ['__version__ = "{version}"'], "notes.txt": ["release {version} here", 'pep = "{pep440_version}"']}
    sc.kinds_ok = True
    sc.split_entries, sc.globs = {}, {fn: GLOB_CHOICES[fn][0] for fn in sc.files}
    sc.fault, sc.fault_file, sc.foreign_section, sc.implicit_self_pattern = None, None, False, False
    sc.tags, sc.scope, sc.cli_scope, sc.conflict = [], "default", None, False
    sc.dirty, sc.allow_dirty, sc.fail_cmd, sc.pre_hook, sc.post_hook = "", False, None, None, None
    for k, v in over.items():
        setattr(sc, k, v)
    return sc


def check_scenario(seed, keep_dir=False, sc=None):
    """Run one scenario; returns dict prop -> None (held / not applicable) or failure text."""
    ensure_src()
    sc = sc if sc is not None else Scenario(seed)
    res = {}
    d = tempfile.mkdtemp(prefix="bvshadow_")
    try:
        gd = sc.write(d)
        before = snapshot(d)
        # ---- dry twin first (must not change anything)
        rc_dry, out_dry, err_dry = run_cli(d, gd, sc.argv(True))
        if snapshot(d) != before:
            res["C13"] = f"--dry changed files (exit {rc_dry})"
        dry_calls = [c for c in read_argv_log(gd) if c and (c[0] in MUTATING and not (c[0] == "tag" and "--list" in c) or c[0].startswith("HOOK:"))]
        if dry_calls:
            res["C13"] = res["C10"] = f"--dry issued {dry_calls[:2]}"
        if os.path.exists(os.path.join(gd, "argv.log")):
            os.unlink(os.path.join(gd, "argv.log"))
        if sc.dry:
            rc, out, err = rc_dry, out_dry, err_dry
        else:
            rc, out, err = run_cli(d, gd, sc.argv(False))
        after = snapshot(d)
        calls = read_argv_log(gd)
        m_old = re.search(r"Old Version: (\S+)", err + out)
        m_new = re.search(r"New Version: (\S+)", err + out)
        old, new = (m_old.group(1) if m_old else None), (m_new.group(1) if m_new else None)
        mutating = [c for c in calls if c and c[0] in MUTATING and not (c[0] == "tag" and "--list" in c)]
        hooks_run = [c for c in calls if c and c[0].startswith("HOOK:")]
        fam = FAMILIES[sc.pattern]
        # ---- C01 / C09
        if rc == 0:
            if new is None:
                res["C01"] = "exit 0 without announcing a version"
            else:
                if not re.fullmatch(fam["rx"], new):
                    res["C01"] = f"announced {new!r} does not match {sc.pattern}"
                start = sc.current
                valid_tags = [t for t in (script_tags(sc)) if re.fullmatch(fam["rx"], t)]
                if valid_tags:
                    best = max(valid_tags, key=ref_key)
                    if (sc.cli_scope or sc.scope) == "default":
                        start = best if ref_key(best) > ref_key(sc.current) else sc.current
                    else:
                        start = best
                if old is not None and ref_key(old) != ref_key(start):
                    res["C09"] = f"started from {old!r}, expected {start!r} (config scope {sc.scope}, --tag-scope {sc.cli_scope}, tags {sc.tags})"
                if not (ref_key(new) > ref_key(start)):
                    res["C01"] = f"announced {new!r} is not greater than start {start!r}"
                all_valid = [t for t in sc.tags if re.fullmatch(fam["rx"], t)]
                if new in all_valid:
                    res["C09"] = f"new version {new!r} equals an existing tag"
        if sc.conflict and rc == 0:
            res["C09"] = res["C06"] = f"new version {new!r} equals a tag on another branch but the update went through (exit 0)"
        if sc.conflict and not sc.dry and [f for f in set(before) | set(after) if before.get(f) != after.get(f)]:
            res["C06"] = f"new version rejected (tag conflict) but files changed (exit {rc})"
        # ---- C06 / C13: a configured pattern without an occurrence / a missing configured file is an error, also under --dry
        if sc.fault is not None and rc == 0:
            res["C13" if sc.dry else "C06"] = f"update{' --dry' if sc.dry else ''} exited 0 although a configured pattern has no occurrence / a configured file is missing (fault {sc.fault} in {sc.fault_file})"
        # ---- C06 / C13: failures leave everything untouched
        if rc != 0 or sc.dry:
            changed = [f for f in set(before) | set(after) if before.get(f) != after.get(f)]
            blocking_dirty = bool(sc.dirty) and not sc.dirty.startswith("??") and not sc.allow_dirty
            rewrite_failed = sc.fault is not None or new is None or blocking_dirty or sc.conflict
            if changed and (sc.dry or rewrite_failed):
                res["C06" if not sc.dry else "C13"] = f"exit {rc} but files changed: {changed}"
            if (sc.dry or rewrite_failed) and mutating:
                res["C06" if not sc.dry else "C13"] = f"exit {rc} but VCS commands ran: {mutating[:2]}"
        # ---- C03 / C04: successful real run rewrote exactly the occurrences
        mismatch_files = []
        if rc == 0 and not sc.dry and new is not None and sc.kinds_ok:
            written = new
            m_cfg = re.search(r'current_version = "([^"]*)"', after.get("bumpver.toml", b"").decode("utf-8", "replace"))
            in_cfg = m_cfg.group(1) if m_cfg else None
            if sc.set_version is not None and in_cfg is not None and in_cfg != new and in_cfg != sc.current and ref_key(in_cfg) == ref_key(new):
                # --set-version with a spelling the pattern's regex accepts but bumpver does not render (leading zeros):
                # the given text is announced/tagged, bumpver's own rendering is written. Known finding (C03); everything
                # else is judged against the text that is actually written.
                written = in_cfg
                res["C03"] = f"[set_version_noncanonical] announced {new!r} but occurrences and config are written as {written!r}"
            announced, new = new, written
            for fn, lines in sc.files.items():
                exp = sc.render(lines, new)
                sep = sc.sep_of.get(fn, sc.sep)
                want = (sep.join(exp) + (sep if sc.final_newline else "")).encode("utf-8")
                got = after.get(fn)
                if got is None or _pep_spelling(got) != _pep_spelling(want):
                    same_line = len({li for li, _ in sc.occ[fn]}) < len(sc.occ[fn])
                    res["C03" if same_line or got is None or sc.current.encode() in got else "C04"] = f"{fn}: content after update differs from expectation (same-line occurrences: {same_line})"
                    mismatch_files.append(fn)
            cfgtxt = after.get("bumpver.toml", b"").decode("utf-8")
            if f'current_version = "{new}"' not in cfgtxt:
                res["C03"] = "config current_version not updated"
            if sc.foreign_section and 'current_version = "9.9.9-foreign"' not in cfgtxt:
                res["C04"] = "the current_version line of a foreign section ([bumpversion]) was rewritten"
            new = announced
        # ---- C10 / C12: order and arguments of VCS steps on a real run
        if not sc.dry:
            seq = [("hook:" + c[0][5:]) if c[0].startswith("HOOK:") else c[0] for c in calls if c and (c[0] in MUTATING and not (c[0] == "tag" and "--list" in c) or c[0].startswith("HOOK:"))]
            order = ["hook:pre_commit_hook", "add", "commit", "hook:post_commit_hook", "tag", "push"]
            idx = [order.index(s) for s in seq if s in order]
            if idx != sorted(idx):
                res["C10"] = f"steps out of order: {seq}"
            if not sc.commit and seq:
                res["C10"] = f"commit off but steps ran: {seq}"
            if rc == 0 and sc.commit and new is not None:
                exp_steps = (["hook:pre_commit_hook"] if sc.pre_hook else []) + ["add"] * (sc.nfiles + 1) + ["commit"] + (["hook:post_commit_hook"] if sc.post_hook else []) + (["tag"] if sc.tag else []) + (["push"] if sc.push else [])
                if sorted(seq) != sorted(exp_steps):
                    res["C10"] = f"steps {seq} != expected {exp_steps}"
                commits = [c for c in calls if c and c[0] == "commit"]
                if commits:
                    tmpl = sc.commit_message if sc.commit_message is not None else sc.cfg_commit_message
                    tmpl = re.sub(r"\b(OLD|NEW)\b", r"{\1_VERSION}", tmpl) if sc.commit_message is not None else tmpl
                    try:
                        want_msg = tmpl.format(new_version=new, old_version=old, NEW_VERSION=new, OLD_VERSION=old, new_version_pep440=sc._pep(new), old_version_pep440=sc._pep(old))
                    except Exception:
                        want_msg = None
                    if want_msg is not None and commits[0] != ["commit", "--message", want_msg]:
                        res["C12"] = f"commit argv {commits[0]!r} != ['commit', '--message', {want_msg!r}]"
                tag_calls = [c for c in calls if c and c[0] == "tag" and "--list" not in c]
                if sc.tag and tag_calls:
                    cli_tm = getattr(sc, "tag_message", None)
                    ttmpl = "{new_version}" if cli_tm is None else re.sub(r"\b(OLD|NEW)\b", r"{\1_VERSION}", cli_tm)
                    try:
                        tmsg = ttmpl.format(new_version=new, old_version=old, NEW_VERSION=new, OLD_VERSION=old, new_version_pep440=sc._pep(new), old_version_pep440=sc._pep(old))
                    except Exception:
                        tmsg = None
                    if tmsg is not None:
                        want_tag = ["tag", "--annotate", new, "--message", tmsg] if tmsg else ["tag", new]
                        if tag_calls[0] != want_tag:
                            res["C12"] = f"tag argv {tag_calls[0]!r} != {want_tag!r}"
                added = sorted(c[-1] for c in calls if c and c[0] == "add")
                if added != sorted(list(sc.files) + ["bumpver.toml"]):
                    res["C12"] = f"staged paths {added}"
                for h in hooks_run:
                    if h[1:] != [old, new]:
                        res["C10"] = f"hook env {h}"
            first_fail = None
            if sc.pre_hook in ("fail", "signal"):
                first_fail = "hook:pre_commit_hook"
            elif sc.fail_cmd == "commit":
                first_fail = "commit"
            elif sc.post_hook in ("fail", "signal"):
                first_fail = "hook:post_commit_hook"
            elif sc.fail_cmd == "tag" and sc.tag:
                first_fail = "tag"
            elif sc.fail_cmd == "push" and sc.push:
                first_fail = "push"
            if first_fail and first_fail in seq and seq[-1] != first_fail:
                res["C10"] = f"steps continued after failing {first_fail}: {seq}"
            if first_fail and first_fail in seq and rc == 0:
                res["C10"] = f"exit 0 although {first_fail} failed"
        # ---- C13: the diff printed by --dry shows the lines a real run writes, each as one line of output
        m_newd = re.search(r"New Version: (\S+)", err_dry + out_dry)
        if rc_dry == 0 and m_newd and sc.kinds_ok and sc.fault is None and not (sc.set_version == "pep_equal"):
            shown = [_pep_spelling(x) for x in (out_dry + "\n" + err_dry).split("\n")]
            for fn, lines in sc.files.items():
                old_l, new_l = sc.render(lines, sc.current if old is None else old), sc.render(lines, m_newd.group(1))
                if old is not None and old != sc.current:
                    continue  # started from a tag: the files on disk do not show the start version
                for li, _k in sc.occ[fn]:
                    if old_l[li] == new_l[li]:
                        continue
                    need = ["-" + old_l[li], "+" + new_l[li]] + [" " + old_l[j] for j in (li - 1, li - 2) if j >= 0 and old_l[j] == new_l[j]]
                    missing = [x for x in need if _pep_spelling(x) not in shown]
                    if missing:
                        res["C13"] = f"--dry output does not show {missing[0]!r} as a line of the diff of {fn}"
            if "C13" not in res and mismatch_files and not sc.dry:
                # the printed diff shows the expected lines, the real run with the same arguments wrote something else
                res["C13"] = f"--dry announced the expected change of {mismatch_files[0]} but the real run wrote different content"
        # ---- C13: dry exit 0 => real run's rewrite phase succeeds
        if rc_dry == 0 and not sc.dry and sc.fault is None:
            if rc != 0 and not (sc.fail_cmd or sc.pre_hook in ("fail", "signal") or sc.post_hook in ("fail", "signal") or (bool(sc.dirty) and not sc.dirty.startswith("??") and not sc.allow_dirty)):
                res["C13"] = f"--dry exit 0 but real run exit {rc}: {err[-200:]}"
        res["_rc"] = rc
        if any(not k.startswith("_") for k in res):
            res["_detail"] = dict(seed=seed, pattern=sc.pattern, current=sc.current, argv=sc.argv(sc.dry)[2:], exit=rc, old=old, new=new, fault=sc.fault, stderr=err[-400:])
        return res
    except Exception as e:  # noqa
        import traceback

        return {"_error": traceback.format_exc()[-600:]}
    finally:
        if not keep_dir:
            shutil.rmtree(d, ignore_errors=True)


def _pep_spelling(x):
    """PEP 440 allows '1.0.post0' and '1.0post0' ('.dev0' / 'dev0') for the same version: compare modulo that dot."""
    if isinstance(x, bytes):
        return re.sub(rb"(?<=\d)\.(post|dev)(?=\d)", rb"\1", x)
    return re.sub(r"(?<=\d)\.(post|dev)(?=\d)", r"\1", x)


def canonical_spelling(v):
    """The spelling bumpver itself renders for the generated families: numeric components without leading zeros."""
    return re.sub(r"(?<![0-9])0+(?=[0-9])", "", v)


def script_tags(sc):
    if (sc.cli_scope or sc.scope) == "branch":
        return sc.tags[: max(0, len(sc.tags) - 2)] if sc.tags else []
    return sc.tags


def replay_seed(seed, prop):
    r = check_scenario(seed)
    return prop not in r


_TWO = {"notes.txt": ["notes", "release \x01 here", 'pep = "\x02"'], "src/mod.py": ["# module", '__version__ = "\x01"', "tail"]}
_TWO_OCC = {"notes.txt": [(1, "version"), (2, "pep440")], "src/mod.py": [(1, "quoted")]}
# Directed scenarios run by every shadow layer next to the seeded ones: situations that seeded generation reaches
# only now and then (each one was needed by some seeded change), kept deterministic here.
DIRECTED = [
    ("tag goes backwards", dict(pattern="vMAJOR.MINOR.PATCH[-TAG]", current="v1.2.3-beta", flags=["--tag", "alpha"])),
    ("tag goes backwards, dry", dict(pattern="vMAJOR.MINOR.PATCH[-TAG]", current="v1.2.3-beta", flags=["--tag", "alpha"], dry=True)),
    ("tag forward", dict(pattern="vMAJOR.MINOR.PATCH[-TAG]", current="v1.2.3-beta", flags=["--tag", "rc"])),
    ("one file through two non-adjacent entries, explicit first", dict(files=_TWO, occ=_TWO_OCC, split_entries={"notes.txt": "explicit_first"})),
    ("one file through two non-adjacent entries, glob first", dict(files=_TWO, occ=_TWO_OCC, split_entries={"notes.txt": "glob_first"})),
    ("recursive glob and ./ spelling", dict(split_entries={"src/mod.py": "glob_first", "notes.txt": "explicit_first"}, globs={"src/mod.py": "src/**/*.py", "notes.txt": "./notes.txt"})),
    (
        "one recursive glob reaching files at depth 0 and depth 1",
        dict(
            files={"src/mod.py": ["# module", '__version__ = "\x01"', "tail"], "src/pkg/inner.py": ["# inner", '__version__ = "\x01"'], "notes.txt": ["notes", "release \x01 here", 'pep = "\x02"']},
            occ={"src/mod.py": [(1, "quoted")], "src/pkg/inner.py": [(1, "quoted")], "notes.txt": [(1, "version"), (2, "pep440")]},
            file_patterns={"src/mod.py": ['__version__ = "{version}"'], "src/pkg/inner.py": ['__version__ = "{version}"'], "notes.txt": ["release {version} here", 'pep = "{pep440_version}"']},
            split_entries={"src/mod.py": "glob_first", "src/pkg/inner.py": "glob_first"},
            globs={"src/mod.py": "src/**/*.py", "src/pkg/inner.py": "src/**/*.py", "notes.txt": "*.txt"},
            nfiles=3,
        ),
    ),
    ("doubled slash spelling", dict(split_entries={"src/mod.py": "glob_first"}, globs={"src/mod.py": "src//mod.py", "notes.txt": "*.txt"})),
    ("form feed / line separator characters inside lines", dict(files={"src/mod.py": ["# page\x0cbreak", '__version__ = "\x01"', "tail\u2028more"], "notes.txt": ["notes vt\x0btab", "release \x01 here", 'pep = "\x02"']})),
    ("the same, dry", dict(dry=True, files={"src/mod.py": ["# page\x0cbreak", '__version__ = "\x01"', "tail\u2028more"], "notes.txt": ["notes vt\x0btab", "release \x01 here", 'pep = "\x02"']})),
    ("files with different line endings", dict(sep_of={"src/mod.py": "\r\n", "notes.txt": "\r"})),
    ("files with different line endings, other order", dict(sep_of={"src/mod.py": "\n", "notes.txt": "\r\n"}, final_newline=False)),
    ("BOM at the start of a file", dict(files={"src/mod.py": ["\ufeff# module", '__version__ = "\x01"', "tail"], "notes.txt": ["notes", "release \x01 here", 'pep = "\x02"']})),
    ("new version shorter than the old one", dict(current="0.1.10", flags=["--minor"])),
    ("new version shorter, tag dropped", dict(pattern="vMAJOR.MINOR.PATCH[-TAG]", current="v1.2.3-beta", flags=["--tag", "final"])),
    ("pattern matched in the first file, unmatched in the second", dict(file_patterns={"src/mod.py": ['__version__ = "{version}"'], "notes.txt": ["release {version} here", '__version__ = "{version}"']}, occ={"src/mod.py": [(1, "quoted")], "notes.txt": [(1, "version")]}, fault="nomatch_one", fault_file="notes.txt")),
    ("hook killed by a signal", dict(pre_hook="signal")),
    ("post hook fails", dict(post_hook="fail")),
    ("commit fails", dict(fail_cmd="commit")),
    ("unknown placeholder in --commit-message, dry", dict(commit_message="release {version}", dry=True)),
    ("unknown placeholder in --commit-message", dict(commit_message="release {version}")),
    ("dirty unrelated file, not allowed", dict(dirty=" M notes_other.txt\n")),
    ("dirty unrelated file, allowed", dict(dirty=" M notes_other.txt\n", allow_dirty=True)),
    ("untracked unrelated file", dict(dirty="?? untracked.txt\n")),
    ("push", dict(push=True)),
    ("no commit", dict(commit=False, tag=False)),
    ("legacy pattern", dict(pattern="{semver}", current="0.1.9")),
    ("calendar pattern", dict(pattern="YYYY.BUILD[-TAG]", current="2020.1009-beta", flags=[])),
]


def _directed_result(i):
    name, over = DIRECTED[i]
    r = check_scenario(0, sc=plain_scenario(**over))
    if any(not k.startswith("_") for k in r):
        r.setdefault("_detail", {})
        r["_detail"] = dict(r["_detail"], directed=name)
    return r


def replay_directed(i, prop):
    return prop not in _directed_result(i)


def run_shadow(prop, tier, seed, n_quick=160, n_thorough=4000):
    import multiprocessing as mp

    n = n_quick if tier == "quick" else n_thorough
    seeds = [seed * 1000003 + i for i in range(n)]
    with mp.get_context("fork").Pool(16) as pool:
        results = pool.map(check_scenario, seeds, chunksize=4)
        dres = pool.map(_directed_result, range(len(DIRECTED)))
    seeds = seeds + [("directed", i) for i in range(len(DIRECTED))]
    results = results + dres
    n = len(seeds)
    bad = [(s, r) for s, r in zip(seeds, results) if prop in r]
    errs = [(s, r) for s, r in zip(seeds, results) if "_error" in r]
    # listed known findings are identified by their witness class ("[class] ..." in the failure text)
    from checks import _known

    known = {k["witness_class"]: k for k in _known.load(prop)}
    cls_of = lambda r: r[prop][1 : r[prop].index("]")] if r[prop].startswith("[") else "other"
    known_hits = sorted({cls_of(r) for s, r in bad if cls_of(r) in known})
    new_bad = [(s, r) for s, r in bad if cls_of(r) not in known]
    kf = ",".join(known[c]["id"] for c in known_hits) if bad and not new_bad else None
    bad = new_bad or bad
    out = dict(
        name=f"{prop}.shadow.generated_projects_through_the_real_cli_with_fake_git",
        kind="B",
        verdict="held" if not bad and not errs else ("refuted" if bad else "error"),
        cases=n,
        distinct=n,
        bound=f"{n - len(DIRECTED)} seeded projects (seed {seed}) + {len(DIRECTED)} directed ones: 1..4 files x 1..2 patterns, 4 pattern families, LF/CRLF/CR, flags/--set-version targets, tag lists and scopes, faults (non-matching pattern, missing file, failing git command, failing hooks), fake git on PATH",
        sample=[dict(seed=seeds[0])],
        witness=[dict(seed=s, problem=r[prop], detail=r.get("_detail")) for s, r in bad[:3]],
        observed=bad[0][1][prop] if bad else None,
        detail=errs[0][1]["_error"] if errs and not bad else None,
        python_replay=((dict(module="shadows.project", function="replay_directed", args=[bad[0][0][1], prop]) if isinstance(bad[0][0], tuple) else dict(module="shadows.project", function="replay_seed", args=[bad[0][0], prop])) if bad else None),
    )
    if kf:
        out["known_finding"] = kf
    return out
